import Vinegar.Spec.TextFile
/-
Helper lemmas for C14: association-list dictionaries, agreement of the per-line functions of
model and specification, and the invariant that ties the four containers of the model to
the record list of the specification.
-/
namespace Vinegar.TextFile

/-! ## `dict` operations -/

theorem dget_dset {κ α : Type} [DecidableEq κ] (k k' : κ) (v : α) (d : List (κ × α)) :
    dget k' (dset k v d) = if k = k' then some v else dget k' d := by
  induction d with
  | nil => simp [dset, dget]
  | cons p r ih =>
    obtain ⟨a, b⟩ := p
    by_cases h : a = k
    · subst h
      by_cases h' : a = k' <;> simp [dset, dget, h']
    · by_cases h' : a = k'
      · subst h'
        have : ¬ k = a := fun e => h e.symm
        simp [dset, dget, h, this]
      · simp [dset, dget, h, h', ih]

theorem dget_dappend {κ α : Type} [DecidableEq κ] (k k' : κ) (x : α) (d : List (κ × List α)) :
    (dget k' (dappend k x d)).getD [] =
      if k = k' then (dget k d).getD [] ++ [x] else (dget k' d).getD [] := by
  unfold dappend
  rw [dget_dset]
  by_cases h : k = k' <;> simp [h]

/-! ## Per-line functions -/

theorem processVariable_optional (vc : VarCfg) (g : Groups) :
    processVariable vc g true = specValue vc g := by
  unfold processVariable specValue
  cases hg : groupOf g vc.source with
  | none => rfl
  | some raw =>
    cases raw with
    | none =>
      cases ht : vc.transformNone <;> simp [Val.ofOpt]
      cases applyChain vc.chain Val.none <;> rfl
    | some s =>
      simp [Val.ofOpt]
      cases applyChain vc.chain (Val.str s) <;> rfl

theorem systemId_eq (cfg : Cfg) (g : Groups) : systemId cfg g = specSysId cfg g := by
  unfold systemId specSysId processVariable specValue
  cases hg : groupOf g cfg.sysId.source with
  | none => rfl
  | some raw =>
    cases raw with
    | none =>
      cases ht : cfg.sysId.transformNone <;> simp [Val.ofOpt]
      cases hc : applyChain cfg.sysId.chain Val.none with
      | error e => rfl
      | ok v => cases v <;> simp
    | some s =>
      simp [Val.ofOpt]
      cases hc : applyChain cfg.sysId.chain (Val.str s) with
      | error e => rfl
      | ok v => cases v <;> simp

/-! ## Index entries contributed by one line -/

/-- one entry `sid` per variable of the line that is `key` with value `val` -/
def hits (vs : List (String × Val)) (sid key : String) (val : Val) : List String :=
  (vs.filter (fun kv => kv.1 = key ∧ kv.2 = val)).map (fun _ => sid)

/-- the `(sid, value)` entries of the unhashable values of variable `key` -/
def nhHits (vs : List (String × Val)) (sid key : String) : List (String × Val) :=
  (vs.filter (fun kv => kv.1 = key ∧ kv.2.hashable = false)).map (fun kv => (sid, kv.2))

theorem specMatches_eq (rs : List Rec) (key : String) (val : Val) :
    specMatches rs key val = rs.flatMap (fun r => hits r.vars r.sid key val) := rfl

theorem nhHits_filter (vs : List (String × Val)) (sid key : String) (val : Val)
    (hv : val.hashable = false) :
    (nhHits vs sid key).filterMap (fun p => if p.2 = val then some p.1 else none) =
      hits vs sid key val := by
  induction vs with
  | nil => rfl
  | cons kv r ih =>
    obtain ⟨k, v⟩ := kv
    unfold nhHits hits at *
    by_cases hk : k = key
    · by_cases hvv : v = val
      · subst hvv; simpa [List.filter_cons, hk, hv] using ih
      · cases hh : v.hashable <;> simpa [List.filter_cons, hk, hvv, hh] using ih
    · simpa [List.filter_cons, hk] using ih

/-- the variable loop of the model computes the specified `(key, value)` list and mapping,
and appends exactly the line's entries to both indexes -/
theorem processVars_spec (g : Groups) (sid : String) :
    ∀ (vars : List (String × VarCfg)) (d : Kids) (idx : List ((String × Val) × List String))
      (nh : List (String × List (String × Val))),
      match specLine g vars d with
      | .error e => processVars g sid vars d idx nh = .error e
      | .ok (vs, d') => ∃ idx' nh', processVars g sid vars d idx nh = .ok (d', idx', nh') ∧
          (∀ key val, val.hashable = true →
            (dget (key, val) idx').getD [] = (dget (key, val) idx).getD [] ++ hits vs sid key val) ∧
          (∀ key, (dget key nh').getD [] = (dget key nh).getD [] ++ nhHits vs sid key) := by
  intro vars
  induction vars with
  | nil =>
    intro d idx nh
    simp only [specLine, processVars]
    exact ⟨idx, nh, rfl, by simp [hits], by simp [nhHits]⟩
  | cons kv rest ih =>
    intro d idx nh
    obtain ⟨key, vc⟩ := kv
    unfold specLine processVars
    rw [processVariable_optional]
    cases hv : specValue vc g with
    | error e => simp
    | ok v =>
      simp only []
      by_cases hskip : v = Val.none ∧ (!vc.useNone) = true
      · simp only [hskip, and_self, if_true]
        exact ih d idx nh
      · simp only [hskip, if_false]
        cases hp : setPath (splitColon key).dropLast ((splitColon key).getLastD "") v d with
        | error e => simp
        | ok d1 =>
          simp only []
          cases hh : v.hashable with
          | true =>
            have := ih d1 (dappend (key, v) sid idx) nh
            simp only [if_true]
            cases hs : specLine g rest d1 with
            | error e => simpa [hs] using this
            | ok r =>
              obtain ⟨vs, d2⟩ := r
              rw [hs] at this
              obtain ⟨idx', nh', h1, h2, h3⟩ := this
              refine ⟨idx', nh', h1, ?_, ?_⟩
              · intro k val hval
                rw [h2 k val hval, dget_dappend]
                by_cases hkv : (key, v) = (k, val)
                · cases hkv
                  simp [hits]
                · have : ¬ (key = k ∧ v = val) := fun h => hkv (by rw [h.1, h.2])
                  simp [hkv, hits, this]
              · intro k
                rw [h3 k]
                simp [nhHits, hh]
          | false =>
            have := ih d1 idx (dappend key (sid, v) nh)
            simp only [Bool.false_eq_true, if_false]
            cases hs : specLine g rest d1 with
            | error e => simpa [hs] using this
            | ok r =>
              obtain ⟨vs, d2⟩ := r
              rw [hs] at this
              obtain ⟨idx', nh', h1, h2, h3⟩ := this
              refine ⟨idx', nh', h1, ?_, ?_⟩
              · intro k val hval
                rw [h2 k val hval]
                have : ¬ (key = k ∧ v = val) := fun h => by rw [h.2, hval] at hh; cases hh
                simp [hits, this]
              · intro k
                rw [h3 k, dget_dappend]
                by_cases hk : key = k
                · subst hk; simp [nhHits, hh]
                · simp [hk, nhHits]

/-! ## The containers of the model against the record list of the specification -/

/-- the four containers hold exactly the records `rs` -/
structure Rel (ver : String → String) (t : Tables) (rs : List Rec) : Prop where
  data : ∀ sid, dget sid t.data = (rs.find? (fun r => r.sid = sid)).map (·.data)
  vers : ∀ sid, dget sid t.vers = (rs.find? (fun r => r.sid = sid)).map (fun r => ver r.text)
  idx : ∀ key val, val.hashable = true → (dget (key, val) t.idx).getD [] = specMatches rs key val
  nh : ∀ key, (dget key t.nh).getD [] = rs.flatMap (fun r => nhHits r.vars r.sid key)

theorem Rel.empty (ver : String → String) : Rel ver Tables.empty [] :=
  ⟨fun _ => rfl, fun _ => rfl, fun _ _ _ => rfl, fun _ => rfl⟩

theorem Rel.known {ver : String → String} {t : Tables} {rs : List Rec} (h : Rel ver t rs)
    (sid : String) : (dget sid t.data).isSome = rs.any (fun r => r.sid = sid) := by
  rw [h.data sid]
  cases hf : rs.find? (fun r => r.sid = sid) with
  | none =>
    have := List.find?_eq_none.mp hf
    simp only [Option.map_none, Option.isSome_none]
    symm
    rw [List.any_eq_false]
    intro r hr
    simpa using this r hr
  | some r =>
    have hm := List.mem_of_find?_eq_some hf
    have hp := List.find?_some hf
    simp only [Option.map_some, Option.isSome_some]
    symm
    rw [List.any_eq_true]
    exact ⟨r, hm, hp⟩

theorem find?_append_new (rs : List Rec) (r : Rec) (sid : String)
    (hnew : rs.any (fun x => x.sid = r.sid) = false) :
    (rs ++ [r]).find? (fun x => x.sid = sid) =
      if r.sid = sid then some r else rs.find? (fun x => x.sid = sid) := by
  rw [List.find?_append]
  by_cases h : r.sid = sid
  · have : rs.find? (fun x => decide (x.sid = sid)) = none := by
      rw [List.find?_eq_none]
      intro x hx
      rw [List.any_eq_false] at hnew
      have := hnew x hx
      simpa [h] using this
    simp [this, h]
  · simp [h]

/-- one accepted line extends the relation by its record -/
theorem Rel.extend {ver : String → String} {t : Tables} {rs : List Rec} (h : Rel ver t rs)
    (r : Rec) (idx' : List ((String × Val) × List String)) (nh' : List (String × List (String × Val)))
    (hnew : rs.any (fun x => x.sid = r.sid) = false)
    (hidx : ∀ key val, val.hashable = true →
      (dget (key, val) idx').getD [] = (dget (key, val) t.idx).getD [] ++ hits r.vars r.sid key val)
    (hnh : ∀ key, (dget key nh').getD [] = (dget key t.nh).getD [] ++ nhHits r.vars r.sid key) :
    Rel ver { data := dset r.sid r.data t.data, vers := dset r.sid (ver r.text) t.vers,
              idx := idx', nh := nh' } (rs ++ [r]) := by
  constructor
  · intro sid
    simp only []
    rw [dget_dset, find?_append_new rs r sid hnew, h.data sid]
    by_cases hs : r.sid = sid <;> simp [hs]
  · intro sid
    simp only []
    rw [dget_dset, find?_append_new rs r sid hnew, h.vers sid]
    by_cases hs : r.sid = sid <;> simp [hs]
  · intro key val hv
    simp only []
    rw [hidx key val hv, h.idx key val hv, specMatches_eq, specMatches_eq]
    simp
  · intro key
    simp only []
    rw [hnh key, h.nh key]
    simp

/-- MAIN INVARIANT: the line loop of the model, started in containers that hold `rs`, fails
exactly where the specification fails and otherwise ends in containers holding the specified
records -/
theorem parseLines_spec (ver : String → String) (cfg : Cfg) :
    ∀ (lines : List Line) (t : Tables) (rs : List Rec), Rel ver t rs →
      match specRecords cfg lines rs with
      | .error e => (parseLines ver cfg lines t).2 = some e
      | .ok rs' => ∃ t', parseLines ver cfg lines t = (t', none) ∧ Rel ver t' rs' := by
  intro lines
  induction lines with
  | nil =>
    intro t rs h
    simp only [specRecords, parseLines]
    exact ⟨t, rfl, h⟩
  | cons l ls ih =>
    intro t rs h
    unfold specRecords parseLines step
    cases hc : l.cls with
    | ignored => simpa using ih t rs h
    | mismatch =>
      by_cases hm : cfg.mismatch = Action.error
      · simp [hm]
      · simpa [hm] using ih t rs h
    | groups g =>
      simp only []
      rw [systemId_eq]
      cases hs : specSysId cfg g with
      | error e => simp
      | ok sid =>
        simp only []
        rw [h.known sid]
        cases hk : rs.any (fun r => decide (r.sid = sid)) with
        | true =>
          by_cases hd : cfg.duplicate = Action.error
          · simp [hd]
          · simpa [hd] using ih t rs h
        | false =>
          simp only [Bool.false_eq_true, if_false]
          have hv := processVars_spec g sid cfg.vars Kids.nil t.idx t.nh
          cases hl : specLine g cfg.vars Kids.nil with
          | error e =>
            rw [hl] at hv
            simp [hv]
          | ok p =>
            obtain ⟨vs, d⟩ := p
            rw [hl] at hv
            obtain ⟨idx', nh', hpv, hidx, hnh⟩ := hv
            simp only [hpv]
            exact ih _ _ (h.extend ⟨sid, l.text, vs, d⟩ idx' nh' hk hidx hnh)

end Vinegar.TextFile
