import Vinegar.Lemmas.TftpFlow
/-
What is delivered: the DATA packets of every model trace are a prefix of the ideal packet
sequence, and all of it when the data phase was not aborted.
-/
namespace Vinegar.Tftp
open Vinegar

theorem clientData_append (a b : List Obs) : clientData (a ++ b) = clientData a ++ clientData b := by
  induction a with
  | nil => rfl
  | cons o os ih =>
    cases o <;> simp only [List.cons_append, clientData, ih]
    split <;> simp

theorem clientData_awaitAck (expect limit : Nat) :
    ∀ (s : List Ev) (now : Nat), clientData (awaitAck expect limit now s).obs = [] := by
  intro s
  induction s with
  | nil => intro now; simp [awaitAck, clientData]
  | cons ev s ih =>
    intro now
    cases ev with
    | silence => simp [awaitAck, clientData]
    | pkt d cpu src data =>
      unfold awaitAck
      split
      · split
        · split
          · split
            · simp [clientData]
            · simp [clientData, ih]
          · simp [clientData]
          · simp [clientData]
        · rename_i hsrc
          simp [clientData, ih, hsrc]
      · simp [clientData]

/-- the DATA packets of a retry loop are copies of the one packet (none if it is not DATA) -/
theorem clientData_sendWithRetry (env : Env) (packet : Bytes) (expect : Nat) :
    ∀ (tries now : Nat) (s : List Ev),
      ∃ j, clientData (sendWithRetry env packet expect tries now s).obs =
          (if opcodeOf packet = some opDATA then List.replicate j packet else []) ∧
        (0 < tries → 0 < j) := by
  intro tries
  induction tries with
  | zero => intro now s; exact ⟨0, by simp [sendWithRetry, clientData], by omega⟩
  | succ k ih =>
    intro now s
    rw [sendWithRetry_succ]
    have hA := clientData_awaitAck expect (now + env.timeout) s now
    generalize awaitAck expect (now + env.timeout) now s = r at hA
    by_cases hop : opcodeOf packet = some opDATA
    · cases hout : r.out
      · exact ⟨1, by simp [clientData, hop, hA], by omega⟩
      · obtain ⟨j, hj, _⟩ := ih r.now r.rest
        refine ⟨j + 1, ?_, by omega⟩
        simp only [Res.pre_obs, List.cons_append, clientData, hop, clientData_append, hA, hj]
        simp [List.replicate_succ]
      · exact ⟨1, by simp [clientData, hop, hA], by omega⟩
      · exact ⟨1, by simp [clientData, hop, hA], by omega⟩
    · cases hout : r.out
      · exact ⟨1, by simp [clientData, hop, hA], by omega⟩
      · obtain ⟨j, hj, _⟩ := ih r.now r.rest
        refine ⟨j + 1, ?_, by omega⟩
        simp only [Res.pre_obs, List.cons_append, clientData, hop, clientData_append, hA, hj]
        simp
      · exact ⟨1, by simp [clientData, hop, hA], by omega⟩
      · exact ⟨1, by simp [clientData, hop, hA], by omega⟩

theorem dedupAdj_replicate_append (p : Bytes) (j : Nat) (L : List Bytes) (hj : 0 < j)
    (hL : ∀ x, L.head? = some x → x ≠ p) :
    dedupAdj (List.replicate j p ++ L) = p :: dedupAdj L := by
  induction j with
  | zero => omega
  | succ k ih =>
    cases k with
    | zero =>
      cases L with
      | nil => simp [dedupAdj]
      | cons y r =>
        have := hL y rfl
        simp [List.replicate, dedupAdj, Ne.symm this]
    | succ k' =>
      have := ih (by omega)
      simp only [List.replicate_succ, List.cons_append] at this ⊢
      simp only [dedupAdj, if_true]
      exact this

/-- the block loop: what it sends is an initial part of the ideal packet sequence — all of it
unless the loop was left early — and its first DATA packet carries the next block number -/
theorem sendData_data (env : Env) (hw : WrapOK env.wrap) :
    ∀ (bl : List Bytes) (prev now : Nat) (s : List Ev), prev ≤ Generated.MAX_BLOCK_NUMBER →
      ∃ m, dedupAdj (clientData (sendData env (bl.map some) prev now s).obs) =
            (idealPackets env.wrap prev bl).take m ∧
        (((sendData env (bl.map some) prev now s).out = .completed ∨
          (sendData env (bl.map some) prev now s).out = .overflow) →
            (idealPackets env.wrap prev bl).take m = idealPackets env.wrap prev bl) ∧
        (∀ x, (clientData (sendData env (bl.map some) prev now s).obs).head? = some x →
            ∃ n b, nextBlock env.wrap prev = some n ∧ x = dataPacket n b) ∧
        (sendData env (bl.map some) prev now s).out ≠ .readFault := by
  intro bl
  induction bl with
  | nil =>
    intro prev now s _
    exact ⟨0, by simp [sendData, clientData, dedupAdj, idealPackets], by simp [idealPackets],
      by simp [sendData, clientData], by simp [sendData]⟩
  | cons b bl ih =>
    intro prev now s hprev
    simp only [List.map_cons]
    unfold sendData
    cases hnext : nextBlock env.wrap prev with
    | none =>
      exact ⟨0, by simp [clientData, dedupAdj], by simp [idealPackets, hnext], by simp [clientData], by simp⟩
    | some n =>
      simp only
      obtain ⟨hnle, hnne⟩ := nextBlock_le env.wrap hw prev n hprev hnext
      have hn : n < 65536 := by have := maxBlockNumber_val; omega
      obtain ⟨j, hj, hjpos⟩ := clientData_sendWithRetry env (dataPacket n b) n (env.maxRetries + 1) now s
      simp only [opcodeOf_dataPacket, if_true] at hj
      have hj0 : 0 < j := hjpos (by omega)
      generalize sendWithRetry env (dataPacket n b) n (env.maxRetries + 1) now s = r at hj
      have hhead : ∀ x, (List.replicate j (dataPacket n b) ++ ([] : List Bytes)).head? = some x →
          ∃ n' b', (some n : Option Nat) = some n' ∧ x = dataPacket n' b' := by
        intro x hx
        cases j with
        | zero => omega
        | succ j' =>
          simp [List.replicate_succ] at hx
          exact ⟨n, b, rfl, hx.symm⟩
      cases hout : r.out with
      | acked =>
        simp only
        obtain ⟨m, h1, h2, h3, h4⟩ := ih n r.now r.rest hnle
        refine ⟨m + 1, ?_, ?_, ?_, by simpa using h4⟩
        · simp only [Res.pre_obs, clientData_append, hj]
          rw [dedupAdj_replicate_append _ _ _ hj0]
          · simp [idealPackets, hnext, h1]
          · intro x hx
            obtain ⟨n', b', hn', hx'⟩ := h3 x hx
            obtain ⟨hn'le, hn'ne⟩ := nextBlock_le env.wrap hw n n' hnle hn'
            subst hx'
            intro heq
            have hn'' : n' < 65536 := by have := maxBlockNumber_val; omega
            exact hn'ne (dataPacket_inj_number n' n b' b hn'' hn heq)
        · intro hc
          have := h2 (by simpa using hc)
          simp [idealPackets, hnext, this]
        · intro x hx
          simp only [Res.pre_obs, clientData_append, hj] at hx
          cases j with
          | zero => omega
          | succ j' =>
            simp [List.replicate_succ] at hx
            exact ⟨n, b, rfl, hx.symm⟩
      | gaveUp =>
        refine ⟨1, ?_, by simp, ?_, by simp⟩
        · simp only [hj]
          have := dedupAdj_replicate_append (dataPacket n b) j [] hj0 (by simp)
          simp only [List.append_nil] at this
          simp [this, idealPackets, hnext, dedupAdj]
        · intro x hx; simp only [hj] at hx; exact hhead x (by simpa using hx)
      | invalid =>
        refine ⟨1, ?_, by simp, ?_, by simp⟩
        · simp only [hj]
          have := dedupAdj_replicate_append (dataPacket n b) j [] hj0 (by simp)
          simp only [List.append_nil] at this
          simp [this, idealPackets, hnext, dedupAdj]
        · intro x hx; simp only [hj] at hx; exact hhead x (by simpa using hx)
      | peerError =>
        refine ⟨1, ?_, by simp, ?_, by simp⟩
        · simp only [hj]
          have := dedupAdj_replicate_append (dataPacket n b) j [] hj0 (by simp)
          simp only [List.append_nil] at this
          simp [this, idealPackets, hnext, dedupAdj]
        · intro x hx; simp only [hj] at hx; exact hhead x (by simpa using hx)

/-- a block loop that runs to completion never met the counter overflow: every block has its ideal
packet (`overflowEndsWithError` does not apply to completed transfers) -/
theorem sendData_completed_length (env : Env) :
    ∀ (bl : List Bytes) (prev now : Nat) (s : List Ev),
      (sendData env (bl.map some) prev now s).out = .completed →
        (idealPackets env.wrap prev bl).length = bl.length := by
  intro bl
  induction bl with
  | nil => intro prev now s _; simp [idealPackets]
  | cons b bl ih =>
    intro prev now s
    simp only [List.map_cons]
    unfold sendData
    cases hnext : nextBlock env.wrap prev with
    | none => simp
    | some n =>
      simp only
      generalize sendWithRetry env (dataPacket n b) n (env.maxRetries + 1) now s = r
      cases hout : r.out with
      | acked =>
        intro hc
        have := ih n r.now r.rest (by simpa using hc)
        simp [idealPackets, hnext, this]
      | gaveUp => simp
      | invalid => simp
      | peerError => simp

theorem processRequest_completed_length (env : Env) (oack : Opts) (bl : List Bytes) (script : List Ev)
    (hc : (processRequest env oack (bl.map some) 0 script).out = .completed) :
    (idealPackets env.wrap 0 bl).length = bl.length := by
  unfold processRequest at hc
  split at hc
  · exact sendData_completed_length env bl 0 0 script hc
  · generalize sendWithRetry env (oackPacket oack) 0 (env.maxRetries + 1) 0 script = r at hc
    cases hout : r.out with
    | acked =>
      simp only [hout] at hc
      exact sendData_completed_length env bl 0 r.now r.rest (by simpa using hc)
    | gaveUp => simp [hout] at hc
    | invalid => simp [hout] at hc
    | peerError => simp [hout] at hc

/-! ### the server's own ERROR packets (`serverErrorsJustified`) -/

/-- no packet other than DATA/OACK goes to the client -/
def noServerError (l : List Obs) : Bool := l.all (fun o => !isServerError o)

theorem noServerError_append (a b : List Obs) :
    noServerError (a ++ b) = (noServerError a && noServerError b) := by
  simp [noServerError, List.all_append]

theorem noServerError_nil : noServerError [] = true := rfl

theorem noServerError_cons (o : Obs) (l : List Obs) :
    noServerError (o :: l) = (!isServerError o && noServerError l) := by
  simp [noServerError]

theorem isServerError_send (t dst : Nat) (p : Bytes) :
    isServerError (.send t dst p) = (dst == 0 && !isFlow p) := rfl
theorem isServerError_recv (t d src : Nat) (p : Bytes) : isServerError (.recv t d src p) = false := rfl
theorem isServerError_timeout (t : Nat) : isServerError (.timeout t) = false := rfl

theorem noServerError_awaitAck (expect limit : Nat) :
    ∀ (s : List Ev) (now : Nat), noServerError (awaitAck expect limit now s).obs = true := by
  intro s
  induction s with
  | nil => intro now; simp [awaitAck, noServerError_cons, noServerError_nil, isServerError_timeout]
  | cons ev s ih =>
    intro now
    cases ev with
    | silence => simp [awaitAck, noServerError_cons, noServerError_nil, isServerError_timeout]
    | pkt d cpu src data =>
      unfold awaitAck
      split
      · split
        · split
          · split
            · simp [noServerError_cons, noServerError_nil, isServerError_recv]
            · simp [noServerError_cons, isServerError_recv, ih]
          · simp [noServerError_cons, noServerError_nil, isServerError_recv]
          · simp [noServerError_cons, noServerError_nil, isServerError_recv]
        · rename_i hsrc
          simp [noServerError_cons, isServerError_recv, isServerError_send, ih, hsrc]
      · simp [noServerError_cons, noServerError_nil, isServerError_timeout]

theorem noServerError_sendWithRetry (env : Env) (packet : Bytes) (expect : Nat) (hflow : isFlow packet = true) :
    ∀ (tries now : Nat) (s : List Ev), noServerError (sendWithRetry env packet expect tries now s).obs = true := by
  intro tries
  induction tries with
  | zero => intro now s; simp [sendWithRetry, noServerError_nil]
  | succ k ih =>
    intro now s
    rw [sendWithRetry_succ]
    have hA := noServerError_awaitAck expect (now + env.timeout) s now
    generalize awaitAck expect (now + env.timeout) now s = r at hA
    have hcons : noServerError (Obs.send now 0 packet :: r.obs) = true := by
      simp [noServerError_cons, isServerError_send, hflow, hA]
    cases hout : r.out
    · exact hcons
    · simp only [Res.pre_obs, noServerError_append, hcons, ih r.now r.rest, Bool.and_self]
    · exact hcons
    · exact hcons

theorem noServerError_sendData (env : Env) :
    ∀ (blocks : List (Option Bytes)) (prev now : Nat) (s : List Ev),
      noServerError (sendData env blocks prev now s).obs = true := by
  intro blocks
  induction blocks with
  | nil => intro prev now s; simp [sendData, noServerError_nil]
  | cons blk blocks ih =>
    intro prev now s
    cases blk with
    | none => simp [sendData, noServerError_nil]
    | some b =>
      unfold sendData
      split
      · simp [noServerError_nil]
      · rename_i n _
        simp only
        have hS := noServerError_sendWithRetry env (dataPacket n b) n (isFlow_dataPacket n b)
          (env.maxRetries + 1) now s
        generalize sendWithRetry env (dataPacket n b) n (env.maxRetries + 1) now s = r at hS
        cases hout : r.out
        · simp only [Res.pre_obs, noServerError_append, hS, ih n r.now r.rest, Bool.and_self]
        · exact hS
        · exact hS
        · exact hS

theorem noServerError_processRequest (env : Env) (oack : Opts) (blocks : List (Option Bytes)) (now : Nat)
    (s : List Ev) : noServerError (processRequest env oack blocks now s).obs = true := by
  unfold processRequest
  split
  · exact noServerError_sendData env blocks 0 now s
  · have hS := noServerError_sendWithRetry env (oackPacket oack) 0 (isFlow_oackPacket oack)
      (env.maxRetries + 1) now s
    generalize sendWithRetry env (oackPacket oack) 0 (env.maxRetries + 1) now s = r at hS
    cases hout : r.out <;> simp only [hout]
    · simp only [Res.pre_obs, noServerError_append, hS, noServerError_sendData env blocks 0 r.now r.rest,
        Bool.and_self]
    · exact hS
    · exact hS
    · exact hS

/-- over a stretch of the trace without a server ERROR the check only advances its state: the C02
automaton and the DATA packets sent so far -/
theorem errorsJustifiedFrom_append (T R : Nat) (ideal : List Bytes) (b : List Obs) :
    ∀ (a : List Obs) (ph ph' : Phase) (sentRev : List Bytes), noServerError a = true →
      runSteps (c02Step T R) ph a = some ph' →
      errorsJustifiedFrom T R ideal ph sentRev (a ++ b) =
        errorsJustifiedFrom T R ideal ph' ((clientData a).reverse ++ sentRev) b := by
  intro a
  induction a with
  | nil =>
    intro ph ph' sentRev _ hrun
    simp only [runSteps, Option.some.injEq] at hrun
    subst hrun
    simp [clientData]
  | cons o os ih =>
    intro ph ph' sentRev hq hrun
    simp only [noServerError_cons, Bool.and_eq_true, Bool.not_eq_true'] at hq
    simp only [runSteps] at hrun
    cases hstep : c02Step T R ph o with
    | none => simp [hstep] at hrun
    | some ph1 =>
      simp only [hstep] at hrun
      have hcd : clientData (o :: os) = clientData [o] ++ clientData os := clientData_append [o] os
      simp only [List.cons_append, errorsJustifiedFrom, hq.1, Bool.not_false, Bool.true_or, Bool.true_and, hstep]
      rw [ih ph1 ph' _ hq.2 hrun, hcd, List.reverse_append, List.append_assoc]

end Vinegar.Tftp
