import Vinegar.Model.Reader
/-
Helper lemmas about the reader model. Property theorems are in `Theorems/`.
-/
namespace Vinegar

theorem refSkip_false (r : Bytes) : refSkip false r = netasciiRef r := by
  unfold refSkip; cases r <;> simp

theorem refSkip_nil (l : Bool) : refSkip l [] = [] := by
  cases l <;> simp [refSkip, netasciiRef]

theorem ref_cons_ne (c : UInt8) (t : Bytes) (h1 : c ≠ CR) (h2 : c ≠ LF) :
    netasciiRef (c :: t) = c :: netasciiRef t := by
  cases t <;> simp [netasciiRef, h1, h2]

theorem ref_cons_lf (t : Bytes) : netasciiRef (LF :: t) = CR :: LF :: netasciiRef t := by
  cases t <;> simp [netasciiRef, show LF ≠ CR by decide]

theorem ref_cr_lf (t : Bytes) : netasciiRef (CR :: LF :: t) = CR :: LF :: netasciiRef t := by
  simp [netasciiRef]

theorem ref_cr_ne (d : UInt8) (t : Bytes) (h : d ≠ LF) :
    netasciiRef (CR :: d :: t) = CR :: LF :: netasciiRef (d :: t) := by
  simp [netasciiRef, h]

theorem convBody_ref : ∀ (c rest : Bytes),
    netasciiRef (c ++ rest) = (convBody c).1 ++ refSkip (convBody c).2 rest
  | [], rest => by simp [convBody, refSkip_false]
  | [c], rest => by
    by_cases hc : c = CR
    · subst hc
      cases rest with
      | nil => simp [convBody, netasciiRef, refSkip]
      | cons d r => by_cases hd : d = LF <;> simp [convBody, netasciiRef, refSkip, hd]
    · by_cases hl : c = LF
      · subst hl; simp [convBody, hc, refSkip_false, ref_cons_lf]
      · simp [convBody, hc, hl, refSkip_false, ref_cons_ne]
  | c :: d :: t, rest => by
    have ih1 := convBody_ref t rest
    have ih2 := convBody_ref (d :: t) rest
    by_cases hc : c = CR
    · subst hc
      by_cases hd : d = LF
      · subst hd; simp only [List.cons_append, ref_cr_lf, convBody, if_true]; simp [ih1]
      · simp only [List.cons_append, ref_cr_ne _ _ hd, convBody, if_true, hd, if_false]
        simpa using ih2
    · by_cases hl : c = LF
      · subst hl
        simp only [List.cons_append, ref_cons_lf, convBody, hc, if_false, if_true]
        simpa using ih2
      · simp only [List.cons_append, ref_cons_ne _ _ hc hl, convBody, hc, hl, if_false]
        simpa using ih2

theorem convChunk_ref (l : Bool) (c rest : Bytes) (hne : c ≠ []) :
    refSkip l (c ++ rest) = (convChunk l c).1 ++ refSkip (convChunk l c).2 rest := by
  cases l with
  | false => simp only [refSkip_false]; unfold convChunk; exact convBody_ref c rest
  | true =>
    cases c with
    | nil => exact absurd rfl hne
    | cons d t =>
      by_cases hd : d = LF
      · simp [refSkip, convChunk, hd, convBody_ref]
      · simp only [refSkip, convChunk, hd, List.cons_append, if_false]
        exact convBody_ref (d :: t) rest

/-- what the not yet read part of the stream will still contribute -/
def tailOut (na : Bool) (l : Bool) (rest : Bytes) : Bytes :=
  if na then refSkip l rest else rest

/-- bytes the client has still to receive: buffered output plus `tailOut` -/
def remaining (na : Bool) (st : RState) : Bytes :=
  st.buf ++ tailOut na st.lastCR st.rest

theorem conv_tailOut (na l : Bool) (c rest : Bytes) (hne : c ≠ []) :
    tailOut na l (c ++ rest) = (conv na l c).1 ++ tailOut na (conv na l c).2 rest := by
  cases na with
  | false => simp [tailOut, conv]
  | true => simp only [tailOut, conv, if_true]; exact convChunk_ref l c rest hne

theorem readLen_pos (want : Nat) (caps : List Nat) (h : 0 < want) : 0 < readLen want caps := by
  unfold readLen; split <;> omega

theorem fill_remaining (na : Bool) (size : Nat) :
    ∀ (f : Nat) (st : RState), remaining na (fill na size f st) = remaining na st := by
  intro f
  induction f with
  | zero => intro st; rfl
  | succ f ih =>
    intro st
    unfold fill
    split
    · rfl
    · split
      · simp [remaining]
      · rename_i hsz hne
        rw [ih]
        generalize readLen (size - st.buf.length) st.caps = n at hne ⊢
        simp only [remaining, absorb]
        have hne' : st.rest.take n ≠ [] := by
          intro h; simp [h] at hne
        have := conv_tailOut na st.lastCR (st.rest.take n) (st.rest.drop n) hne'
        rw [List.take_append_drop] at this
        rw [this, List.append_assoc]

theorem convBody_length_pos : ∀ (c : Bytes), c ≠ [] → 0 < (convBody c).1.length
  | [], h => absurd rfl h
  | [c], _ => by unfold convBody; split <;> (try split) <;> simp
  | c :: d :: t, _ => by
    unfold convBody
    split
    · split <;> simp
    · split <;> simp

/-- a non-empty read makes progress: it yields output, or it was just the LF after a read-final CR -/
theorem conv_progress (na l : Bool) (c : Bytes) (hne : c ≠ []) :
    0 < (conv na l c).1.length ∨ (l = true ∧ (conv na l c).2 = false ∧ (conv na l c).1 = []) := by
  cases na with
  | false => left; simp [conv]; exact List.length_pos_iff.mpr hne
  | true =>
    simp only [conv, if_true]
    cases l with
    | false => left; unfold convChunk; exact convBody_length_pos c hne
    | true =>
      cases c with
      | nil => exact absurd rfl hne
      | cons d t =>
        by_cases hd : d = LF
        · cases t with
          | nil => right; simp [convChunk, hd, convBody]
          | cons e t' => left; simp only [convChunk, hd, if_true]; exact convBody_length_pos _ (by simp)
        · left; simp only [convChunk, hd, if_false]; exact convBody_length_pos _ (by simp)

/-- loop measure of `fill` -/
def fillMeasure (size : Nat) (st : RState) : Nat :=
  2 * (size - st.buf.length) + (if st.lastCR then 1 else 0)

theorem measure_step (size bl : Nat) (l0 l' : Bool) (k f : Nat) (hsz : ¬ size ≤ bl)
    (hf : 2 * (size - bl) + (if l0 = true then 1 else 0) < f + 1)
    (hp : 0 < k ∨ (l0 = true ∧ l' = false ∧ k = 0)) :
    2 * (size - (bl + k)) + (if l' = true then 1 else 0) < f := by
  have hb1 : (if l' = true then 1 else 0) ≤ 1 := by split <;> omega
  have hb0 : (if l0 = true then 1 else 0) ≤ 1 := by split <;> omega
  rcases hp with hp | ⟨h1, h2, h3⟩
  · omega
  · subst h1 h2 h3
    simp at hf ⊢
    omega

theorem fill_done (na : Bool) (size : Nat) :
    ∀ (f : Nat) (st : RState), fillMeasure size st < f →
      size ≤ (fill na size f st).buf.length ∨ (fill na size f st).rest = [] := by
  intro f
  induction f with
  | zero => intro st h; omega
  | succ f ih =>
    intro st hf
    unfold fill
    split
    · left; assumption
    · rename_i hsz
      have hnpos := readLen_pos (size - st.buf.length) st.caps (by omega)
      generalize readLen (size - st.buf.length) st.caps = n at hnpos ⊢
      split
      · rename_i hemp
        right
        have : st.rest.take n = [] := by simpa using hemp
        rw [List.take_eq_nil_iff] at this
        rcases this with h | h
        · omega
        · simpa using h
      · rename_i hne
        apply ih
        have hne' : st.rest.take n ≠ [] := by
          intro h; simp [h] at hne
        have hp := conv_progress na st.lastCR (st.rest.take n) hne'
        simp only [fillMeasure, absorb, List.length_append] at hf ⊢
        apply measure_step size st.buf.length st.lastCR _ _ f hsz hf
        rcases hp with hp | ⟨h1, h2, h3⟩
        · left; exact hp
        · right; exact ⟨h1, h2, by rw [h3]; rfl⟩

theorem tailOut_nil (na l : Bool) : tailOut na l [] = [] := by
  cases na <;> simp [tailOut, refSkip_nil]

theorem readBlock_spec (na : Bool) (size : Nat) (st : RState) :
    (readBlock na size st).1 = (remaining na st).take size ∧
    remaining na (readBlock na size st).2 = (remaining na st).drop size := by
  have hrem := fill_remaining na size (2 * size + 2) st
  have hdone := fill_done na size (2 * size + 2) st (by unfold fillMeasure; split <;> omega)
  simp only [readBlock]
  generalize fill na size (2 * size + 2) st = st' at hrem hdone ⊢
  rw [← hrem]
  simp only [remaining]
  rcases hdone with h | h
  · constructor
    · rw [List.take_append_of_le_length h]
    · rw [List.drop_append_of_le_length h]
  · simp [h, tailOut_nil]

theorem allBlocks_eq_split (na : Bool) (size : Nat) :
    ∀ (f : Nat) (st : RState), allBlocks na size f st = splitBlocks size f (remaining na st) := by
  intro f
  induction f with
  | zero => intro st; rfl
  | succ f ih =>
    intro st
    obtain ⟨h1, h2⟩ := readBlock_spec na size st
    simp only [allBlocks, splitBlocks]
    rw [h1, ih, h2]

theorem splitBlocks_flatten (size : Nat) (hs : 0 < size) :
    ∀ (f : Nat) (out : Bytes), out.length < f → (splitBlocks size f out).flatten = out := by
  intro f
  induction f with
  | zero => intro out h; omega
  | succ f ih =>
    intro out hf
    unfold splitBlocks
    split
    · rename_i hlen
      simp only [List.flatten_cons]
      rw [ih]
      · exact List.take_append_drop size out
      · simp only [List.length_take] at hlen
        simp only [List.length_drop]; omega
    · rename_i hlen
      simp only [List.length_take] at hlen
      simp only [List.flatten_cons, List.flatten_nil, List.append_nil]
      apply List.take_of_length_le; omega

theorem splitBlocks_framing (size : Nat) (hs : 0 < size) :
    ∀ (f : Nat) (out : Bytes), out.length < f → framingOK size (splitBlocks size f out) = true := by
  intro f
  induction f with
  | zero => intro out h; omega
  | succ f ih =>
    intro out hf
    unfold splitBlocks
    split
    · rename_i hlen
      have hrec : framingOK size (splitBlocks size f (out.drop size)) = true := by
        apply ih
        simp only [List.length_take] at hlen
        simp only [List.length_drop]; omega
      generalize splitBlocks size f (out.drop size) = bl at hrec
      cases bl with
      | nil => simp [framingOK] at hrec
      | cons b bs => simp only [framingOK, hlen, beq_self_eq_true, Bool.true_and]; exact hrec
    · rename_i hlen
      simp only [List.length_take] at hlen
      simp only [framingOK, List.length_take, decide_eq_true_eq]
      omega

theorem netasciiRef_length_le : ∀ (c : Bytes), (netasciiRef c).length ≤ 2 * c.length
  | [] => by simp [netasciiRef]
  | [c] => by
    unfold netasciiRef; split <;> (try split) <;> simp
  | c :: d :: t => by
    have h1 := netasciiRef_length_le t
    have h2 := netasciiRef_length_le (d :: t)
    unfold netasciiRef
    simp only [List.length_cons] at *
    split
    · split <;> simp only [List.length_cons] <;> omega
    · split <;> simp only [List.length_cons] <;> omega

theorem expectedOutput_length_le (na : Bool) (c : Bytes) :
    (expectedOutput na c).length ≤ 2 * c.length := by
  unfold expectedOutput
  split
  · exact netasciiRef_length_le c
  · omega

theorem remaining_init (na : Bool) (content : Bytes) (caps : List Nat) :
    remaining na (RState.init content caps) = expectedOutput na content := by
  cases na <;> simp [remaining, RState.init, tailOut, expectedOutput, refSkip_false]

end Vinegar
