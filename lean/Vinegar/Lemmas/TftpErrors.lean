import Vinegar.Lemmas.TftpNet
/-
Error behaviour of the transfer model (C09): what is sent after a client ERROR, after an
invalid packet, and to foreign peers.
-/
namespace Vinegar.Tftp
open Vinegar

theorem wellFormedError_errorPacket (c : Nat) : wellFormedError (errorPacket c []) = true := by
  simp only [errorPacket, be16, List.append_nil, List.cons_append, List.nil_append, wellFormedError]
  rw [unbe16_be16 opERROR (by decide)]
  simp

theorem errorCodeOf_errorPacket (c : Nat) (h : c < 65536) : errorCodeOf (errorPacket c []) = some c := by
  simp only [errorPacket, be16, List.append_nil, List.cons_append, List.nil_append, errorCodeOf]
  rw [unbe16_be16 opERROR (by decide), unbe16_be16 c h]
  simp

theorem c09_err5 (al : Bool) (s : C09State) (t src : Nat) (h : src ≠ 0) :
    c09Step al s (.send t src err5) = some s := by
  have h1 : wellFormedError err5 = true := wellFormedError_errorPacket _
  have h2 : errorCodeOf err5 = some Generated.ERROR_UNKNOWN_TRANSFER_ID := errorCodeOf_errorPacket _ (by decide)
  simp [c09Step, h, h1, h2]

def st0 : C09State := ⟨false, false⟩

def Await.isPeer : Await → Bool | .peerError => true | _ => false
def Outcome.isPeer : Outcome → Bool | .peerError => true | _ => false
def End.isPeer : End → Bool | .peerError => true | _ => false
def Await.isInvalid : Await → Bool | .invalid => true | _ => false
def Outcome.isInvalid : Outcome → Bool | .invalid => true | _ => false
def End.isInvalid : End → Bool | .invalid => true | _ => false

theorem awaitAck_c09 (al : Bool) (expect limit : Nat) :
    ∀ (s : List Ev) (now : Nat),
      runSteps (c09Step al) st0 (awaitAck expect limit now s).obs =
        some ⟨false, (awaitAck expect limit now s).out.isPeer⟩ := by
  intro s
  induction s with
  | nil => intro now; simp [awaitAck, runSteps, c09Step, st0, Await.isPeer]
  | cons ev s ih =>
    intro now
    cases ev with
    | silence => simp [awaitAck, runSteps, c09Step, st0, Await.isPeer]
    | pkt d cpu src data =>
      unfold awaitAck
      split
      · split
        · rename_i hsrc
          subst hsrc
          split
          · rename_i n hcl
            split
            · simp [runSteps, c09Step, st0, hcl, Await.isPeer]
            · simp only [Res.pre_obs, Res.pre_out, List.cons_append, List.nil_append, runSteps, c09Step, if_true, hcl]
              exact ih _
          · rename_i hcl; simp [runSteps, c09Step, st0, hcl, Await.isPeer]
          · rename_i hcl; simp [runSteps, c09Step, st0, hcl, Await.isPeer]
        · rename_i hsrc
          simp only [Res.pre_obs, Res.pre_out, List.cons_append, List.nil_append, runSteps, c09Step, hsrc, if_false]
          have h5 := c09_err5 al st0 (now + d + cpu) src hsrc
          simp only [c09Step, hsrc, if_false] at h5
          rw [h5]
          exact ih _
      · simp [runSteps, c09Step, st0, Await.isPeer]

theorem c09_flow_send (al : Bool) (t : Nat) (p : Bytes) (h : opcodeOf p ≠ some opERROR) :
    c09Step al st0 (.send t 0 p) = some st0 := by
  simp [c09Step, st0, h]

theorem sendWithRetry_c09 (al : Bool) (env : Env) (packet : Bytes) (expect : Nat)
    (hp : opcodeOf packet ≠ some opERROR) :
    ∀ (tries now : Nat) (s : List Ev),
      runSteps (c09Step al) st0 (sendWithRetry env packet expect tries now s).obs =
        some ⟨false, (sendWithRetry env packet expect tries now s).out.isPeer⟩ := by
  intro tries
  induction tries with
  | zero => intro now s; simp [sendWithRetry, runSteps, st0, Outcome.isPeer]
  | succ k ih =>
    intro now s
    rw [sendWithRetry_succ]
    have hA := awaitAck_c09 al expect (now + env.timeout) s now
    generalize awaitAck expect (now + env.timeout) now s = r at hA
    cases hout : r.out <;> simp only [hout] at hA ⊢
    · simp [runSteps, c09_flow_send al now packet hp, hA, Await.isPeer, Outcome.isPeer]
    · simp only [Res.pre_obs, Res.pre_out, List.cons_append, runSteps, c09_flow_send al now packet hp,
        runSteps_append, hA, Option.bind_some]
      exact ih _ _
    · simp [runSteps, c09_flow_send al now packet hp, hA, Await.isPeer, Outcome.isPeer]
    · simp [runSteps, c09_flow_send al now packet hp, hA, Await.isPeer, Outcome.isPeer]

theorem opcode_data_ne_error (n : Nat) (b : Bytes) : opcodeOf (dataPacket n b) ≠ some opERROR := by
  rw [opcodeOf_dataPacket]; simp [opDATA_val, opERROR_val]

theorem opcode_oack_ne_error (o : Opts) : opcodeOf (oackPacket o) ≠ some opERROR := by
  rw [opcodeOf_oackPacket]; simp [opOACK_val, opERROR_val]

theorem sendData_c09 (al : Bool) (env : Env) :
    ∀ (blocks : List (Option Bytes)) (prev now : Nat) (s : List Ev),
      runSteps (c09Step al) st0 (sendData env blocks prev now s).obs =
        some ⟨false, (sendData env blocks prev now s).out.isPeer⟩ := by
  intro blocks
  induction blocks with
  | nil => intro prev now s; simp [sendData, runSteps, st0, End.isPeer]
  | cons blk blocks ih =>
    intro prev now s
    cases blk with
    | none => simp [sendData, runSteps, st0, End.isPeer]
    | some b =>
      unfold sendData
      split
      · simp [runSteps, st0, End.isPeer]
      · rename_i n _
        simp only
        have hS := sendWithRetry_c09 al env (dataPacket n b) n (opcode_data_ne_error n b) (env.maxRetries + 1) now s
        generalize sendWithRetry env (dataPacket n b) n (env.maxRetries + 1) now s = r at hS
        cases hout : r.out <;> simp only [hout] at hS ⊢
        · simp only [Res.pre_obs, Res.pre_out, runSteps_append, hS, Option.bind_some]
          exact ih _ _ _
        · simpa [Outcome.isPeer, End.isPeer] using hS
        · simpa [Outcome.isPeer, End.isPeer] using hS
        · simpa [Outcome.isPeer, End.isPeer] using hS

theorem processRequest_c09 (al : Bool) (env : Env) (oack : Opts) (blocks : List (Option Bytes)) (now : Nat)
    (s : List Ev) :
    runSteps (c09Step al) st0 (processRequest env oack blocks now s).obs =
      some ⟨false, (processRequest env oack blocks now s).out.isPeer⟩ := by
  unfold processRequest
  split
  · exact sendData_c09 al env blocks 0 now s
  · have hS := sendWithRetry_c09 al env (oackPacket oack) 0 (opcode_oack_ne_error oack) (env.maxRetries + 1) now s
    generalize sendWithRetry env (oackPacket oack) 0 (env.maxRetries + 1) now s = r at hS
    cases hout : r.out <;> simp only [hout] at hS ⊢
    · simp only [Res.pre_obs, Res.pre_out, runSteps_append, hS, Option.bind_some]
      exact sendData_c09 al env blocks 0 _ _
    · simpa [Outcome.isPeer, End.isPeer] using hS
    · simpa [Outcome.isPeer, End.isPeer] using hS
    · simpa [Outcome.isPeer, End.isPeer] using hS

/-! ### an invalid packet is answered by exactly one ERROR and ends the transfer -/

def isClientInvalid : Obs → Bool
  | .recv _ _ src data => src == 0 && classify data == .invalid
  | _ => false

/-- no invalid packet from the client -/
def clean (l : List Obs) : Bool := l.all (fun o => !isClientInvalid o)

/-- shape of the events of a phase: either no invalid client packet, or it ends with one, handled until `now` -/
def InvShape (obs : List Obs) (isInvalid : Bool) (now : Nat) : Prop :=
  if isInvalid then ∃ pre t data, obs = pre ++ [Obs.recv t now 0 data] ∧ classify data = .invalid ∧ clean pre = true
  else clean obs = true

theorem clean_append (a b : List Obs) : clean (a ++ b) = (clean a && clean b) := by
  simp [clean, List.all_append]

theorem InvShape_pre (os obs : List Obs) (b : Bool) (now : Nat) (hos : clean os = true)
    (h : InvShape obs b now) : InvShape (os ++ obs) b now := by
  unfold InvShape at *
  cases b with
  | false => simp only [Bool.false_eq_true, if_false] at h ⊢; simp [clean_append, hos, h]
  | true =>
    simp only [if_true] at h ⊢
    obtain ⟨pre, t, data, h1, h2, h3⟩ := h
    exact ⟨os ++ pre, t, data, by simp [h1], h2, by simp [clean_append, hos, h3]⟩

theorem awaitAck_inv (expect limit : Nat) :
    ∀ (s : List Ev) (now : Nat),
      InvShape (awaitAck expect limit now s).obs (awaitAck expect limit now s).out.isInvalid
        (awaitAck expect limit now s).now := by
  intro s
  induction s with
  | nil => intro now; simp [awaitAck, InvShape, clean, isClientInvalid, Await.isInvalid]
  | cons ev s ih =>
    intro now
    cases ev with
    | silence => simp [awaitAck, InvShape, clean, isClientInvalid, Await.isInvalid]
    | pkt d cpu src data =>
      unfold awaitAck
      split
      · split
        · rename_i hsrc
          subst hsrc
          split
          · rename_i n hcl
            split
            · simp [InvShape, clean, isClientInvalid, hcl, Await.isInvalid]
            · simp only [Res.pre_obs, Res.pre_out, Res.pre_now]
              exact InvShape_pre _ _ _ _ (by simp [clean, isClientInvalid, hcl]) (ih _)
          · rename_i hcl
            simp only [InvShape, Await.isInvalid, if_true]
            exact ⟨[], _, _, rfl, hcl, rfl⟩
          · rename_i hcl; simp [InvShape, clean, isClientInvalid, hcl, Await.isInvalid]
        · rename_i hsrc
          simp only [Res.pre_obs, Res.pre_out, Res.pre_now]
          exact InvShape_pre _ _ _ _ (by simp [clean, isClientInvalid, hsrc]) (ih _)
      · simp [InvShape, clean, isClientInvalid, Await.isInvalid]

theorem sendWithRetry_inv (env : Env) (packet : Bytes) (expect : Nat) :
    ∀ (tries now : Nat) (s : List Ev),
      InvShape (sendWithRetry env packet expect tries now s).obs
        (sendWithRetry env packet expect tries now s).out.isInvalid
        (sendWithRetry env packet expect tries now s).now := by
  intro tries
  induction tries with
  | zero => intro now s; simp [sendWithRetry, InvShape, clean, Outcome.isInvalid]
  | succ k ih =>
    intro now s
    rw [sendWithRetry_succ]
    have hA := awaitAck_inv expect (now + env.timeout) s now
    generalize awaitAck expect (now + env.timeout) now s = r at hA
    have hsend : clean [Obs.send now 0 packet] = true := by simp [clean, isClientInvalid]
    cases hout : r.out <;> simp only [hout] at hA ⊢
    · exact InvShape_pre [_] _ _ _ hsend (by simpa [Await.isInvalid, Outcome.isInvalid] using hA)
    · simp only [Res.pre_obs, Res.pre_out, Res.pre_now]
      have hA' : clean r.obs = true := by simpa [InvShape, Await.isInvalid] using hA
      have := InvShape_pre (Obs.send now 0 packet :: r.obs) _ _ _
        (by simpa [clean, isClientInvalid] using hA') (ih r.now r.rest)
      simpa using this
    · exact InvShape_pre [_] _ _ _ hsend (by simpa [Await.isInvalid, Outcome.isInvalid] using hA)
    · exact InvShape_pre [_] _ _ _ hsend (by simpa [Await.isInvalid, Outcome.isInvalid] using hA)

theorem sendData_inv (env : Env) :
    ∀ (blocks : List (Option Bytes)) (prev now : Nat) (s : List Ev),
      InvShape (sendData env blocks prev now s).obs (sendData env blocks prev now s).out.isInvalid
        (sendData env blocks prev now s).now := by
  intro blocks
  induction blocks with
  | nil => intro prev now s; simp [sendData, InvShape, clean, End.isInvalid]
  | cons blk blocks ih =>
    intro prev now s
    cases blk with
    | none => simp [sendData, InvShape, clean, End.isInvalid]
    | some b =>
      unfold sendData
      split
      · simp [InvShape, clean, End.isInvalid]
      · rename_i n _
        simp only
        have hS := sendWithRetry_inv env (dataPacket n b) n (env.maxRetries + 1) now s
        generalize sendWithRetry env (dataPacket n b) n (env.maxRetries + 1) now s = r at hS
        cases hout : r.out <;> simp only [hout] at hS ⊢
        · simp only [Res.pre_obs, Res.pre_out, Res.pre_now]
          exact InvShape_pre _ _ _ _ (by simpa [InvShape, Outcome.isInvalid] using hS) (ih _ _ _)
        · simpa [Outcome.isInvalid, End.isInvalid] using hS
        · simpa [Outcome.isInvalid, End.isInvalid] using hS
        · simpa [Outcome.isInvalid, End.isInvalid] using hS

theorem processRequest_inv (env : Env) (oack : Opts) (blocks : List (Option Bytes)) (now : Nat) (s : List Ev) :
    InvShape (processRequest env oack blocks now s).obs (processRequest env oack blocks now s).out.isInvalid
      (processRequest env oack blocks now s).now := by
  unfold processRequest
  split
  · exact sendData_inv env blocks 0 now s
  · have hS := sendWithRetry_inv env (oackPacket oack) 0 (env.maxRetries + 1) now s
    generalize sendWithRetry env (oackPacket oack) 0 (env.maxRetries + 1) now s = r at hS
    cases hout : r.out <;> simp only [hout] at hS ⊢
    · simp only [Res.pre_obs, Res.pre_out, Res.pre_now]
      exact InvShape_pre _ _ _ _ (by simpa [InvShape, Outcome.isInvalid] using hS) (sendData_inv env blocks 0 _ _)
    · simpa [Outcome.isInvalid, End.isInvalid] using hS
    · simpa [Outcome.isInvalid, End.isInvalid] using hS
    · simpa [Outcome.isInvalid, End.isInvalid] using hS

theorem invalidAnswered_clean (pre tail : List Obs) (h : clean pre = true) :
    invalidAnswered (pre ++ tail) = invalidAnswered tail := by
  induction pre with
  | nil => rfl
  | cons o os ih =>
    simp only [clean, List.all_cons, Bool.and_eq_true] at h
    have ih' := ih (by simpa [clean] using h.2)
    cases o with
    | recv t done src data =>
      simp only [List.cons_append, invalidAnswered]
      have : ¬ (src = 0 ∧ classify data = .invalid) := by
        intro hc
        simp [isClientInvalid, hc.1, hc.2] at h
      simp [this, ih']
    | send _ _ _ => simpa [invalidAnswered] using ih'
    | timeout _ => simpa [invalidAnswered] using ih'
    | closeSocket => simpa [invalidAnswered] using ih'
    | closeFile => simpa [invalidAnswered] using ih'
    | logException => simpa [invalidAnswered] using ih'

end Vinegar.Tftp
