import Vinegar.Lemmas.MatcherPrint
/-
Helper lemmas for C18, part 4: error propagation through the grammar levels (for the `reject_*`
theorems) and the validity invariant of the expression cache.
-/
namespace Vinegar.Matcher

/-- every cached entry is the result of compiling its key -/
def CacheValid (atomOk : Atom → Bool) (c : Cache) : Prop :=
  ∀ p ∈ c.entries, compile atomOk p.1 = .ok p.2

theorem lookup_mem {l : List (Str × Expr)} {s : Str} {e : Expr} (h : l.lookup s = some e) : (s, e) ∈ l := by
  induction l with
  | nil => simp at h
  | cons x t ih =>
    obtain ⟨k, v⟩ := x
    by_cases hk : s = k
    · subst hk; simp [List.lookup] at h; simp [h]
    · have : (s == k) = false := by simpa using hk
      simp [List.lookup, this] at h
      exact List.mem_cons_of_mem _ (ih h)

theorem cacheValid_empty (atomOk : Atom → Bool) : CacheValid atomOk Cache.empty := by
  intro p hp; simp [Cache.empty] at hp

theorem obsOk_matchObs {σ : Type} (atomOk : Atom → Bool) (am : Atom → σ → Bool) (s : Str) (sys : σ) :
    obsOk (compile atomOk s) am sys (matchObs atomOk am s sys) = true := by
  unfold obsOk matchObs
  cases compile atomOk s <;> simp

theorem checkSystems_map {σ : Type} (atomOk : Atom → Bool) (am : Atom → σ → Bool) (s : Str) (systems : List σ) :
    checkSystems (compile atomOk s) am systems (systems.map (fun sys => matchObs atomOk am s sys)) = true := by
  unfold checkSystems
  simp only [List.length_map, beq_self_eq_true, Bool.true_and]
  induction systems with
  | nil => rfl
  | cons x t ih => simp [obsOk_matchObs, ih]

theorem parse_of_unary_error (s : Str) (e : ParseError) (hs : NoSpaceHead s)
    (h : unary (s.length + 1) ⟨none, s⟩ = .error e) : parse s = .error e := by
  unfold parse orLevel andLevel generic
  simp only [skipWs_nospace none s hs, h]

theorem unaryRest_simple_error (self : St → Res) (p : Option Char) (d : Char) (r : Str) (e : ParseError)
    (hd : d ≠ 'a' ∧ d ≠ 'n' ∧ d ≠ 'o') (h : simple (d :: r) = .error e) :
    unaryRest self ⟨p, d :: r⟩ = .error e := by
  unfold unaryRest peekKeyword
  simp only [findKeyword_none_of_head d r hd]
  unfold simpleExpr
  simp only [h]

theorem simple_unqualified_error (d : Char) (r : Str) (e : ParseError) (hd : d ≠ '@')
    (h : expectPattern (d :: r) = .error e) : simple (d :: r) = .error e := by
  rw [simple, acceptPrefix_data_ne_at d r hd, acceptPrefix_id_ne_at d r hd, unsupportedStart_eq]
  simp only [dropPrefix?, Ne.symm hd, if_false, h]

theorem unary_nil (m : Nat) (p : Option Char) : unary (m + 1) ⟨p, []⟩ = .error .emptyPattern := by
  rw [unary]
  simp only [unaryRest, peekKeyword, findKeyword]
  have : keywords.find? (fun kw => keywordAt kw []) = none := by rw [keywords_eq]; decide
  simp only [this, simpleExpr, simple]
  rw [dataTable_eq, idTable_eq, unsupportedStart_eq]
  simp [acceptPrefix, dropPrefix?, expectPattern]

theorem quoted_escape_error (q : Char) (_hq : q ≠ '\\') (t tail : Str) (e : ParseError)
    (h : quoted q tail = .error e) : quoted q (escape q t ++ tail) = .error e := by
  induction t with
  | nil => simpa [escape] using h
  | cons c cs ih =>
    by_cases hc : c = q ∨ c = '\\'
    · have : quoted q ('\\' :: c :: (escape q cs ++ tail)) = .error e := by
        rw [quoted_esc q c hc, ih]; rfl
      simpa [escape, hc] using this
    · have h1 : c ≠ q := fun e' => hc (Or.inl e')
      have h2 : c ≠ '\\' := fun e' => hc (Or.inr e')
      have : quoted q (c :: (escape q cs ++ tail)) = .error e := by
        rw [quoted_plain q c h2 h1, ih]; rfl
      simpa [escape, hc] using this

theorem parse_quoted_error (q : Quote) (body : Str) (e : ParseError) (h : quoted q.char body = .error e) :
    parse (q.char :: body) = .error e := by
  apply parse_of_unary_error _ _ (noSpaceHead_cons q.char body (by cases q <;> decide))
  show unary (body.length + 1 + 1) ⟨none, q.char :: body⟩ = _
  rw [unary_succ_nonparen _ none q.char body (by cases q <;> decide)]
  apply unaryRest_simple_error _ _ _ _ _ (by cases q <;> decide)
  apply simple_unqualified_error q.char body e (by cases q <;> decide)
  rw [expectPattern.eq_def]
  simp only [isQuote_char, if_true, h]

theorem stop_not_quote (d : Char) (h : isStopPattern d = true) : isQuote d = false := by
  cases hq : isQuote d with
  | false => rfl
  | true =>
    rcases (isQuote_iff d).1 hq with rfl | rfl
    · revert h; decide
    · revert h; decide

theorem expectPattern_empty (k : Str) (hk : StopP k) : expectPattern k = .error .emptyPattern := by
  rcases hk with rfl | ⟨d, k', rfl, hd⟩
  · rfl
  · rw [expectPattern.eq_def]
    simp [stop_not_quote d hd, unquoted, hd]

theorem generic_error (kw : Str) (sub : St → Res) (mk : Expr → Expr → Expr) (st : St) (e : ParseError)
    (h : sub (skipWs st) = .error e) : generic kw sub mk st = .error e := by
  unfold generic; simp only [h]

theorem loop_glued (kw : Str) (sub : St → Res) (mk : Expr → Expr → Expr) (f : Nat) (acc : Expr) (p : Char) (rest : Str)
    (hp : isSpace p = false ∧ p ≠ '(' ∧ p ≠ ')') (hne : rest.isEmpty = false) (hat : keywordAt kw rest = true) :
    loop kw sub mk (f + 1) acc ⟨some p, rest⟩ = .error .missingWhitespace := by
  rw [loop]
  simp only [hne]
  have hcond : ¬ ((isSpace p || kwPrecede.contains [p]) = true) := by
    rw [kwPrecede_eq]; simp [hp.1, hp.2.1, hp.2.2]
  have : acceptKeyword [kw] ⟨some p, rest⟩ = .error .missingWhitespace := by
    unfold acceptKeyword peekKeyword
    rw [findKeyword_single]
    simp only [hat, if_true]
    rw [if_neg hcond]
  rw [this]
  simp

theorem unary_quoted (q : Quote) (hq : q ≠ .none) (s k : Str) (n : Nat) (hn : (renderStr q s ++ k).length < n) :
    unary n ⟨none, renderStr q s ++ k⟩ = .ok (.atom ⟨none, .glob, s, false⟩, ⟨some q.char, k⟩) := by
  cases n with
  | zero => omega
  | succ n =>
    let a : AtomSyn := ⟨⟨none, .glob, s, false⟩, true, true, .none, q⟩
    have hl : legalAtom a = true := by simp [legalAtom, a, hq]
    have hra : renderAtom a = renderStr q s := by simp [renderAtom, renderPrefix, a]
    have hrs := renderStr_quoted q hq s
    have e1 : renderStr q s ++ k = q.char :: ((escape q.char s ++ [q.char]) ++ k) := by rw [hrs]; rfl
    rw [e1, unary_succ_nonparen n none q.char _ (by cases q <;> decide), ← e1]
    unfold unaryRest peekKeyword
    have hfk : findKeyword keywords (renderStr q s ++ k) = none := by
      rw [e1]; exact findKeyword_none_of_head _ _ (by cases q <;> decide)
    simp only [hfk]
    unfold simpleExpr
    have hsr := simple_render a k hl (fun h => absurd h hq)
    rw [hra] at hsr
    simp only [hsr]
    have : (renderStr q s ++ k).length - k.length = (renderStr q s).length := by simp
    rw [this, consume_append]
    have hlast : lastOr none (renderStr q s) = some q.char := by
      rw [hrs]
      have : q.char :: (escape q.char s ++ [q.char]) = (q.char :: escape q.char s) ++ [q.char] := by simp
      rw [this, lastOr_append_cons]
    rw [hlast]


end Vinegar.Matcher
