import Vinegar.Spec.Http
/-
Helper lemmas for the HTTP theorems (C03): the line scanner, decimal numerals, status line,
header lines, framing.
-/
namespace Vinegar.Http
open Vinegar

/-! ### cleanliness predicates (hypotheses of the round-trip theorem) -/

/-- no CR and no LF -/
def lineClean (v : Bytes) : Bool := v.all (fun b => b != CR && b != LF)

/-- non-empty token of visible ASCII without ':' -/
def nameOk (n : Bytes) : Bool := !n.isEmpty && n.all nameByte

def headerOk (h : Header) : Bool := nameOk h.1 && lineClean h.2

/-- the unconstrained header values and the reason phrases contain no line break -/
structure EnvOk (env : Env) : Prop where
  server : lineClean env.server = true
  date : lineClean env.date = true
  reason : ∀ c, lineClean (env.reason c) = true

/-- a `Content-Length` supplied by the handler (if any) is the length of the body it returns -/
def Framed (hs : List Header) (body : Bytes) : Prop :=
  findCL hs = none ∨ ∃ v, findCL hs = some v ∧ parseDec v = some body.length

theorem lineClean_append {a b : Bytes} : lineClean (a ++ b) = (lineClean a && lineClean b) := by
  simp [lineClean, List.all_append]

theorem lineClean_cons {a : UInt8} {b : Bytes} :
    lineClean (a :: b) = ((a != CR && a != LF) && lineClean b) := by
  simp [lineClean]

/-! ### scanners -/

theorem takeLine_append (l rest : Bytes) (h : lineClean l = true) :
    takeLine (l ++ CR :: LF :: rest) = some (l, rest) := by
  induction l with
  | nil => simp [takeLine]
  | cons b l ih =>
    rw [lineClean_cons] at h
    simp only [Bool.and_eq_true, bne_iff_ne, ne_eq] at h
    obtain ⟨⟨h1, h2⟩, h3⟩ := h
    simp [takeLine, h1, h2, ih h3]

theorem splitAt1_append (sep : UInt8) (l rest : Bytes) (h : sep ∉ l) :
    splitAt1 sep (l ++ sep :: rest) = some (l, rest) := by
  induction l with
  | nil => simp [splitAt1]
  | cons b l ih =>
    simp only [List.mem_cons, not_or] at h
    have hb : b ≠ sep := fun e => h.1 e.symm
    simp [splitAt1, hb, ih h.2]

theorem startsWith_append (p rest : Bytes) : startsWith p (p ++ rest) = some rest := by
  induction p with
  | nil => cases rest <;> simp [startsWith]
  | cons a p ih => simp [startsWith, ih]

/-! ### decimal numerals -/

theorem isDigitByte_charByte {c : Char} (h : c.isDigit = true) : isDigitByte (charByte c) = true := by
  simp only [Char.isDigit, Bool.and_eq_true, decide_eq_true_eq] at h
  obtain ⟨h1, h2⟩ := h
  have h1' : 48 ≤ c.toNat := by
    have : (48 : UInt32) ≤ c.val := h1
    exact UInt32.le_iff_toNat_le.mp this
  have h2' : c.toNat ≤ 57 := by
    have : c.val ≤ (57 : UInt32) := h2
    exact UInt32.le_iff_toNat_le.mp this
  have : (charByte c).toNat = c.toNat := by
    simp [charByte, Nat.toUInt8, UInt8.toNat_ofNat']; omega
  simp [isDigitByte, this, h1', h2']

theorem charByte_toNat_sub {c : Char} (h : c.isDigit = true) :
    (charByte c).toNat - 48 = c.toNat - '0'.toNat := by
  simp only [Char.isDigit, Bool.and_eq_true, decide_eq_true_eq] at h
  obtain ⟨_, h2⟩ := h
  have h2' : c.toNat ≤ 57 := by
    have : c.val ≤ (57 : UInt32) := h2
    exact UInt32.le_iff_toNat_le.mp this
  have : (charByte c).toNat = c.toNat := by
    simp [charByte, Nat.toUInt8, UInt8.toNat_ofNat']; omega
  rw [this]; rfl

theorem decValue_map_aux (l : List Char) (h : ∀ c ∈ l, c.isDigit = true) (init : Nat) :
    (l.map charByte).foldl (fun acc b => 10 * acc + (b.toNat - 48)) init = Nat.ofDigitChars 10 l init := by
  induction l generalizing init with
  | nil => simp [Nat.ofDigitChars]
  | cons c l ih =>
    have hc := h c (by simp)
    simp only [List.map_cons, List.foldl_cons, Nat.ofDigitChars_cons]
    rw [charByte_toNat_sub hc]
    exact ih (fun d hd => h d (by simp [hd])) _

theorem toDec_all_digits (n : Nat) : (toDec n).all isDigitByte = true := by
  simp only [toDec, List.all_map, List.all_eq_true]
  intro c hc
  exact isDigitByte_charByte (Nat.isDigit_of_mem_toDigits (by decide) (by decide) hc)

theorem toDec_ne_nil (n : Nat) : toDec n ≠ [] := by
  simp [toDec, Nat.toDigits_ne_nil]

theorem parseDec_toDec (n : Nat) : parseDec (toDec n) = some n := by
  unfold parseDec
  have h1 : (toDec n).isEmpty = false := by
    cases h : toDec n with
    | nil => exact absurd h (toDec_ne_nil n)
    | cons _ _ => rfl
  rw [h1, toDec_all_digits]
  simp only [Bool.not_false, Bool.and_self, ↓reduceIte, Option.some.injEq]
  unfold decValue toDec
  rw [decValue_map_aux _ (fun c hc => Nat.isDigit_of_mem_toDigits (by decide) (by decide) hc)]
  exact Nat.ofDigitChars_ten_toDigits

theorem isDigitByte_props {b : UInt8} (h : isDigitByte b = true) :
    b ≠ CR ∧ b ≠ LF ∧ b ≠ SP := by
  simp only [isDigitByte, Bool.and_eq_true, decide_eq_true_eq] at h
  refine ⟨?_, ?_, ?_⟩ <;> (intro e; subst e; simp [CR, LF, SP] at h)

theorem toDec_lineClean (n : Nat) : lineClean (toDec n) = true := by
  have h := toDec_all_digits n
  simp only [List.all_eq_true] at h
  simp only [lineClean, List.all_eq_true, Bool.and_eq_true, bne_iff_ne, ne_eq]
  intro b hb
  have := isDigitByte_props (h b hb)
  exact ⟨this.1, this.2.1⟩

theorem SP_not_mem_toDec (n : Nat) : SP ∉ toDec n := by
  intro hm
  have h := toDec_all_digits n
  simp only [List.all_eq_true] at h
  exact (isDigitByte_props (h _ hm)).2.2 rfl

theorem toDec_length_three (n : Nat) (h1 : 100 ≤ n) (h2 : n ≤ 999) : (toDec n).length = 3 := by
  have e1 : Nat.toDigits 10 n = Nat.toDigits 10 (n / 10) ++ [(n % 10).digitChar] := by
    rw [Nat.toDigits_eq_if (by decide)]; simp; omega
  have e2 : Nat.toDigits 10 (n / 10) = Nat.toDigits 10 (n / 10 / 10) ++ [(n / 10 % 10).digitChar] := by
    rw [Nat.toDigits_eq_if (by decide)]; simp; omega
  have e3 : Nat.toDigits 10 (n / 10 / 10) = [(n / 10 / 10).digitChar] := by
    rw [Nat.toDigits_eq_if (by decide)]; simp; omega
  simp [toDec, e1, e2, e3]

/-! ### status line -/

theorem lit_prefix : lit "HTTP/1.0 " = lit "HTTP/1." ++ [48, SP] := by decide

theorem lit_http_clean : lineClean (lit "HTTP/1.0 ") = true := by decide

theorem statusLine_eq (env : Env) (code : Nat) :
    statusLine env code = (lit "HTTP/1.0 " ++ toDec code ++ [SP] ++ env.reason code) ++ CR :: LF :: [] := by
  simp [statusLine, crlf]

theorem statusText_clean (env : Env) (henv : EnvOk env) (code : Nat) :
    lineClean (lit "HTTP/1.0 " ++ toDec code ++ [SP] ++ env.reason code) = true := by
  simp only [lineClean_append, lit_http_clean, toDec_lineClean, henv.reason, Bool.and_true, Bool.true_and]
  decide

theorem parseStatusLine_ok (env : Env) (code : Nat) (h1 : 100 ≤ code) (h2 : code ≤ 999) :
    parseStatusLine (lit "HTTP/1.0 " ++ toDec code ++ [SP] ++ env.reason code) = some code := by
  unfold parseStatusLine
  have e : lit "HTTP/1.0 " ++ toDec code ++ [SP] ++ env.reason code
      = lit "HTTP/1." ++ (48 :: SP :: (toDec code ++ SP :: env.reason code)) := by
    rw [lit_prefix]; simp
  rw [e, startsWith_append]
  simp only [splitAt1_append SP (toDec code) (env.reason code) (SP_not_mem_toDec code),
    toDec_length_three code h1 h2, parseDec_toDec]
  simp

/-! ### header lines -/

theorem COLON_not_mem_name {n : Bytes} (h : n.all nameByte = true) : COLON ∉ n := by
  intro hm
  simp only [List.all_eq_true] at h
  have := h _ hm
  simp [nameByte] at this

theorem nameByte_clean {b : UInt8} (h : nameByte b = true) : (b != CR && b != LF) = true := by
  simp only [nameByte, Bool.and_eq_true, decide_eq_true_eq, bne_iff_ne, ne_eq] at h
  simp only [Bool.and_eq_true, bne_iff_ne, ne_eq]
  constructor <;> (intro e; subst e; simp [CR, LF] at h)

theorem name_lineClean {n : Bytes} (h : n.all nameByte = true) : lineClean n = true := by
  simp only [List.all_eq_true] at h
  simp only [lineClean, List.all_eq_true]
  intro b hb
  exact nameByte_clean (h b hb)

theorem headerText_clean {h : Header} (hok : headerOk h = true) :
    lineClean (h.1 ++ [COLON, SP] ++ h.2) = true := by
  simp only [headerOk, nameOk, Bool.and_eq_true] at hok
  obtain ⟨⟨_, hn⟩, hv⟩ := hok
  simp only [lineClean_append, name_lineClean hn, hv, Bool.and_true, Bool.true_and]
  decide

theorem parseHeaderLine_ok {h : Header} (hok : headerOk h = true) :
    parseHeaderLine (h.1 ++ [COLON, SP] ++ h.2) = some h := by
  simp only [headerOk, nameOk, Bool.and_eq_true] at hok
  obtain ⟨⟨hne, hn⟩, _⟩ := hok
  unfold parseHeaderLine
  have e : h.1 ++ [COLON, SP] ++ h.2 = h.1 ++ COLON :: (SP :: h.2) := by simp
  rw [e, splitAt1_append COLON h.1 _ (COLON_not_mem_name hn)]
  simp [hne, hn]

theorem headerText_nonempty {h : Header} (hok : headerOk h = true) :
    (h.1 ++ [COLON, SP] ++ h.2).isEmpty = false := by
  cases h1 : h.1 with
  | nil => simp [headerOk, nameOk, h1] at hok
  | cons _ _ => simp

theorem headerLine_eq (h : Header) :
    headerLine h = (h.1 ++ [COLON, SP] ++ h.2) ++ CR :: LF :: [] := by
  simp [headerLine, crlf]

theorem parseHeaders_ok (hs : List Header) (rest : Bytes) (hok : ∀ h ∈ hs, headerOk h = true)
    (fuel : Nat) (hf : hs.length < fuel) :
    parseHeaders fuel (headerLines hs ++ crlf ++ rest) = some (hs, rest) := by
  induction hs generalizing fuel with
  | nil =>
    cases fuel with
    | zero => omega
    | succ f =>
      have : takeLine (CR :: LF :: rest) = some ([], rest) := by
        simpa using takeLine_append [] rest (by decide)
      simp [parseHeaders, headerLines, crlf, this]
  | cons h hs ih =>
    cases fuel with
    | zero => omega
    | succ f =>
      have hh := hok h (by simp)
      have e : headerLines (h :: hs) ++ crlf ++ rest
          = (h.1 ++ [COLON, SP] ++ h.2) ++ CR :: LF :: (headerLines hs ++ crlf ++ rest) := by
        simp [headerLines, headerLine_eq]
      rw [e]
      unfold parseHeaders
      rw [takeLine_append _ _ (headerText_clean hh)]
      simp only [headerText_nonempty hh, parseHeaderLine_ok hh]
      rw [ih (fun x hx => hok x (by simp [hx])) f (by simp at hf; omega)]
      simp

theorem headerLines_length_ge (hs : List Header) : hs.length ≤ (headerLines hs).length := by
  induction hs with
  | nil => simp [headerLines]
  | cons h hs ih =>
    simp only [headerLines, List.flatMap_cons, List.length_append, List.length_cons] at *
    have : 1 ≤ (headerLine h).length := by simp [headerLine, crlf]; omega
    omega

/-! ### the whole response -/

/-- what the strict parser makes of `status line, header block, empty line, bytes` -/
def frameResult (isHead : Bool) (code : Nat) (hs : List Header) (body : Bytes) : Option (Response × Bytes) :=
  match findCL hs with
  | none => some (⟨code, hs, body⟩, [])
  | some v =>
    match parseDec v with
    | none => none
    | some n =>
      if isHead then some (⟨code, hs, body⟩, [])
      else if n ≤ body.length then some (⟨code, hs, body.take n⟩, body.drop n)
      else none

theorem parse_frame (env : Env) (henv : EnvOk env) (isHead : Bool) (code : Nat)
    (h1 : 100 ≤ code) (h2 : code ≤ 999) (hs : List Header) (hok : ∀ h ∈ hs, headerOk h = true)
    (body : Bytes) :
    parseResponse isHead (statusLine env code ++ headerLines hs ++ crlf ++ body)
      = frameResult isHead code hs body := by
  unfold parseResponse
  have e : statusLine env code ++ headerLines hs ++ crlf ++ body
      = (lit "HTTP/1.0 " ++ toDec code ++ [SP] ++ env.reason code) ++ CR :: LF :: (headerLines hs ++ crlf ++ body) := by
    rw [statusLine_eq]; simp
  rw [e, takeLine_append _ _ (statusText_clean env henv code)]
  simp only [parseStatusLine_ok env code h1 h2]
  rw [parseHeaders_ok hs body hok _ (by
    have := headerLines_length_ge hs
    simp only [List.length_append]; omega)]
  rfl

theorem findCL_append_of_none {a b : List Header} (h : findCL a = none) : findCL (a ++ b) = findCL b := by
  induction a with
  | nil => rfl
  | cons x a ih =>
    obtain ⟨n, v⟩ := x
    simp only [findCL, List.cons_append] at *
    split at h
    · cases h
    · rename_i hne; simp [hne, ih h]

theorem findCL_std (env : Env) : findCL (stdHeaders env) = none := by
  simp only [stdHeaders, findCL]
  have a : (lower (lit "Server") = lit "content-length") = False := by decide
  have b : (lower (lit "Date") = lit "content-length") = False := by decide
  simp [a, b]

theorem std_ok (env : Env) (henv : EnvOk env) : ∀ h ∈ stdHeaders env, headerOk h = true := by
  intro h hm
  simp only [stdHeaders, List.mem_cons, List.not_mem_nil, or_false] at hm
  rcases hm with rfl | rfl
  · simp only [headerOk, henv.server, Bool.and_true]; decide
  · simp only [headerOk, henv.date, Bool.and_true]; decide

theorem errHeaders_ok (env : Env) (code : Nat) : ∀ h ∈ errHeaders env code, headerOk h = true := by
  intro h hm
  simp only [errHeaders, List.mem_cons] at hm
  rcases hm with rfl | hm
  · decide
  · split at hm
    · simp only [List.mem_cons, List.not_mem_nil, or_false] at hm
      rcases hm with rfl | rfl
      · decide
      · simp only [headerOk, toDec_lineClean, Bool.and_true]; decide
    · simp at hm

theorem findCL_errHeaders (env : Env) (code : Nat) :
    findCL (errHeaders env code) =
      if errHasPage code then some (toDec (env.errPage code).length) else none := by
  have a : (lower (lit "Connection") = lit "content-length") = False := by decide
  have b : (lower (lit "Content-Type") = lit "content-length") = False := by decide
  have c : (lower (lit "Content-Length") = lit "content-length") = True := by decide
  simp only [errHeaders, findCL, a, ↓reduceIte]
  split <;> simp [findCL, b, c]

end Vinegar.Http
