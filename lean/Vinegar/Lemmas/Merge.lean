import Vinegar.Spec.Merge
/-
Helper lemmas for the C13 theorems: induction principle for the nested value type,
lawfulness of structural equality, reflexivity of Python equality, key lookup.
-/
namespace Vinegar.Merge

/-- structural induction on values with membership-style hypotheses for the containers -/
theorem Val.induct' {P : Val → Prop}
    (none : P .none) (bool : ∀ b, P (.bool b)) (int : ∀ i, P (.int i)) (str : ∀ s, P (.str s))
    (bytes : ∀ b, P (.bytes b)) (float : ∀ r, P (.float r))
    (list : ∀ xs, (∀ x ∈ xs, P x) → P (.list xs))
    (tuple : ∀ xs, (∀ x ∈ xs, P x) → P (.tuple xs))
    (set : ∀ xs, (∀ x ∈ xs, P x) → P (.set xs))
    (dict : ∀ d : Dict, (∀ kv ∈ d, P kv.2) → P (.dict d)) : ∀ v, P v := by
  intro v
  refine Val.rec (motive_1 := P) (motive_2 := fun xs => ∀ x ∈ xs, P x)
    (motive_3 := fun d => ∀ kv ∈ d, P kv.2) (motive_4 := fun kv => P kv.2)
    none bool int str bytes float (fun xs ih => list xs ih) (fun xs ih => tuple xs ih)
    (fun xs ih => set xs ih) (fun d ih => dict d ih) ?_ ?_ ?_ ?_ ?_ v
  · intro x hx; cases hx
  · intro h t ih1 ih2 x hx
    cases hx with
    | head => exact ih1
    | tail _ h' => exact ih2 x h'
  · intro x hx; cases hx
  · intro h t ih1 ih2 x hx
    cases hx with
    | head => exact ih1
    | tail _ h' => exact ih2 x h'
  · intro k v ih; exact ih

/-! ### structural equality is lawful -/

mutual
theorem Val.beq_refl : ∀ v : Val, Val.beq v v = true
  | .none => by simp [Val.beq]
  | .bool _ => by simp [Val.beq]
  | .int _ => by simp [Val.beq]
  | .str _ => by simp [Val.beq]
  | .bytes _ => by simp [Val.beq]
  | .float _ => by simp [Val.beq]
  | .list xs => by simp [Val.beq, Val.beqList_refl xs]
  | .tuple xs => by simp [Val.beq, Val.beqList_refl xs]
  | .set xs => by simp [Val.beq, Val.beqList_refl xs]
  | .dict d => by simp [Val.beq, Val.beqDict_refl d]
theorem Val.beqList_refl : ∀ xs : List Val, Val.beqList xs xs = true
  | [] => by simp [Val.beqList]
  | x :: xs => by simp [Val.beqList, Val.beq_refl x, Val.beqList_refl xs]
theorem Val.beqDict_refl : ∀ d : Dict, Val.beqDict d d = true
  | [] => by simp [Val.beqDict]
  | (k, v) :: d => by simp [Val.beqDict, Val.beq_refl v, Val.beqDict_refl d]
end

mutual
theorem Val.eq_of_beq : ∀ a b : Val, Val.beq a b = true → a = b
  | .none, b => by cases b <;> simp [Val.beq]
  | .bool _, b => by cases b <;> simp [Val.beq]
  | .int _, b => by cases b <;> simp [Val.beq]
  | .str _, b => by cases b <;> simp [Val.beq]
  | .bytes _, b => by cases b <;> simp [Val.beq]
  | .float _, b => by cases b <;> simp [Val.beq]
  | .list xs, b => by
    cases b <;> simp [Val.beq]
    exact Val.eq_of_beqList xs _
  | .tuple xs, b => by
    cases b <;> simp [Val.beq]
    exact Val.eq_of_beqList xs _
  | .set xs, b => by
    cases b <;> simp [Val.beq]
    exact Val.eq_of_beqList xs _
  | .dict d, b => by
    cases b <;> simp [Val.beq]
    exact Val.eq_of_beqDict d _
theorem Val.eq_of_beqList : ∀ xs ys : List Val, Val.beqList xs ys = true → xs = ys
  | [], ys => by cases ys <;> simp [Val.beqList]
  | x :: xs, ys => by
    cases ys with
    | nil => simp [Val.beqList]
    | cons y ys =>
      simp only [Val.beqList, Bool.and_eq_true]
      intro h
      rw [Val.eq_of_beq x y h.1, Val.eq_of_beqList xs ys h.2]
theorem Val.eq_of_beqDict : ∀ xs ys : Dict, Val.beqDict xs ys = true → xs = ys
  | [], ys => by cases ys <;> simp [Val.beqDict]
  | (k, v) :: xs, ys => by
    cases ys with
    | nil => simp [Val.beqDict]
    | cons y ys =>
      obtain ⟨k', v'⟩ := y
      simp only [Val.beqDict, Bool.and_eq_true, beq_iff_eq]
      intro h
      rw [h.1.1, Val.eq_of_beq v v' h.1.2, Val.eq_of_beqDict xs ys h.2]
end

instance : LawfulBEq Val where
  eq_of_beq {a b} h := Val.eq_of_beq a b h
  rfl {a} := Val.beq_refl a

/-! ### Python equality is reflexive -/

theorem Key.pyEq_refl (k : Key) : Key.pyEq k k = true := by simp [Key.pyEq]

theorem Key.pyEq_symm (a b : Key) : Key.pyEq a b = Key.pyEq b a := by
  simp only [Key.pyEq]
  exact Bool.eq_iff_iff.mpr ⟨fun h => by simpa using (eq_of_beq h).symm, fun h => by simpa using (eq_of_beq h).symm⟩

theorem Key.pyEq_congr {a b : Key} (h : Key.pyEq a b = true) (c : Key) : Key.pyEq a c = Key.pyEq b c := by
  simp only [Key.pyEq] at *
  rw [eq_of_beq h]

theorem Key.pyEq_congr_right {a b : Key} (h : Key.pyEq a b = true) (c : Key) : Key.pyEq c a = Key.pyEq c b := by
  rw [Key.pyEq_symm c a, Key.pyEq_symm c b]; exact Key.pyEq_congr h c

theorem lookup_self_cons (k : Key) (v : Val) (d : Dict) : lookup k ((k, v) :: d) = some v := by
  simp [lookup, Key.pyEq_refl]

theorem anyL_eq_any (xs : List Val) (y : Val) : anyL xs y = xs.any (fun x => pyEq x y) := by
  induction xs with
  | nil => simp [anyL]
  | cons x xs ih => simp [anyL, ih]

theorem subsetBy_of_forall (xs b : List Val) (h : ∀ x ∈ xs, b.any (fun y => pyEq x y) = true) :
    subsetBy xs b = true := by
  induction xs with
  | nil => simp [subsetBy]
  | cons x xs ih =>
    simp only [subsetBy, Bool.and_eq_true]
    exact ⟨h x (by simp), ih (fun x hx => h x (by simp [hx]))⟩

theorem pyEqList_refl_of (xs : List Val) (h : ∀ x ∈ xs, pyEq x x = true) : pyEqList xs xs = true := by
  induction xs with
  | nil => simp [pyEqList]
  | cons x xs ih =>
    simp only [pyEqList, Bool.and_eq_true]
    exact ⟨h x (by simp), ih (fun x hx => h x (by simp [hx]))⟩

theorem hasKey_eq_any (k : Key) (d : Dict) : hasKey k d = d.any (fun kv => Key.pyEq kv.1 k) := by
  induction d with
  | nil => simp [hasKey, lookup]
  | cons kv d ih =>
    obtain ⟨k', v⟩ := kv
    simp only [hasKey, lookup, List.any_cons] at *
    by_cases h : Key.pyEq k' k = true
    · simp [h]
    · simp [h, ih]

theorem lookup_congr {k k' : Key} (h : Key.pyEq k k' = true) (d : Dict) : lookup k d = lookup k' d := by
  induction d with
  | nil => simp [lookup]
  | cons kv d ih =>
    obtain ⟨k0, v⟩ := kv
    simp only [lookup, Key.pyEq_congr_right h k0, ih]

theorem hasKey_congr {k k' : Key} (h : Key.pyEq k k' = true) (d : Dict) : hasKey k d = hasKey k' d := by
  simp [hasKey, lookup_congr h d]

/-- reflexivity of `dictSub` on a dictionary with distinct keys whose values are reflexive -/
theorem dictSub_refl_of (d : Dict) (hd : distinctKeys d = true) (h : ∀ kv ∈ d, pyEq kv.2 kv.2 = true) :
    ∀ pre : Dict, (∀ kv ∈ d, hasKey kv.1 pre = false) → dictSub d (pre ++ d) = true := by
  induction d with
  | nil => intro pre _; simp [dictSub]
  | cons kv d ih =>
    obtain ⟨k, v⟩ := kv
    intro pre hpre
    simp only [distinctKeys, Bool.and_eq_true, Bool.not_eq_true'] at hd
    have hl : lookup k (pre ++ (k, v) :: d) = some v := by
      have hp : hasKey k pre = false := hpre (k, v) (by simp)
      clear ih hpre
      induction pre with
      | nil => simp [lookup, Key.pyEq_refl]
      | cons kv' pre ihp =>
        obtain ⟨k', v'⟩ := kv'
        simp only [hasKey, lookup] at hp ihp ⊢
        by_cases hk : Key.pyEq k' k = true
        · simp [hk] at hp
        · have hk' : Key.pyEq k' k = false := by simpa using hk
          simp only [hk', Bool.false_eq_true, if_false, List.cons_append, lookup] at hp ⊢
          exact ihp hp
    simp only [dictSub, hl, Bool.and_eq_true]
    refine ⟨h (k, v) (by simp), ?_⟩
    have := ih hd.2 (fun kv hkv => h kv (by simp [hkv])) (pre ++ [(k, v)]) (by
      intro kv hkv
      rw [hasKey_eq_any, List.any_append]
      have h1 : hasKey kv.1 pre = false := hpre kv (by simp [hkv])
      rw [hasKey_eq_any] at h1
      simp only [h1, Bool.false_or, List.any_cons, List.any_nil, Bool.or_false]
      have h2 := hd.1
      rw [hasKey_eq_any] at h2
      have h3 := List.any_eq_false.mp h2 kv hkv
      rw [Key.pyEq_symm]
      simpa using h3)
    simpa using this

/-! ### well-formedness -/

theorem listWf_mem {xs : List Val} (h : listWf xs = true) : ∀ x ∈ xs, x.wf = true := by
  induction xs with
  | nil => intro x hx; cases hx
  | cons y ys ih =>
    simp only [listWf, Bool.and_eq_true] at h
    intro x hx
    cases hx with
    | head => exact h.1
    | tail _ h' => exact ih h.2 x h'

theorem dictWf_mem {d : Dict} (h : dictWf d = true) : ∀ kv ∈ d, kv.2.wf = true := by
  induction d with
  | nil => intro x hx; cases hx
  | cons y ys ih =>
    obtain ⟨k, v⟩ := y
    simp only [dictWf, Bool.and_eq_true] at h
    intro x hx
    cases hx with
    | head => exact h.1
    | tail _ h' => exact ih h.2 x h'

theorem lookup_mem {k : Key} {d : Dict} {v : Val} (h : lookup k d = some v) : ∃ k', (k', v) ∈ d := by
  induction d with
  | nil => simp [lookup] at h
  | cons kv d ih =>
    obtain ⟨k0, v0⟩ := kv
    simp only [lookup] at h
    by_cases hk : Key.pyEq k0 k = true
    · simp only [hk, if_true, Option.some.injEq] at h
      exact ⟨k0, by simp [h]⟩
    · simp only [hk, Bool.false_eq_true, if_false] at h
      obtain ⟨k', hk'⟩ := ih h
      exact ⟨k', by simp [hk']⟩

theorem lookup_wf {k : Key} {d : Dict} {v : Val} (hd : dictWf d = true) (h : lookup k d = some v) :
    v.wf = true := by
  obtain ⟨k', hk'⟩ := lookup_mem h
  exact dictWf_mem hd (k', v) hk'

theorem elems_wf {v : Val} (h : v.wf = true) : ∀ x ∈ v.elems, x.wf = true := by
  cases v <;> simp only [Val.elems, Val.wf] at * <;> first | exact listWf_mem h | (intro x hx; cases hx)

theorem pyEq_refl : ∀ v : Val, v.wf = true → pyEq v v = true := by
  intro v
  induction v using Val.induct' with
  | none => simp [pyEq]
  | bool => simp [pyEq]
  | int => simp [pyEq]
  | str => simp [pyEq]
  | bytes => simp [pyEq]
  | float => simp [pyEq]
  | list xs ih =>
    intro h; simp only [Val.wf] at h
    simp only [pyEq]
    exact pyEqList_refl_of xs (fun x hx => ih x hx (listWf_mem h x hx))
  | tuple xs ih =>
    intro h; simp only [Val.wf] at h
    simp only [pyEq]
    exact pyEqList_refl_of xs (fun x hx => ih x hx (listWf_mem h x hx))
  | set xs ih =>
    intro h; simp only [Val.wf] at h
    have hr : ∀ x ∈ xs, pyEq x x = true := fun x hx => ih x hx (listWf_mem h x hx)
    simp only [pyEq, Bool.and_eq_true, List.all_eq_true]
    refine ⟨subsetBy_of_forall xs xs (fun x hx => List.any_eq_true.mpr ⟨x, hx, hr x hx⟩), ?_⟩
    intro y hy
    rw [anyL_eq_any]
    exact List.any_eq_true.mpr ⟨y, hy, hr y hy⟩
  | dict d ih =>
    intro h; simp only [Val.wf, Bool.and_eq_true] at h
    simp only [pyEq, beq_self_eq_true, Bool.true_and]
    have := dictSub_refl_of d h.1 (fun kv hkv => ih kv hkv (dictWf_mem h.2 kv hkv)) [] (by
      intro kv _; simp [hasKey, lookup])
    simpa using this

/-! ### `appendUnseen` -/

/-- the elements the loop appends -/
def unseen (m : List Val) : List Val → List Val
  | [] => []
  | e :: rest => if pyMem e m then unseen m rest else e :: unseen (m ++ [e]) rest

theorem appendUnseen_eq (m b : List Val) : appendUnseen m b = m ++ unseen m b := by
  induction b generalizing m with
  | nil => simp [appendUnseen, unseen]
  | cons e rest ih =>
    simp only [appendUnseen, unseen]
    split
    · exact ih m
    · rw [ih]; simp

theorem unseen_sublist (m b : List Val) : (unseen m b).Sublist b := by
  induction b generalizing m with
  | nil => simp [unseen]
  | cons e rest ih =>
    simp only [unseen]
    split
    · exact (ih m).cons e
    · exact (ih _).cons_cons e

theorem unseen_fresh (m b : List Val) : freshChain m (unseen m b) = true := by
  induction b generalizing m with
  | nil => simp [unseen, freshChain]
  | cons e rest ih =>
    simp only [unseen]
    split
    · exact ih m
    · rename_i h
      simp only [freshChain, Bool.and_eq_true, Bool.not_eq_true']
      exact ⟨by simpa using h, ih _⟩

theorem pyMem_append_left {e : Val} {m : List Val} (x : List Val) (h : pyMem e m = true) :
    pyMem e (m ++ x) = true := by
  simp only [pyMem, List.any_append, Bool.or_eq_true] at *
  exact Or.inl h

theorem unseen_covers (m b : List Val) (hb : ∀ e ∈ b, pyEq e e = true) :
    ∀ e ∈ b, pyMem e (m ++ unseen m b) = true := by
  induction b generalizing m with
  | nil => intro e he; cases he
  | cons e rest ih =>
    intro x hx
    simp only [unseen]
    have hrest := fun y hy => hb y (List.mem_cons_of_mem e hy)
    split
    · rename_i h
      cases hx with
      | head => exact pyMem_append_left _ h
      | tail _ h' => exact ih m hrest x h'
    · have := ih (m ++ [e]) hrest
      cases hx with
      | head =>
        have h1 : pyMem e (m ++ [e]) = true := by
          simp only [pyMem, List.any_append, List.any_cons, List.any_nil, Bool.or_false, Bool.or_eq_true]
          exact Or.inr (hb e (by simp))
        have := pyMem_append_left (unseen (m ++ [e]) rest) h1
        simpa using this
      | tail _ h' =>
        have := this x h'
        simpa using this

theorem checkAppend_appendUnseen (a b : List Val) (hb : ∀ e ∈ b, pyEq e e = true) :
    checkAppend a b (appendUnseen a b) = true := by
  simp only [checkAppend, appendUnseen_eq, List.take_left', List.drop_left', beq_self_eq_true,
    Bool.true_and, Bool.and_eq_true, List.all_eq_true]
  refine ⟨⟨?_, unseen_fresh a b⟩, unseen_covers a b hb⟩
  exact List.isSublist_iff_sublist.mpr (unseen_sublist a b)

theorem checkUnion_appendUnseen (a b : List Val) (hb : ∀ e ∈ b, pyEq e e = true) :
    checkUnion a b (appendUnseen a b) = true := by
  simp only [checkUnion, appendUnseen_eq, Bool.and_eq_true, List.all_eq_true, Bool.or_eq_true,
    List.contains_iff_mem]
  refine ⟨⟨?_, unseen_covers a b hb⟩, ?_⟩
  · intro x hx; simp [hx]
  · intro x hx
    rcases List.mem_append.mp hx with h | h
    · exact Or.inl h
    · exact Or.inr ((unseen_sublist a b).subset h)

/-! ### the second loop (`addNew`) -/

theorem hasKey_append (k : Key) (m n : Dict) : hasKey k (m ++ n) = (hasKey k m || hasKey k n) := by
  simp [hasKey_eq_any, List.any_append]

theorem hasKey_eq_memKey (k : Key) (d : Dict) : hasKey k d = memKey k (keysOf d) := by
  simp [hasKey_eq_any, memKey, keysOf, List.any_map, Function.comp_def]

theorem hasKey_of_keys_eq {m a : Dict} (h : keysOf m = keysOf a) (k : Key) : hasKey k m = hasKey k a := by
  rw [hasKey_eq_memKey, hasKey_eq_memKey, h]

theorem addNew_eq (m b : Dict) (hb : distinctKeys b = true) :
    addNew m b = m ++ b.filter (fun kv => !hasKey kv.1 m) := by
  induction b generalizing m with
  | nil => simp [addNew]
  | cons kv rest ih =>
    obtain ⟨k, v⟩ := kv
    simp only [distinctKeys, Bool.and_eq_true, Bool.not_eq_true'] at hb
    simp only [addNew]
    split
    · rename_i h
      rw [ih m hb.2]
      simp [h]
    · rename_i h
      have h' : hasKey k m = false := by simpa using h
      rw [ih _ hb.2, List.filter_cons]
      simp only [h', Bool.not_false, if_true, List.append_assoc, List.singleton_append]
      congr 2
      apply List.filter_congr
      intro kv hkv
      rw [hasKey_append]
      have h2 := hb.1
      rw [hasKey_eq_any] at h2
      have h3 := List.any_eq_false.mp h2 kv hkv
      have h4 : hasKey kv.1 [(k, v)] = false := by
        simp only [hasKey, lookup]
        rw [Key.pyEq_symm]
        simp at h3
        simp [h3]
      simp [h4]

theorem lookup_append (k : Key) (m n : Dict) :
    lookup k (m ++ n) = (lookup k m).orElse (fun _ => lookup k n) := by
  induction m with
  | nil => simp [lookup]
  | cons kv m ih =>
    obtain ⟨k0, v0⟩ := kv
    simp only [List.cons_append, lookup]
    by_cases hk : Key.pyEq k0 k = true
    · simp [hk]
    · simp [hk, ih]

theorem lookup_addNew (k : Key) (m b : Dict) :
    lookup k (addNew m b) = (lookup k m).orElse (fun _ => lookup k b) := by
  induction b generalizing m with
  | nil => cases h : lookup k m <;> simp [addNew, lookup, h]
  | cons kv rest ih =>
    obtain ⟨k0, v0⟩ := kv
    simp only [addNew]
    split
    · rename_i h
      rw [ih m]
      by_cases hk : Key.pyEq k0 k = true
      · rw [hasKey_congr hk] at h
        simp only [hasKey, Option.isSome_iff_exists] at h
        obtain ⟨x, hx⟩ := h
        simp [hx]
      · simp [lookup, hk]
    · rw [ih, lookup_append]
      cases h1 : lookup k m with
      | some x => simp
      | none =>
        simp only [Option.orElse_none, lookup]
        by_cases hk : Key.pyEq k0 k = true
        · simp [hk]
        · simp [hk]

/-! ### the first loop (`mergeEntries`) -/

def isErr {ε α : Type} : Except ε α → Bool
  | .error _ => true
  | .ok _ => false

theorem isErr_iff {ε α : Type} (x : Except ε α) : isErr x = true ↔ ∃ e, x = .error e := by
  cases x <;> simp [isErr]

theorem mergeEntries_cons_ok {ml ms : Bool} {k : Key} {v : Val} {rest b m : Dict}
    (h : mergeEntries ml ms ((k, v) :: rest) b = .ok m) :
    ∃ r m', m = (k, r) :: m' ∧ mergeEntries ml ms rest b = .ok m' ∧
      (match lookup k b with
       | some ov => mergeVal ml ms v ov = .ok r
       | Option.none => r = v) := by
  simp only [mergeEntries] at h
  cases hl : lookup k b with
  | none =>
    simp only [hl] at h
    cases hr : mergeEntries ml ms rest b with
    | error e => simp [hr] at h
    | ok m' =>
      simp only [hr, Except.ok.injEq] at h
      exact ⟨v, m', h.symm, rfl, rfl⟩
  | some ov =>
    simp only [hl] at h
    cases hv : mergeVal ml ms v ov with
    | error e => simp [hv] at h
    | ok r =>
      simp only [hv] at h
      cases hr : mergeEntries ml ms rest b with
      | error e => simp [hr] at h
      | ok m' =>
        simp only [hr, Except.ok.injEq] at h
        exact ⟨r, m', h.symm, rfl, hv⟩

theorem mergeEntries_isErr_cons (ml ms : Bool) (k : Key) (v : Val) (rest b : Dict) :
    isErr (mergeEntries ml ms ((k, v) :: rest) b) =
      ((match lookup k b with
        | some ov => isErr (mergeVal ml ms v ov)
        | Option.none => false) || isErr (mergeEntries ml ms rest b)) := by
  simp only [mergeEntries]
  cases hl : lookup k b with
  | none => cases hr : mergeEntries ml ms rest b <;> simp [isErr]
  | some ov =>
    cases hv : mergeVal ml ms v ov <;> cases hr : mergeEntries ml ms rest b <;> simp [isErr, hv]

theorem mergeEntries_keys {ml ms : Bool} {a b m : Dict} (h : mergeEntries ml ms a b = .ok m) :
    keysOf m = keysOf a := by
  induction a generalizing m with
  | nil => simp [mergeEntries] at h; subst h; rfl
  | cons kv rest ih =>
    obtain ⟨k, v⟩ := kv
    obtain ⟨r, m', hm, hr, _⟩ := mergeEntries_cons_ok h
    subst hm
    simp [keysOf] at *
    exact ih hr

theorem mergeDict_ok {ml ms : Bool} {a b r : Dict} (h : mergeDict ml ms a b = .ok r) :
    ∃ m, mergeEntries ml ms a b = .ok m ∧ r = addNew m b := by
  simp only [mergeDict] at h
  cases hm : mergeEntries ml ms a b with
  | error e => simp [hm] at h
  | ok m => simp only [hm, Except.ok.injEq] at h; exact ⟨m, rfl, h.symm⟩

theorem mergeVal_dict (ml ms : Bool) (a b : Dict) :
    mergeVal ml ms (.dict a) (.dict b) =
      (match mergeDict ml ms a b with
       | .ok r => .ok (.dict r)
       | .error e => .error e) := by
  simp only [mergeVal, mergeDict]
  cases mergeEntries ml ms a b <;> rfl

theorem lookup_mergeEntries {ml ms : Bool} {a b m : Dict} (h : mergeEntries ml ms a b = .ok m) (k : Key) :
    match lookup k a with
    | Option.none => lookup k m = Option.none
    | some v =>
      match lookup k b with
      | some ov => ∃ r, mergeVal ml ms v ov = .ok r ∧ lookup k m = some r
      | Option.none => lookup k m = some v := by
  induction a generalizing m with
  | nil => simp [mergeEntries] at h; subst h; simp [lookup]
  | cons kv rest ih =>
    obtain ⟨k0, v0⟩ := kv
    obtain ⟨r, m', hm, hr, hv⟩ := mergeEntries_cons_ok h
    subst hm
    simp only [lookup]
    by_cases hk : Key.pyEq k0 k = true
    · simp only [hk, if_true]
      rw [← lookup_congr hk b]
      cases hl : lookup k0 b with
      | none => simp only [hl] at hv; simp [hv]
      | some ov => simp only [hl] at hv; exact ⟨r, hv, rfl⟩
    · simp only [hk, Bool.false_eq_true, if_false]
      exact ih hr

/-! ### the `elif` chain against the decision table -/

theorem kind_mapping {v : Val} (h : v.kind = .mapping) : ∃ a, v = .dict a := by
  cases v <;> simp [Val.kind] at h
  exact ⟨_, rfl⟩

theorem mergeVal_leaf {ml ms : Bool} {v ov : Val} (h : ¬(v.kind = .mapping ∧ ov.kind = .mapping)) :
    mergeVal ml ms v ov = mergeLeaf ml ms v ov := by
  apply mergeVal.eq_2
  intro a b hv hov
  subst hv hov
  exact h ⟨rfl, rfl⟩

theorem hasConflict_leaf {ml ms : Bool} {v ov : Val} (h : ¬(v.kind = .mapping ∧ ov.kind = .mapping)) :
    hasConflict ml ms v ov = (expect ml ms v.kind ov.kind == .conflict) := by
  apply hasConflict.eq_2
  intro a b hv hov
  subst hv hov
  exact h ⟨rfl, rfl⟩

theorem checkValue_dict (ml ms : Bool) (a b r : Dict) :
    checkValue ml ms (.dict a) (.dict b) (.dict r) = checkEntries ml ms b (newEntries a b) a r := by
  simp [checkValue, expect, Val.kind]

theorem expect_recurse {ml ms : Bool} {kv ko : Kind} (h : expect ml ms kv ko = .recurse) :
    kv = .mapping ∧ ko = .mapping := by
  cases kv <;> cases ko <;> cases ml <;> cases ms <;> simp [expect] at h ⊢

theorem leaf_table_aux (ml ms : Bool) (kv ko : Kind) (A B C : Except TypeError Val)
    (h : ¬(kv = .mapping ∧ ko = .mapping)) :
    match expect ml ms kv ko with
    | .append =>
      (if ml && kv == .seq && ko == .seq then A
       else if ms && kv == .set && ko == .set then B
       else if kv == .mapping || ko == .mapping then .error .mapping
       else if ms && (kv == .set || ko == .set) then .error .set
       else if ml && (kv == .seq || ko == .seq) then .error .sequence
       else C) = A
    | .union =>
      (if ml && kv == .seq && ko == .seq then A
       else if ms && kv == .set && ko == .set then B
       else if kv == .mapping || ko == .mapping then .error .mapping
       else if ms && (kv == .set || ko == .set) then .error .set
       else if ml && (kv == .seq || ko == .seq) then .error .sequence
       else C) = B
    | .override =>
      (if ml && kv == .seq && ko == .seq then A
       else if ms && kv == .set && ko == .set then B
       else if kv == .mapping || ko == .mapping then .error .mapping
       else if ms && (kv == .set || ko == .set) then .error .set
       else if ml && (kv == .seq || ko == .seq) then .error .sequence
       else C) = C
    | .conflict => ∃ e,
      (if ml && kv == .seq && ko == .seq then A
       else if ms && kv == .set && ko == .set then B
       else if kv == .mapping || ko == .mapping then .error .mapping
       else if ms && (kv == .set || ko == .set) then .error .set
       else if ml && (kv == .seq || ko == .seq) then .error .sequence
       else C) = .error e
    | .recurse => False := by
  cases kv <;> cases ko <;> cases ml <;> cases ms <;> simp [expect] at *

/-- the `elif` chain of `_merge_data_trees` computes the decision table -/
theorem mergeLeaf_table (ml ms : Bool) (v ov : Val) (h : ¬(v.kind = .mapping ∧ ov.kind = .mapping)) :
    match expect ml ms v.kind ov.kind with
    | .append => mergeLeaf ml ms v ov = .ok (.list (appendUnseen v.elems ov.elems))
    | .union => mergeLeaf ml ms v ov = .ok (.set (appendUnseen v.elems ov.elems))
    | .override => mergeLeaf ml ms v ov = .ok ov
    | .conflict => ∃ e, mergeLeaf ml ms v ov = .error e
    | .recurse => False :=
  leaf_table_aux ml ms v.kind ov.kind _ _ _ h

/-! ### composite: notions used to state the fold theorems -/

/-- left fold of the merge over a list of trees, starting from `d` (`List.foldlM` in `Except`) -/
def mergeFold (ml ms : Bool) : Dict → List Dict → Except TypeError Dict
  | d, [] => .ok d
  | d, x :: xs =>
    match mergeDict ml ms d x with
    | .ok d' => mergeFold ml ms d' xs
    | .error e => .error e

theorem mergeFold_eq_foldlM (ml ms : Bool) (d : Dict) (xs : List Dict) :
    mergeFold ml ms d xs = xs.foldlM (mergeDict ml ms) d := by
  induction xs generalizing d with
  | nil => rfl
  | cons x xs ih =>
    simp only [mergeFold, List.foldlM_cons]
    cases h : mergeDict ml ms d x with
    | ok d' => simp only [ih]; rfl
    | error e => rfl

/-- the composite version after constituents with versions `vs`, starting from `v0`:
`aggregate_version([… aggregate_version([aggregate_version([v0, v1]), v2]) …, vn])` -/
def versionFold (H : String → String) (v0 : String) (vs : List String) : String :=
  vs.foldl (fun p n => aggregateVersion H [p, n]) v0

/-- what the sources answered during a composite run, in order (the run stops at the first
source that raises, and after the first answer that cannot be merged) -/
def compositeOuts (H : String → String) (ml ms : Bool) :
    List Source → String → Dict → String → List (Dict × String)
  | [], _, _, _ => []
  | s :: rest, sid, pd, pv =>
    match s.getData sid pd pv with
    | .error _ => []
    | .ok (nd, nv) =>
      (nd, nv) ::
        (match mergeDict ml ms pd nd with
         | .error _ => []
         | .ok pd' => compositeOuts H ml ms rest sid pd' (aggregateVersion H [pv, nv]))

/-! ### version strings -/

/-- the version does not contain the separator `|` -/
def sepFree (s : String) : Prop := '|' ∉ s.toList

theorem split_last {α : Type} {c : α} {xs xs' ys ys' : List α} (h : xs ++ c :: ys = xs' ++ c :: ys')
    (hy : c ∉ ys) (hy' : c ∉ ys') : xs = xs' ∧ ys = ys' := by
  induction xs generalizing xs' with
  | nil =>
    cases xs' with
    | nil => simp at h; exact ⟨rfl, h⟩
    | cons x t =>
      simp only [List.nil_append, List.cons_append, List.cons.injEq] at h
      exact absurd (by rw [h.2]; simp) hy
  | cons x t ih =>
    cases xs' with
    | nil =>
      simp only [List.nil_append, List.cons_append, List.cons.injEq] at h
      exact absurd (by rw [← h.2]; simp) hy'
    | cons x' t' =>
      simp only [List.cons_append, List.cons.injEq] at h
      obtain ⟨h1, h2⟩ := ih h.2
      exact ⟨by rw [h.1, h1], h2⟩

theorem split_first {α : Type} {c : α} {xs xs' ys ys' : List α} (h : xs ++ c :: ys = xs' ++ c :: ys')
    (hx : c ∉ xs) (hx' : c ∉ xs') : xs = xs' ∧ ys = ys' := by
  induction xs generalizing xs' with
  | nil =>
    cases xs' with
    | nil => simp at h; exact ⟨rfl, h⟩
    | cons x t =>
      simp only [List.nil_append, List.cons_append, List.cons.injEq] at h
      exact absurd (by rw [h.1]; simp) hx'
  | cons x t ih =>
    cases xs' with
    | nil =>
      simp only [List.nil_append, List.cons_append, List.cons.injEq] at h
      exact absurd (by rw [← h.1]; simp) hx
    | cons x' t' =>
      simp only [List.cons_append, List.cons.injEq] at h
      obtain ⟨h1, h2⟩ := ih h.2 (fun hc => hx (by simp [hc])) (fun hc => hx' (by simp [hc]))
      exact ⟨by rw [h.1, h1], h2⟩

theorem sep_toList : ("|" : String).toList = ['|'] := by decide

theorem join2_inj {p n p' n' : String} (h : p ++ "|" ++ n = p' ++ "|" ++ n')
    (hn : sepFree n) (hn' : sepFree n') : p = p' ∧ n = n' := by
  have h' := congrArg String.toList h
  simp only [String.toList_append, sep_toList, List.append_assoc, List.singleton_append] at h'
  obtain ⟨h1, h2⟩ := split_last h' hn hn'
  exact ⟨String.toList_inj.mp h1, String.toList_inj.mp h2⟩

theorem join2_inj_first {p n p' n' : String} (h : p ++ "|" ++ n = p' ++ "|" ++ n')
    (hp : sepFree p) (hp' : sepFree p') : p = p' ∧ n = n' := by
  have h' := congrArg String.toList h
  simp only [String.toList_append, sep_toList, List.append_assoc, List.singleton_append] at h'
  obtain ⟨h1, h2⟩ := split_first h' hp hp'
  exact ⟨String.toList_inj.mp h1, String.toList_inj.mp h2⟩

theorem joinSep_cons2 (v w : String) (rest : List String) :
    joinSep (v :: w :: rest) = v ++ "|" ++ joinSep (w :: rest) := rfl

end Vinegar.Merge
