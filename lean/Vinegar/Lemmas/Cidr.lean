import Vinegar.Spec.Cidr
/-
Helper lemmas for C05: bit strings of bytes, the per-byte mask fact, prefixes of bit strings,
what a successful parse guarantees.
-/
namespace Vinegar.C05
open Vinegar Vinegar.Cidr Vinegar.Generated

/-! ### literals read from the code (a change breaks exactly these) -/
theorem netmask_regexp : CIDR_NETMASK_REGEXP = "[0-9]+" := by decide
theorem smart_dict_re_int : CIDR_SMART_DICT_RE_INT = "[0-9]+" := by decide
theorem bound_ops : CIDR_NETMASK_BOUND_OP_V4 = "Gt" ∧ CIDR_NETMASK_BOUND_OP_V6 = "Gt" := by decide
theorem netmask_split : CIDR_NETMASK_SEPARATOR = "/" ∧ CIDR_NETMASK_MAXSPLIT = 1 := by decide
theorem netmask_max : CIDR_NETMASK_MAX_V4 = 32 ∧ CIDR_NETMASK_MAX_V6 = 128 := by decide
theorem netmask_default : CIDR_NETMASK_DEFAULT_V4 = 32 ∧ CIDR_NETMASK_DEFAULT_V6 = 128 := by decide
theorem mapped_prefix : CIDR_MAPPED_PREFIX = [0, 0, 0, 0, 0, 0, 0, 0, 0, 0, 255, 255] ∧ CIDR_MAPPED_V4_TAIL = 4 := by decide
theorem actions : CIDR_DS_ERROR_ACTIONS = ["error", "ignore", "warn"] ∧ CIDR_NO_RESULT_ACTIONS = ["continue", "not_found"] := by
  decide

theorem byteMask_eq (r : Nat) : byteMask r = 256 - (1 <<< (8 - r)) := rfl

def ofBits (l : List Bool) : Nat := l.foldl (fun a b => 2 * a + b.toNat) 0

def bitsOfNat (x : Nat) : List Bool :=
  [x.testBit 7, x.testBit 6, x.testBit 5, x.testBit 4, x.testBit 3, x.testBit 2, x.testBit 1, x.testBit 0]

theorem mask_facts : ∀ r, r < 8 → ∀ x, x < 256 →
    (x &&& (256 - (1 <<< (8 - r))) = ofBits ((bitsOfNat x).take r ++ List.replicate (8 - r) false)
     ∧ (bitsOfNat (x &&& (256 - (1 <<< (8 - r))))).take r = (bitsOfNat x).take r) := by
  decide +kernel

theorem ofBits_bitsOfNat : ∀ x, x < 256 → ofBits (bitsOfNat x) = x := by decide +kernel

theorem byteBits_eq (x : UInt8) : byteBits x = bitsOfNat x.toNat := rfl
theorem byteBits_length (x : UInt8) : (byteBits x).length = 8 := rfl

theorem byteBits_inj {a b : UInt8} (h : byteBits a = byteBits b) : a = b := by
  have h2 := congrArg ofBits h
  rw [byteBits_eq, byteBits_eq, ofBits_bitsOfNat _ a.toNat_lt, ofBits_bitsOfNat _ b.toNat_lt] at h2
  exact UInt8.toNat_inj.mp h2

theorem bitsOf_cons (x : UInt8) (t : Bytes) : bitsOf (x :: t) = byteBits x ++ bitsOf t := by
  simp [bitsOf]

theorem bitsOf_append (a b : Bytes) : bitsOf (a ++ b) = bitsOf a ++ bitsOf b := by
  simp [bitsOf]

theorem bitsOf_length (l : Bytes) : (bitsOf l).length = 8 * l.length := by
  induction l with
  | nil => rfl
  | cons x t ih => rw [bitsOf_cons, List.length_append, ih, byteBits_length, List.length_cons]; omega

theorem bitsOf_inj : ∀ (a b : Bytes), a.length = b.length → bitsOf a = bitsOf b → a = b := by
  intro a
  induction a with
  | nil => intro b hl _; cases b with
    | nil => rfl
    | cons _ _ => simp at hl
  | cons x t ih =>
    intro b hl h
    cases b with
    | nil => simp at hl
    | cons y u =>
      rw [bitsOf_cons, bitsOf_cons] at h
      have := List.append_inj h (by rw [byteBits_length, byteBits_length])
      rw [byteBits_inj this.1, ih u (by simpa using hl) this.2]

theorem take_bitsOf (l : Bytes) (w r : Nat) (hw : w ≤ l.length) :
    (bitsOf l).take (8 * w + r) = bitsOf (l.take w) ++ (bitsOf (l.drop w)).take r := by
  conv => lhs; rw [← List.take_append_drop w l, bitsOf_append]
  have hl : (bitsOf (l.take w)).length = 8 * w := by
    rw [bitsOf_length, List.length_take]; omega
  rw [List.take_append, hl]
  rw [List.take_of_length_le (by omega)]
  congr 2
  omega

/-- the bit-level meaning of the masked comparison of the partial byte -/
theorem partial_byte (a b : UInt8) (r : Nat) (hr : r < 8) :
    ((a.toNat &&& byteMask r) = (b.toNat &&& byteMask r)) ↔ (byteBits a).take r = (byteBits b).take r := by
  rw [byteMask_eq, byteBits_eq, byteBits_eq]
  have fa := mask_facts r hr a.toNat a.toNat_lt
  have fb := mask_facts r hr b.toNat b.toNat_lt
  constructor
  · intro h
    rw [← fa.2, ← fb.2, h]
  · intro h
    rw [fa.1, fb.1, h]


/-! ### typed collections -/

theorem mem_strsOf {s : String} {l : List Cand} : s ∈ strsOf l ↔ Cand.str s ∈ l := by
  induction l with
  | nil => simp [strsOf]
  | cons c t ih =>
    cases c with
    | str x => simp [strsOf, ih]
    | bad h r => simp [strsOf, ih]

theorem mem_dedup {c : Cand} {l : List Cand} : c ∈ dedup l ↔ c ∈ l := by
  induction l with
  | nil => simp [dedup]
  | cons x t ih =>
    unfold dedup
    by_cases hx : x ∈ t
    · rw [if_pos hx, ih]
      constructor
      · intro h; exact List.mem_cons_of_mem _ h
      · intro h
        rcases List.mem_cons.mp h with rfl | h
        · exact hx
        · exact h
    · rw [if_neg hx]; simp [ih]

end Vinegar.C05
