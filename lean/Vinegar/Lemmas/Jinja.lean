import Vinegar.Spec.Jinja
/-
Helper lemmas for C17: literal facts about the generated constants, the loaders, the
cache-coherence invariant and the generic "engine render = cache-less render" lemma.
-/
namespace Vinegar.Jinja
open Vinegar

/-! ### generated literals -/

theorem wildcardAll_eq : wildcardAll = ['*'] := by decide
theorem wildcardSuffix_eq : wildcardSuffix = ['.', '*'] := by decide
theorem wildcardStrip_eq : Generated.JINJA_WILDCARD_STRIP = 1 := by decide
theorem parentSeg_eq : parentSeg = ".." := by decide

/-! ### loaders -/

/-- the file a template name denotes under the configured loader -/
def pathOf (cfg : Cfg) (n : Name) : Option Path :=
  match cfg.root with
  | some r => rootPath r n
  | none => some (absPath cfg.cwd n)

theorem getSource_found_iff (cfg : Cfg) (fs : FS) (n : Name) (t : Tmpl) (s : Nat) :
    getSource cfg fs n = .found t s ↔ ∃ p, pathOf cfg n = some p ∧ fs p = some (t, s) := by
  unfold getSource pathOf
  cases hr : cfg.root with
  | some r =>
    simp only [rootGetSource]
    cases hp : rootPath r n with
    | none => simp
    | some q =>
      simp only [Option.some.injEq, exists_eq_left']
      cases hq : fs q with
      | none => simp
      | some v => obtain ⟨t', s'⟩ := v; simp
  | none =>
    simp only [plainGetSource, Option.some.injEq, exists_eq_left']
    cases hq : fs (absPath cfg.cwd n) with
    | none => simp only [reduceCtorEq, iff_false]; split <;> simp
    | some v => obtain ⟨t', s'⟩ := v; simp

theorem upToDate_found (cfg : Cfg) (fs : FS) (n : Name) (s : Nat) (h : upToDate cfg fs n s = true) :
    ∃ t, getSource cfg fs n = .found t s := by
  have key : ∀ p, (stampAt fs p == some s) = true → ∃ t, fs p = some (t, s) := by
    intro p hp
    unfold stampAt at hp
    cases hq : fs p with
    | none => simp [hq] at hp
    | some v =>
      obtain ⟨t', s'⟩ := v
      simp [hq] at hp
      exact ⟨t', by rw [hp]⟩
  unfold upToDate at h
  cases hr : cfg.root with
  | none =>
    cases hc : cfg.cacheEnabled with
    | false => simp [hr, hc] at h
    | true =>
      simp only [hr, hc] at h
      obtain ⟨t, ht⟩ := key _ h
      exact ⟨t, (getSource_found_iff cfg fs n t s).2 ⟨_, by simp [pathOf, hr], ht⟩⟩
  | some r =>
    cases hc : cfg.cacheEnabled with
    | false => simp [hr, hc] at h
    | true =>
      simp only [hr, hc] at h
      cases hp : rootPath r n with
      | none => simp [hp] at h
      | some q =>
        simp only [hp] at h
        obtain ⟨t, ht⟩ := key _ h
        exact ⟨t, (getSource_found_iff cfg fs n t s).2 ⟨q, by simp [pathOf, hr, hp], ht⟩⟩

theorem upToDate_nocache (cfg : Cfg) (fs : FS) (n : Name) (s : Nat) (h : cfg.cacheEnabled = false) :
    upToDate cfg fs n s = false := by
  unfold upToDate
  cases hr : cfg.root <;> simp [h]

/-! ### cache coherence -/

/-- a cached template whose captured stamp is the file's current stamp has the file's content -/
def Coh (cfg : Cfg) (fs : FS) (c : Cache) : Prop :=
  ∀ n t s, c n = some (t, s) → ∀ t', getSource cfg fs n = .found t' s → t' = t

/-- all stamps below `b` -/
def FsBelow (b : Nat) (fs : FS) : Prop := ∀ p t s, fs p = some (t, s) → s < b
def CacheBelow (b : Nat) (c : Cache) : Prop := ∀ n t s, c n = some (t, s) → s < b

theorem coh_empty (cfg : Cfg) (fs : FS) : Coh cfg fs Cache.empty := by
  intro n t s h; simp [Cache.empty] at h

theorem loadTemplate_fst (cfg : Cfg) (fs : FS) (c : Cache) (n : Name) :
    (loadTemplate cfg fs c n).1 = (getSource cfg fs n).toExcept := by
  unfold loadTemplate
  cases getSource cfg fs n <;> rfl

theorem loadTemplate_coh (cfg : Cfg) (fs : FS) (c : Cache) (n : Name) (h : Coh cfg fs c) :
    Coh cfg fs (loadTemplate cfg fs c n).2 := by
  unfold loadTemplate
  cases hs : getSource cfg fs n with
  | found t s =>
    intro m t0 s0 hm t' hsrc
    simp only [Cache.set] at hm
    by_cases hmn : m = n
    · subst hmn
      simp only [if_true, Option.some.injEq, Prod.mk.injEq] at hm
      rw [hs] at hsrc
      cases hsrc
      exact hm.1
    · simp only [hmn, if_false] at hm
      exact h m t0 s0 hm t' hsrc
  | notFound => exact h
  | notADir => exact h

theorem loadTemplate_below (cfg : Cfg) (fs : FS) (c : Cache) (n : Name) (b : Nat)
    (hf : FsBelow b fs) (h : CacheBelow b c) : CacheBelow b (loadTemplate cfg fs c n).2 := by
  unfold loadTemplate
  cases hs : getSource cfg fs n with
  | found t s =>
    intro m t0 s0 hm
    simp only [Cache.set] at hm
    by_cases hmn : m = n
    · simp only [hmn, if_true, Option.some.injEq, Prod.mk.injEq] at hm
      obtain ⟨p, _, hp⟩ := (getSource_found_iff cfg fs n t s).1 hs
      rw [← hm.2]
      exact hf p t s hp
    · simp only [hmn, if_false] at hm
      exact h m t0 s0 hm
  | notFound => exact h
  | notADir => exact h

/-- with a coherent cache `Environment._load_template` hands out the current file content -/
theorem getTemplate_coh (cfg : Cfg) (fs : FS) (c : Cache) (n : Name) (h : Coh cfg fs c) :
    (getTemplate cfg fs c n).1 = (getSource cfg fs n).toExcept ∧ Coh cfg fs (getTemplate cfg fs c n).2 := by
  unfold getTemplate
  cases hc : c n with
  | none => exact ⟨loadTemplate_fst cfg fs c n, loadTemplate_coh cfg fs c n h⟩
  | some v =>
    obtain ⟨t, s⟩ := v
    simp only
    by_cases hu : upToDate cfg fs n s = true
    · simp only [hu, if_true]
      obtain ⟨t', ht'⟩ := upToDate_found cfg fs n s hu
      have := h n t s hc t' ht'
      subst this
      exact ⟨by rw [ht']; rfl, h⟩
    · simp only [hu]
      exact ⟨loadTemplate_fst cfg fs c n, loadTemplate_coh cfg fs c n h⟩

theorem getTemplate_below (cfg : Cfg) (fs : FS) (c : Cache) (n : Name) (b : Nat)
    (hf : FsBelow b fs) (h : CacheBelow b c) : CacheBelow b (getTemplate cfg fs c n).2 := by
  unfold getTemplate
  cases hc : c n with
  | none => exact loadTemplate_below cfg fs c n b hf h
  | some v =>
    obtain ⟨t, s⟩ := v
    simp only
    split
    · exact h
    · exact loadTemplate_below cfg fs c n b hf h

/-- with `cache_enabled = False` every `get_template` reloads, whatever the cache holds -/
theorem getTemplate_nocache (cfg : Cfg) (fs : FS) (c : Cache) (n : Name) (h : cfg.cacheEnabled = false) :
    (getTemplate cfg fs c n).1 = (getSource cfg fs n).toExcept := by
  unfold getTemplate
  cases hc : c n with
  | none => exact loadTemplate_fst cfg fs c n
  | some v =>
    obtain ⟨t, s⟩ := v
    simp only [upToDate_nocache cfg fs n s h]
    exact loadTemplate_fst cfg fs c n

/-! ### engine render = cache-less render, for any invariant the cache lookups preserve -/

theorem lookupVar_merge (base caller : Ctx) (x : String) :
    lookupVar (mergeCtx base caller) x = refLookup base caller x := by
  unfold lookupVar mergeCtx refLookup
  induction base with
  | nil =>
    simp only [List.nil_append, List.lookup_nil]
    cases caller.lookup x <;> rfl
  | cons p rest ih =>
    obtain ⟨k, v⟩ := p
    simp only [List.cons_append, List.lookup_cons]
    cases hk : x == k with
    | true => rfl
    | false => exact ih

/-- an invariant on caches that `getTemplate` preserves and under which it returns file content -/
structure GoodInv (cfg : Cfg) (fs : FS) (I : Cache → Prop) : Prop where
  get : ∀ c n, I c → (getTemplate cfg fs c n).1 = (getSource cfg fs n).toExcept ∧ I (getTemplate cfg fs c n).2

theorem renderNodes_generic (cfg : Cfg) (I : Cache → Prop)
    (sub : Bool → Name → Ctx → Cache → Outcome × Cache) (subRef : Bool → Name → Ctx → Ctx → Outcome)
    (hsub : ∀ o t base caller c, I c →
      (sub o t (mergeCtx base caller) c).1 = subRef o t base caller ∧ I (sub o t (mergeCtx base caller) c).2) :
    ∀ (nodes : List Node) (base caller : Ctx) (c : Cache), I c →
      (renderNodes cfg sub (mergeCtx base caller) nodes c).1 = refNodes cfg subRef base caller nodes ∧
      I (renderNodes cfg sub (mergeCtx base caller) nodes c).2 := by
  intro nodes
  induction nodes with
  | nil => intro base caller c hc; exact ⟨rfl, hc⟩
  | cons n rest ih =>
    intro base caller c hc
    have tail : ∀ (s : String) (c1 : Cache), I c1 →
        ((renderNodes cfg sub (mergeCtx base caller) rest c1).1.map (s ++ ·) =
          (refNodes cfg subRef base caller rest).map (s ++ ·)) ∧
        I (renderNodes cfg sub (mergeCtx base caller) rest c1).2 := by
      intro s c1 h1
      obtain ⟨e1, e2⟩ := ih base caller c1 h1
      exact ⟨by rw [e1], e2⟩
    cases n with
    | text s =>
      simp only [renderNodes, refNodes]
      exact tail s c hc
    | var x =>
      simp only [renderNodes, refNodes, lookupVar_merge]
      exact tail _ c hc
    | py key =>
      simp only [renderNodes, refNodes]
      cases pyGet cfg.allow cfg.modules key with
      | error e => exact ⟨rfl, hc⟩
      | ok s => exact tail s c hc
    | incl t =>
      simp only [renderNodes, refNodes]
      obtain ⟨e1, e2⟩ := hsub false t base caller c hc
      rw [← e1]
      cases hr : (sub false t (mergeCtx base caller) c).1 with
      | error e => exact ⟨rfl, e2⟩
      | ok s => exact tail s _ e2
    | inclOpt t =>
      simp only [renderNodes, refNodes]
      obtain ⟨e1, e2⟩ := hsub true t base caller c hc
      rw [← e1]
      cases hr : (sub true t (mergeCtx base caller) c).1 with
      | error e => exact ⟨rfl, e2⟩
      | ok s => exact tail s _ e2
    | imp t =>
      simp only [renderNodes, refNodes]
      obtain ⟨e1, e2⟩ := hsub false t [] [] c hc
      have hm : mergeCtx [] [] = [] := rfl
      rw [hm] at e1 e2
      rw [← e1]
      cases hr : (sub false t [] c).1 with
      | error e => exact ⟨rfl, e2⟩
      | ok s => exact tail s _ e2

theorem renderTemplate_generic (cfg : Cfg) (fs : FS) (I : Cache → Prop) (hI : GoodInv cfg fs I) :
    ∀ (fuel : Nat) (opt : Bool) (name : Name) (base caller : Ctx) (c : Cache), I c →
      (renderTemplate cfg fs fuel opt name (mergeCtx base caller) c).1 = renderRef cfg fs fuel opt name base caller ∧
      I (renderTemplate cfg fs fuel opt name (mergeCtx base caller) c).2 := by
  intro fuel
  induction fuel with
  | zero => intro opt name base caller c hc; exact ⟨rfl, hc⟩
  | succ fuel ih =>
    intro opt name base caller c hc
    obtain ⟨g1, g2⟩ := hI.get c name hc
    simp only [renderTemplate, renderRef]
    rw [← g1]
    rcases hg : getTemplate cfg fs c name with ⟨r, c'⟩
    rw [hg] at g2
    cases r with
    | error e => exact ⟨rfl, g2⟩
    | ok t =>
      simp only
      exact renderNodes_generic cfg I _ _
        (fun o t' b cl c'' h'' => ih o (joinPath cfg.relative t' name) b cl c'' h'') t base caller c' g2

theorem goodInv_coh (cfg : Cfg) (fs : FS) : GoodInv cfg fs (Coh cfg fs) :=
  ⟨fun c n h => getTemplate_coh cfg fs c n h⟩

theorem goodInv_valid (cfg : Cfg) (fs : FS) (b : Nat) (hf : FsBelow b fs) :
    GoodInv cfg fs (fun c => Coh cfg fs c ∧ CacheBelow b c) :=
  ⟨fun c n h => ⟨(getTemplate_coh cfg fs c n h.1).1,
    (getTemplate_coh cfg fs c n h.1).2, getTemplate_below cfg fs c n b hf h.2⟩⟩

theorem goodInv_nocache (cfg : Cfg) (fs : FS) (h : cfg.cacheEnabled = false) :
    GoodInv cfg fs (fun _ => True) :=
  ⟨fun c n _ => ⟨getTemplate_nocache cfg fs c n h, trivial⟩⟩

/-! ### paths -/

/-- an ordinary path segment -/
def Proper (x : String) : Prop := x ≠ "" ∧ x ≠ "." ∧ x ≠ ".."

theorem normStep_proper (abs : Bool) (acc : List String) (x : String) (h : Proper x) :
    normStep abs acc x = x :: acc := by
  obtain ⟨h1, h2, h3⟩ := h
  simp [normStep, h1, h2, h3]

theorem normStep_up (abs : Bool) (top : String) (rest : List String) (h : Proper top) :
    normStep abs (top :: rest) ".." = rest := by
  obtain ⟨_, _, h3⟩ := h
  simp [normStep, h3]

theorem normStep_empty (abs : Bool) (acc : List String) : normStep abs acc "" = acc := by
  simp [normStep]

theorem foldl_proper (abs : Bool) (xs : List String) (hx : ∀ x ∈ xs, Proper x) :
    ∀ acc, xs.foldl (normStep abs) acc = xs.reverse ++ acc := by
  induction xs with
  | nil => intro acc; rfl
  | cons x rest ih =>
    intro acc
    simp only [List.foldl_cons, List.reverse_cons, List.append_assoc, List.singleton_append]
    rw [normStep_proper abs acc x (hx x (by simp))]
    exact ih (fun y hy => hx y (by simp [hy])) _

theorem foldl_ups (abs : Bool) (k : Nat) :
    ∀ acc : List String, k ≤ acc.length → (∀ x ∈ acc, Proper x) →
      (List.replicate k "..").foldl (normStep abs) acc = acc.drop k := by
  induction k with
  | zero => intro acc _ _; rfl
  | succ k ih =>
    intro acc hk hp
    cases acc with
    | nil => simp at hk
    | cons top rest =>
      simp only [List.replicate_succ, List.foldl_cons, List.drop_succ_cons]
      rw [normStep_up abs top rest (hp top (by simp))]
      exact ih rest (by simpa using hk) (fun x hx => hp x (by simp [hx]))

/-- normalising `dir/file/../(..)^k/rest`: the file name and `k` directories are dropped -/
theorem normSegs_relative (abs : Bool) (ds ss : List String) (f : String) (k : Nat)
    (hds : ∀ x ∈ ds, Proper x) (hf : Proper f) (hss : ∀ x ∈ ss, Proper x) (hk : k ≤ ds.length) :
    normSegs abs (ds ++ [f] ++ [".."] ++ List.replicate k ".." ++ ss) = ds.take (ds.length - k) ++ ss := by
  unfold normSegs
  simp only [List.foldl_append, List.foldl_cons, List.foldl_nil]
  rw [foldl_proper abs ds hds, normStep_proper abs _ f hf, normStep_up abs f _ hf]
  rw [foldl_ups abs k _ (by simpa using hk) (by
    intro x hx; simp only [List.append_nil, List.mem_reverse] at hx; exact hds x hx)]
  rw [foldl_proper abs ss hss]
  simp only [List.append_nil, List.reverse_append, List.reverse_reverse, List.drop_reverse, List.reverse_reverse]

/-- `os.path.join(a, b)` for a relative `b` and an `a` that does not end with a slash -/
theorem pyJoin_plain (a b : Name) (hb : isAbs b = false) (hl : a.getLast? ≠ some "") :
    pyJoin a b = a ++ b := by
  have ha : (a == [""]) = false := by
    rw [beq_eq_false_iff_ne]
    intro h; apply hl; rw [h]; rfl
  unfold pyJoin
  simp [hb, ha, hl]

theorem getLast?_snoc_ne (pre : List String) (x : String) (hx : x ≠ "") :
    (pre ++ [x]).getLast? ≠ some "" := by
  simp [hx]

theorem splitTemplatePath_some (n : Name) (pieces : List String) (h : splitTemplatePath n = some pieces) :
    ∀ x ∈ pieces, Proper x := by
  unfold splitTemplatePath at h
  split at h
  · simp at h
  · rename_i hany
    simp only [Option.some.injEq] at h
    subst h
    intro x hx
    simp only [List.mem_filter, Bool.not_eq_eq_eq_not, Bool.not_true, Bool.or_eq_false_iff,
      beq_eq_false_iff_ne, ne_eq] at hx
    refine ⟨hx.2.1, hx.2.2, ?_⟩
    intro hdd
    apply hany
    simp only [List.any_eq_true, beq_iff_eq]
    exact ⟨x, hx.1, hdd⟩

/-! ### allow-list -/

theorem take_wild (pkg : Str) :
    (pkg ++ ['.', '*']).take ((pkg ++ ['.', '*']).length - 1) = pkg ++ ['.'] := by
  have : (pkg ++ ['.', '*']).length - 1 = pkg.length + 1 := by simp
  rw [this]
  have h2 : pkg ++ ['.', '*'] = (pkg ++ ['.']) ++ ['*'] := by simp
  rw [h2, List.take_left' (by simp)]

/-- what one allow-list entry admits -/
theorem entryAllows_iff (e m : Str) :
    entryAllows e m = true ↔
      e = ['*'] ∨ e = m ∨ ∃ pkg rest, e = pkg ++ ['.', '*'] ∧ m = pkg ++ '.' :: rest := by
  unfold entryAllows
  rw [wildcardAll_eq, wildcardSuffix_eq, wildcardStrip_eq]
  by_cases h1 : e = ['*']
  · simp [h1]
  · simp only [beq_iff_eq, h1, if_false, false_or]
    by_cases h2 : (['.', '*'] : Str).isSuffixOf e = true
    · simp only [h2, if_true]
      obtain ⟨pkg, hp⟩ := List.isSuffixOf_iff_suffix.1 h2
      subst hp
      rw [take_wild, List.isPrefixOf_iff_prefix]
      constructor
      · rintro ⟨rest, hr⟩
        exact Or.inr ⟨pkg, rest, rfl, by rw [← hr]; simp⟩
      · rintro (h | ⟨pkg', rest, hp', hm⟩)
        · exact ⟨['*'], by rw [← h]; simp⟩
        · have : pkg = pkg' := List.append_cancel_right hp'
          subst this
          exact ⟨rest, by rw [hm]; simp⟩
    · simp only [h2, Bool.false_eq_true, if_false]
      constructor
      · intro h; exact Or.inl (eq_of_beq h)
      · rintro (h | ⟨pkg, rest, hp, _⟩)
        · exact beq_iff_eq.2 h
        · exfalso
          apply h2
          rw [List.isSuffixOf_iff_suffix]
          exact ⟨pkg, hp.symm⟩

theorem dropWildcard_eq_some (e pkg : Str) : dropWildcard e = some pkg ↔ e = pkg ++ ['.', '*'] := by
  unfold dropWildcard
  constructor
  · intro h
    split at h
    · rename_i r hr
      simp only [Option.some.injEq] at h
      subst h
      have := congrArg List.reverse hr
      simpa using this
    · simp at h
  · intro h
    subst h
    simp

theorem dropWildcard_eq_none (e : Str) (h : dropWildcard e = none) : ∀ pkg, e ≠ pkg ++ ['.', '*'] := by
  intro pkg hp
  rw [(dropWildcard_eq_some e pkg).2 hp] at h
  cases h

theorem entryRef_iff (e m : Str) :
    entryRef e m = true ↔
      e = ['*'] ∨ e = m ∨ ∃ pkg rest, e = pkg ++ ['.', '*'] ∧ m = pkg ++ '.' :: rest := by
  unfold entryRef
  simp only [Bool.or_eq_true, beq_iff_eq, or_assoc]
  refine or_congr Iff.rfl (or_congr Iff.rfl ?_)
  cases hd : dropWildcard e with
  | none =>
    simp only [Bool.false_eq_true, false_iff, not_exists, not_and]
    intro pkg rest hp
    exact absurd hp (dropWildcard_eq_none e hd pkg)
  | some pkg =>
    have he := (dropWildcard_eq_some e pkg).1 hd
    simp only [List.isPrefixOf_iff_prefix]
    constructor
    · rintro ⟨rest, hr⟩
      exact ⟨pkg, rest, he, by rw [← hr]; simp⟩
    · rintro ⟨pkg', rest, hp', hm⟩
      have : pkg = pkg' := List.append_cancel_right (he.symm.trans hp')
      subst this
      exact ⟨rest, by rw [hm]; simp⟩

/-- the decision cache only ever holds decisions of the uncached rule -/
def CacheOK (h : Helper) : Prop := ∀ m a, h.cache.lookup m = some a → a = scanAllow h.allow m

theorem checkAccess_ok (h : Helper) (hc : CacheOK h) (m : Str) :
    (checkAccess h m).1 = scanAllow h.allow m ∧ CacheOK (checkAccess h m).2 ∧
      (checkAccess h m).2.allow = h.allow := by
  unfold checkAccess
  cases hl : h.cache.lookup m with
  | some a => exact ⟨hc m a hl, hc, rfl⟩
  | none =>
    refine ⟨rfl, ?_, rfl⟩
    intro m' a' hl'
    simp only [List.lookup_cons] at hl'
    cases hm : m' == m with
    | true =>
      simp only [hm, Option.some.injEq] at hl'
      rw [← hl', eq_of_beq hm]
    | false =>
      simp only [hm] at hl'
      split at hl'
      · simp at hl'
      · exact hc m' a' hl'

end Vinegar.Jinja
