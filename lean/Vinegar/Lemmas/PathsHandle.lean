import Vinegar.Spec.Paths
/-
Closed forms of `_handle`: the lookup part as a function of what the transformed value
identifies, and every way the whole method can end.
-/
namespace Vinegar.Paths
open Vinegar Vinegar.Paths.Spec

/-- the system a transformed value identifies: the value itself for ":system_id:", else what
    `find_system(lookup_key, value)` answers (`none`: the call raised) -/
def systemFor (h : Handler) (env : Env) (w : Str) : Option (Option Str) :=
  if h.cfg.lookupKey.getD [] = sysIdKey then some (some w) else env.ds.findSystem (h.cfg.lookupKey.getD []) w

/-- the `find_system` calls of one request -/
def findCalls (h : Handler) (w : Str) : List Call :=
  if h.cfg.lookupKey.getD [] = sysIdKey then [] else [.findSystem (h.cfg.lookupKey.getD []) w]

/-- data is fetched only if something will use it -/
def needsData (h : Handler) : Bool := truthy h.cfg.clientAddressKey || h.cfg.template

theorem handleLookup_plain (h : Handler) (env : Env) (ctx : Ctx) (hex : h.extract = false) :
    handleLookup h env ctx = { calls := [], result := some (none, none) } := by
  unfold handleLookup; simp [hex]

theorem handleLookup_raise (h : Handler) (env : Env) (ctx : Ctx) (v : Str) (hex : h.extract = true)
    (hraw : ctx.rawValue = some v) (htr : env.transform v = none) :
    handleLookup h env ctx = { calls := [], result := none } := by
  unfold handleLookup; simp [hex, hraw, htr]

theorem handleLookup_eq (h : Handler) (env : Env) (ctx : Ctx) (v w : Str) (hex : h.extract = true)
    (hraw : ctx.rawValue = some v) (htr : env.transform v = some w) :
    handleLookup h env ctx =
      match systemFor h env w with
      | none =>
        { calls := findCalls h w,
          result := if h.cfg.dsErrorAction = actionError then none else some (none, none) }
      | some none => { calls := findCalls h w, result := some (none, none) }
      | some (some sid) =>
        if needsData h = false then { calls := findCalls h w, result := some (some sid, none) }
        else
          match env.ds.getData sid with
          | some d => { calls := findCalls h w ++ [.getData sid], result := some (some sid, some d) }
          | none =>
            { calls := findCalls h w ++ [.getData sid],
              result := if h.cfg.dsErrorAction = actionError then none else some (some sid, none) } := by
  unfold handleLookup systemFor findCalls needsData
  simp only [hex, hraw, htr, Bool.not_true, Bool.false_eq_true, if_false, Option.getD_some]
  by_cases hk : h.cfg.lookupKey.getD [] = sysIdKey
  · simp only [hk, if_true]
    cases hc : truthy h.cfg.clientAddressKey <;> cases ht : h.cfg.template <;>
      cases hd : env.ds.getData w <;> by_cases ha : h.cfg.dsErrorAction = actionError <;> simp [ha, hd]
  · simp only [hk, if_false]
    cases hf : env.ds.findSystem (h.cfg.lookupKey.getD []) w with
    | none => by_cases ha : h.cfg.dsErrorAction = actionError <;> simp [ha]
    | some r =>
      cases r with
      | none => simp
      | some sid =>
        cases hc : truthy h.cfg.clientAddressKey <;> cases ht : h.cfg.template <;>
          cases hd : env.ds.getData sid <;> by_cases ha : h.cfg.dsErrorAction = actionError <;> simp [ha, hd]

/-- every way `_handle` can end, in closed form -/
theorem handleCore_cases (h : Handler) (env : Env) (ctx : Ctx) :
    ((handleLookup h env ctx).result = none ∧
      handleCore h env ctx = { calls := (handleLookup h env ctx).calls, opens := [], outcome := .internalError }) ∨
    (∃ sid data, (handleLookup h env ctx).result = some (sid, data) ∧ accessAllowed h env sid data = false ∧
      handleCore h env ctx = { calls := (handleLookup h env ctx).calls, opens := [], outcome := .forbidden }) ∨
    (∃ sid data, (handleLookup h env ctx).result = some (sid, data) ∧ accessAllowed h env sid data = true ∧
      (targetFile h ctx = none ∨ (h.extract && h.cfg.noResultAction != continueAction && sid.isNone) = true) ∧
      handleCore h env ctx = { calls := (handleLookup h env ctx).calls, opens := [], outcome := .notFound }) ∨
    (∃ sid data q, (handleLookup h env ctx).result = some (sid, data) ∧ accessAllowed h env sid data = true ∧
      (h.extract && h.cfg.noResultAction != continueAction && sid.isNone) = false ∧
      targetFile h ctx = some q ∧ (∀ c, openPath env.fs q ≠ .content c) ∧
      handleCore h env ctx = { calls := (handleLookup h env ctx).calls, opens := [q], outcome := .notFound }) ∨
    (∃ sid data q c, (handleLookup h env ctx).result = some (sid, data) ∧ accessAllowed h env sid data = true ∧
      (h.extract && h.cfg.noResultAction != continueAction && sid.isNone) = false ∧
      targetFile h ctx = some q ∧ openPath env.fs q = .content c ∧
      handleCore h env ctx = { calls := (handleLookup h env ctx).calls, opens := [q], outcome := (Outcome.served q c
        (if h.cfg.template then some { id := sid, data := data.map (·.token) } else none)) }) := by
  unfold handleCore
  simp only []
  cases hr : (handleLookup h env ctx).result with
  | none => left; exact ⟨rfl, rfl⟩
  | some sd =>
    obtain ⟨sid, data⟩ := sd
    right
    cases ha : accessAllowed h env sid data with
    | false => left; exact ⟨sid, data, rfl, ha, by simp [ha]⟩
    | true =>
      right
      by_cases hc : (h.extract && h.cfg.noResultAction != continueAction && sid.isNone) = true
      · left; exact ⟨sid, data, rfl, ha, Or.inr hc, by simp only [ha, hc]; rfl⟩
      · have hc' : (h.extract && h.cfg.noResultAction != continueAction && sid.isNone) = false :=
          Bool.eq_false_iff.mpr hc
        cases ht : targetFile h ctx with
        | none => left; exact ⟨sid, data, rfl, ha, Or.inl rfl, by simp only [ha, hc']; rfl⟩
        | some q =>
          right
          cases ho : openPath env.fs q with
          | content c =>
            right
            exact ⟨sid, data, q, c, rfl, ha, hc', rfl, ho, by simp only [ha, hc', ho]; rfl⟩
          | enoent => left; exact ⟨sid, data, q, rfl, ha, hc', rfl, by simp [ho], by simp only [ha, hc', ho]; rfl⟩
          | enotdir => left; exact ⟨sid, data, q, rfl, ha, hc', rfl, by simp [ho], by simp only [ha, hc', ho]; rfl⟩
          | eisdir => left; exact ⟨sid, data, q, rfl, ha, hc', rfl, by simp [ho], by simp only [ha, hc', ho]; rfl⟩
          | enametoolong => left; exact ⟨sid, data, q, rfl, ha, hc', rfl, by simp [ho], by simp only [ha, hc', ho]; rfl⟩

end Vinegar.Paths
