import Vinegar.Model.Paths
/-
The constructors of the two handler classes run the same code on the same options; the
protocol flag only travels along (and decides TFTP's extra rejection of "/" in file mode).
-/
namespace Vinegar.Paths
open Vinegar

/-- the same handler state as the other protocol's class -/
def asTftp (h : Handler) (b : Bool) : Handler := { h with cfg := { h.cfg with tftp := b } }

theorem initRequestPath_tftp (cfg : Cfg) (b : Bool) :
    initRequestPath { cfg with tftp := b } = (initRequestPath cfg).map (fun h => asTftp h b) := by
  unfold initRequestPath
  dsimp only
  generalize (if cfg.requestPath = ['/'] then ([] : Str) else cfg.requestPath) = eff
  split
  · rfl
  · split
    · rfl
    · split
      · split
        · split
          · rfl
          · split <;> rfl
        · rfl
      · rfl

theorem initHandler_tftp (cfg : Cfg) (b : Bool)
    (hroot : ¬ (cfg.requestPath = ['/'] ∧ truthy cfg.file = true)) :
    initHandler { cfg with tftp := b } = (initHandler { cfg with tftp := false }).map (fun h => asTftp h b) := by
  unfold initHandler
  rw [initRequestPath_tftp cfg b, initRequestPath_tftp cfg false]
  dsimp only
  have hr : (decide (cfg.requestPath = ['/']) && truthy cfg.file) = false := by
    cases h1 : decide (cfg.requestPath = ['/']) <;> cases h2 : truthy cfg.file <;> simp_all
  split
  · rfl
  · split
    · rfl
    · split
      · rfl
      · split
        · rfl
        · split
          · rfl
          · split
            · rfl
            · cases hi : initRequestPath cfg with
              | error e => rfl
              | ok h =>
                simp only [Except.map, Bool.false_and, Bool.false_eq_true, if_false, Bool.and_assoc, hr, Bool.and_false]
                split <;> rfl

end Vinegar.Paths
