import Vinegar.Lemmas.Merge
/-
Lemmas for the associativity theorems of C13 (`Vinegar.C13.merge_assoc` …):
transitivity of Python equality on nested values, associativity of "append the unseen
elements", the class of a value under the flags (values merge iff their classes agree, and the
merged value has that class again), preservation of the dictionary invariant by the merge,
extensionality of association lists with distinct keys, and the per-key / per-dictionary /
per-value associativity statements that the theorems are assembled from.
-/
namespace Vinegar.Merge

/-! ### Python equality is transitive (no well-formedness needed) -/

theorem lookup_mem_key {k : Key} {d : Dict} {v : Val} (h : lookup k d = some v) :
    ∃ k', (k', v) ∈ d ∧ Key.pyEq k' k = true := by
  induction d with
  | nil => simp [lookup] at h
  | cons kv d ih =>
    obtain ⟨k0, v0⟩ := kv
    simp only [lookup] at h
    by_cases hk : Key.pyEq k0 k = true
    · simp only [hk, if_true, Option.some.injEq] at h
      exact ⟨k0, by simp [h], hk⟩
    · simp only [hk, Bool.false_eq_true, if_false] at h
      obtain ⟨k', hk', he⟩ := ih h
      exact ⟨k', by simp [hk'], he⟩

theorem subsetBy_iff (xs b : List Val) :
    subsetBy xs b = true ↔ ∀ x ∈ xs, ∃ y ∈ b, pyEq x y = true := by
  induction xs with
  | nil => simp [subsetBy]
  | cons x xs ih => simp [subsetBy, ih]

theorem dictSub_iff (a b : Dict) :
    dictSub a b = true ↔ ∀ kv ∈ a, ∃ v', lookup kv.1 b = some v' ∧ pyEq kv.2 v' = true := by
  induction a with
  | nil => simp [dictSub]
  | cons kv a ih =>
    obtain ⟨k, v⟩ := kv
    simp only [dictSub, Bool.and_eq_true, ih, List.mem_cons, forall_eq_or_imp]
    constructor
    · rintro ⟨h1, h2⟩
      refine ⟨?_, h2⟩
      cases hl : lookup k b with
      | none => simp [hl] at h1
      | some v' => simp only [hl] at h1; exact ⟨v', rfl, h1⟩
    · rintro ⟨⟨v', h1, h1'⟩, h2⟩
      exact ⟨by simp [h1, h1'], h2⟩

theorem pyEqList_trans (xs : List Val)
    (ih : ∀ x ∈ xs, ∀ y z, pyEq x y = true → pyEq y z = true → pyEq x z = true) :
    ∀ ys zs, pyEqList xs ys = true → pyEqList ys zs = true → pyEqList xs zs = true := by
  induction xs with
  | nil =>
    intro ys zs h1 h2
    cases ys with
    | nil => exact h2
    | cons _ _ => simp [pyEqList] at h1
  | cons x xs ihx =>
    intro ys zs h1 h2
    cases ys with
    | nil => simp [pyEqList] at h1
    | cons y ys =>
      cases zs with
      | nil => simp [pyEqList] at h2
      | cons z zs =>
        simp only [pyEqList, Bool.and_eq_true] at h1 h2 ⊢
        exact ⟨ih x (by simp) y z h1.1 h2.1,
          ihx (fun x hx => ih x (by simp [hx])) ys zs h1.2 h2.2⟩

/-- `x == y` and `y == z` give `x == z` on all modelled values (`True == 1` included) -/
theorem pyEq_trans : ∀ x y z : Val, pyEq x y = true → pyEq y z = true → pyEq x z = true := by
  intro x
  induction x using Val.induct' with
  | none => intro y z h1 h2; cases y <;> simp [pyEq] at h1; exact h2
  | bool a =>
    intro y z h1 h2
    cases y <;> simp only [pyEq, Bool.false_eq_true] at h1 <;>
      cases z <;> simp only [pyEq, Bool.false_eq_true, beq_iff_eq] at h1 h2 ⊢ <;> grind
  | int a =>
    intro y z h1 h2
    cases y <;> simp only [pyEq, Bool.false_eq_true] at h1 <;>
      cases z <;> simp only [pyEq, Bool.false_eq_true, beq_iff_eq] at h1 h2 ⊢ <;> grind
  | str a => intro y z h1 h2; cases y <;> simp [pyEq] at h1; subst h1; exact h2
  | bytes a => intro y z h1 h2; cases y <;> simp [pyEq] at h1; subst h1; exact h2
  | float a => intro y z h1 h2; cases y <;> simp [pyEq] at h1; subst h1; exact h2
  | list xs ih =>
    intro y z h1 h2
    cases y <;> simp only [pyEq, Bool.false_eq_true] at h1
    cases z <;> simp only [pyEq, Bool.false_eq_true] at h2 ⊢
    exact pyEqList_trans xs ih _ _ h1 h2
  | tuple xs ih =>
    intro y z h1 h2
    cases y <;> simp only [pyEq, Bool.false_eq_true] at h1
    cases z <;> simp only [pyEq, Bool.false_eq_true] at h2 ⊢
    exact pyEqList_trans xs ih _ _ h1 h2
  | set xs ih =>
    intro y z h1 h2
    cases y <;> simp only [pyEq, Bool.false_eq_true] at h1
    cases z <;> simp only [pyEq, Bool.false_eq_true] at h2 ⊢
    rename_i ys zs
    simp only [Bool.and_eq_true, subsetBy_iff, List.all_eq_true, anyL_eq_any, List.any_eq_true] at h1 h2 ⊢
    constructor
    · intro x hx
      obtain ⟨y, hy, hxy⟩ := h1.1 x hx
      obtain ⟨z, hz, hyz⟩ := h2.1 y hy
      exact ⟨z, hz, ih x hx y z hxy hyz⟩
    · intro z hz
      obtain ⟨y, hy, hyz⟩ := h2.2 z hz
      obtain ⟨x, hx, hxy⟩ := h1.2 y hy
      exact ⟨x, hx, ih x hx y z hxy hyz⟩
  | dict a ih =>
    intro y z h1 h2
    cases y <;> simp only [pyEq, Bool.false_eq_true] at h1
    cases z <;> simp only [pyEq, Bool.false_eq_true] at h2 ⊢
    rename_i b c
    simp only [Bool.and_eq_true, beq_iff_eq, dictSub_iff] at h1 h2 ⊢
    refine ⟨h1.1.trans h2.1, ?_⟩
    intro kv hkv
    obtain ⟨v', hl, hv⟩ := h1.2 kv hkv
    obtain ⟨k', hk', hke⟩ := lookup_mem_key hl
    obtain ⟨v'', hl', hv'⟩ := h2.2 (k', v') hk'
    refine ⟨v'', ?_, ih kv hkv v' v'' hv hv'⟩
    rw [← lookup_congr hke c]; exact hl'

/-! ### "append the unseen elements" is associative -/

theorem unseen_append (m X Y : List Val) :
    unseen m (X ++ Y) = unseen m X ++ unseen (m ++ unseen m X) Y := by
  induction X generalizing m with
  | nil => simp [unseen]
  | cons e X ih =>
    simp only [List.cons_append, unseen]
    split
    · exact ih m
    · rw [ih]; simp

/-- dropping from `C` what `B` already has changes nothing for a list `M` that covers `B` -/
theorem unseen_unseen (C : List Val) (hC : ∀ e ∈ C, pyEq e e = true) :
    ∀ M B : List Val, (∀ b ∈ B, pyMem b M = true) → unseen M (unseen B C) = unseen M C := by
  induction C with
  | nil => intro M B _; simp [unseen]
  | cons e C ih =>
    intro M B hB
    have ih' := ih (fun x hx => hC x (by simp [hx]))
    have he : pyEq e e = true := hC e (by simp)
    by_cases h1 : pyMem e B = true
    · have h2 : pyMem e M = true := by
        simp only [pyMem, List.any_eq_true] at h1 ⊢
        obtain ⟨b, hb, hbe⟩ := h1
        have := hB b hb
        simp only [pyMem, List.any_eq_true] at this
        obtain ⟨m, hm, hmb⟩ := this
        exact ⟨m, hm, pyEq_trans m b e hmb hbe⟩
      simp only [unseen, h1, h2, if_true]
      exact ih' M B hB
    · by_cases h2 : pyMem e M = true
      · simp only [unseen, h1, h2, if_true, Bool.false_eq_true, if_false]
        apply ih' M (B ++ [e])
        intro b hb
        rcases List.mem_append.mp hb with hb | hb
        · exact hB b hb
        · simp only [List.mem_singleton] at hb; subst hb; exact h2
      · simp only [unseen, h1, h2, Bool.false_eq_true, if_false]
        congr 1
        apply ih' (M ++ [e]) (B ++ [e])
        intro b hb
        rcases List.mem_append.mp hb with hb | hb
        · exact pyMem_append_left _ (hB b hb)
        · simp only [List.mem_singleton] at hb; subst hb
          simp [pyMem, he]

/-- `(A ⊕ B) ⊕ C = A ⊕ (B ⊕ C)` for `⊕ = appendUnseen`, as lists (order and the representative
kept for `==`-equal elements included), provided the elements of `B` and `C` equal themselves -/
theorem appendUnseen_assoc (A B C : List Val) (hB : ∀ e ∈ B, pyEq e e = true)
    (hC : ∀ e ∈ C, pyEq e e = true) :
    appendUnseen (appendUnseen A B) C = appendUnseen A (appendUnseen B C) := by
  simp only [appendUnseen_eq, unseen_append, List.append_assoc]
  congr 2
  exact (unseen_unseen C hC (A ++ unseen A B) B (unseen_covers A B hB)).symm

/-! ### the class of a value under the flags

Two values can be merged iff they have the same class, and the merged value has that class
again: `mapping`; `seq` (only with `merge_lists`); `set` (only with `merge_sets`); everything
else — including sequences / sets whose flag is off — is `other` and is overridden. -/

def cls (ml ms : Bool) : Kind → Kind
  | .mapping => .mapping
  | .seq => if ml then .seq else .other
  | .set => if ms then .set else .other
  | .other => .other

theorem cls_mapping {ml ms : Bool} {k : Kind} : cls ml ms k = .mapping ↔ k = .mapping := by
  cases k <;> cases ml <;> cases ms <;> simp [cls]

/-- the merged value of two non-mapping values of the same class -/
def leafRes (ml ms : Bool) (v ov : Val) : Val :=
  match cls ml ms ov.kind with
  | .seq => .list (appendUnseen v.elems ov.elems)
  | .set => .set (appendUnseen v.elems ov.elems)
  | _ => ov

variable {ml ms : Bool}

theorem leaf_cls_aux (ml ms : Bool) (kv ko : Kind) (x y z : Val)
    (h : ¬(kv = .mapping ∧ ko = .mapping)) :
    (cls ml ms kv ≠ cls ml ms ko → ∃ e,
      (if ml && kv == .seq && ko == .seq then (.ok x : Except TypeError Val)
       else if ms && kv == .set && ko == .set then .ok y
       else if kv == .mapping || ko == .mapping then .error .mapping
       else if ms && (kv == .set || ko == .set) then .error .set
       else if ml && (kv == .seq || ko == .seq) then .error .sequence
       else .ok z) = .error e) ∧
    (cls ml ms kv = cls ml ms ko →
      (if ml && kv == .seq && ko == .seq then (.ok x : Except TypeError Val)
       else if ms && kv == .set && ko == .set then .ok y
       else if kv == .mapping || ko == .mapping then .error .mapping
       else if ms && (kv == .set || ko == .set) then .error .set
       else if ml && (kv == .seq || ko == .seq) then .error .sequence
       else .ok z) = .ok (match cls ml ms ko with | .seq => x | .set => y | _ => z)) := by
  cases kv <;> cases ko <;> cases ml <;> cases ms <;> simp [cls] at *

theorem mergeLeaf_cls (v ov : Val) (h : ¬(v.kind = .mapping ∧ ov.kind = .mapping)) :
    (cls ml ms v.kind ≠ cls ml ms ov.kind → ∃ e, mergeLeaf ml ms v ov = .error e) ∧
    (cls ml ms v.kind = cls ml ms ov.kind → mergeLeaf ml ms v ov = .ok (leafRes ml ms v ov)) :=
  leaf_cls_aux ml ms v.kind ov.kind _ _ _ h

theorem cls_leafRes (v ov : Val) : cls ml ms (leafRes ml ms v ov).kind = cls ml ms ov.kind := by
  simp only [leafRes]
  cases hk' : ov.kind <;> cases ml <;> cases ms <;> simp_all [cls, Val.kind]

/-- values merge only within one class, and the result stays in it -/
theorem mergeVal_ok_cls {v ov r : Val} (h : mergeVal ml ms v ov = .ok r) :
    cls ml ms v.kind = cls ml ms ov.kind ∧ cls ml ms r.kind = cls ml ms ov.kind := by
  by_cases hb : v.kind = .mapping ∧ ov.kind = .mapping
  · obtain ⟨a, rfl⟩ := kind_mapping hb.1
    obtain ⟨b, rfl⟩ := kind_mapping hb.2
    rw [mergeVal_dict] at h
    cases hm : mergeDict ml ms a b with
    | error e => simp [hm] at h
    | ok m => simp only [hm, Except.ok.injEq] at h; subst h; simp [Val.kind]
  · rw [mergeVal_leaf hb] at h
    have t := mergeLeaf_cls (ml := ml) (ms := ms) v ov hb
    by_cases hc : cls ml ms v.kind = cls ml ms ov.kind
    · rw [t.2 hc] at h
      injection h with h
      subst h
      exact ⟨hc, cls_leafRes v ov⟩
    · obtain ⟨e, he⟩ := t.1 hc
      rw [he] at h; cases h

theorem mergeVal_leaf_ok {v ov : Val} (h : ¬(v.kind = .mapping ∧ ov.kind = .mapping))
    (hc : cls ml ms v.kind = cls ml ms ov.kind) :
    mergeVal ml ms v ov = .ok (leafRes ml ms v ov) := by
  rw [mergeVal_leaf h]; exact (mergeLeaf_cls v ov h).2 hc

theorem mergeVal_leaf_eq {v ov r : Val} (h : ¬(v.kind = .mapping ∧ ov.kind = .mapping))
    (hr : mergeVal ml ms v ov = .ok r) : r = leafRes ml ms v ov := by
  rw [mergeVal_leaf_ok h (mergeVal_ok_cls hr).1] at hr
  injection hr with hr; exact hr.symm

/-- the leaf results are associative: lists append their unseen elements, sets unite, every
other class is overridden by the last value -/
theorem leafRes_assoc (va vb vc : Val) (hb : ∀ e ∈ vb.elems, pyEq e e = true)
    (hc : ∀ e ∈ vc.elems, pyEq e e = true) (h2 : cls ml ms vb.kind = cls ml ms vc.kind) :
    leafRes ml ms (leafRes ml ms va vb) vc = leafRes ml ms va (leafRes ml ms vb vc) := by
  have key := appendUnseen_assoc va.elems vb.elems vc.elems hb hc
  simp only [leafRes]
  cases hkb : vb.kind <;> cases hkc : vc.kind <;> cases ml <;> cases ms <;>
    simp_all [cls, Val.kind, Val.elems]

/-! ### dictionaries: lookup of members, the invariant is preserved, extensionality -/

theorem hasKey_false_of_mem {k : Key} {d : Dict} (h : hasKey k d = false) :
    ∀ kv ∈ d, Key.pyEq kv.1 k = false := by
  rw [hasKey_eq_any] at h
  intro kv hkv
  simpa using List.any_eq_false.mp h kv hkv

theorem lookup_of_mem {d : Dict} (hd : distinctKeys d = true) {k : Key} {v : Val} (h : (k, v) ∈ d) :
    lookup k d = some v := by
  induction d with
  | nil => cases h
  | cons kv d ih =>
    obtain ⟨k0, v0⟩ := kv
    simp only [distinctKeys, Bool.and_eq_true, Bool.not_eq_true'] at hd
    rcases List.mem_cons.mp h with h | h
    · injection h with h1 h2; subst h1 h2; exact lookup_self_cons _ _ _
    · have := hasKey_false_of_mem hd.1 (k, v) h
      rw [Key.pyEq_symm] at this
      simp only [lookup, this, Bool.false_eq_true, if_false]
      exact ih hd.2 h

theorem distinctKeys_congr {m a : Dict} (h : keysOf m = keysOf a) : distinctKeys m = distinctKeys a := by
  induction m generalizing a with
  | nil => cases a with
    | nil => rfl
    | cons _ _ => simp [keysOf] at h
  | cons kv m ih =>
    cases a with
    | nil => simp [keysOf] at h
    | cons kv' a =>
      obtain ⟨k, v⟩ := kv
      obtain ⟨k', v'⟩ := kv'
      simp only [keysOf, List.map_cons, List.cons.injEq] at h
      obtain ⟨h1, h2⟩ := h
      subst h1
      simp only [distinctKeys, ih h2, hasKey_of_keys_eq h2]

theorem distinctKeys_snoc {m : Dict} {k : Key} (v : Val) (hm : distinctKeys m = true)
    (hk : hasKey k m = false) : distinctKeys (m ++ [(k, v)]) = true := by
  induction m with
  | nil => simp [distinctKeys, hasKey, lookup]
  | cons kv m ih =>
    obtain ⟨k0, v0⟩ := kv
    simp only [distinctKeys, Bool.and_eq_true, Bool.not_eq_true'] at hm
    have hk0 : Key.pyEq k0 k = false := hasKey_false_of_mem hk (k0, v0) (by simp)
    have hk' : hasKey k m = false := by
      simp only [hasKey, lookup, hk0, Bool.false_eq_true, if_false] at hk; exact hk
    simp only [List.cons_append, distinctKeys, Bool.and_eq_true, Bool.not_eq_true', hasKey_append,
      Bool.or_eq_false_iff]
    refine ⟨⟨hm.1, ?_⟩, ih hm.2 hk'⟩
    simp only [hasKey, lookup]
    rw [Key.pyEq_symm, hk0]; rfl

theorem distinctKeys_addNew (m b : Dict) (hm : distinctKeys m = true) : distinctKeys (addNew m b) = true := by
  induction b generalizing m with
  | nil => exact hm
  | cons kv b ih =>
    obtain ⟨k, v⟩ := kv
    simp only [addNew]
    split
    · exact ih m hm
    · rename_i h
      exact ih _ (distinctKeys_snoc v hm (by simpa using h))

/-- the merged dictionary has distinct keys if the first argument has -/
theorem distinctKeys_mergeDict {a b r : Dict} (ha : distinctKeys a = true)
    (h : mergeDict ml ms a b = .ok r) : distinctKeys r = true := by
  obtain ⟨m, hm, rfl⟩ := mergeDict_ok h
  exact distinctKeys_addNew m b (by rw [distinctKeys_congr (mergeEntries_keys hm)]; exact ha)

/-- association lists with distinct keys are determined by their key order and their lookups -/
theorem dict_ext {l r : Dict} (hk : keysOf l = keysOf r) (hl : distinctKeys l = true)
    (h : ∀ k, lookup k l = lookup k r) : l = r := by
  induction l generalizing r with
  | nil => cases r with
    | nil => rfl
    | cons _ _ => simp [keysOf] at hk
  | cons kv l ih =>
    cases r with
    | nil => simp [keysOf] at hk
    | cons kv' r =>
      obtain ⟨k, v⟩ := kv
      obtain ⟨k', v'⟩ := kv'
      simp only [keysOf, List.map_cons, List.cons.injEq] at hk
      obtain ⟨h1, h2⟩ := hk
      subst h1
      have hr : distinctKeys ((k, v') :: r) = true := by
        rw [← distinctKeys_congr (m := (k, v) :: l)]; exact hl
        simp [keysOf]; exact h2
      simp only [distinctKeys, Bool.and_eq_true, Bool.not_eq_true'] at hl hr
      have hv : v = v' := by
        have := h k
        simp only [lookup, Key.pyEq_refl, if_true, Option.some.injEq] at this
        exact this
      subst hv
      congr 1
      apply ih h2 hl.2
      intro k2
      by_cases hk2 : Key.pyEq k k2 = true
      · have e1 : lookup k2 l = Option.none := by
          rw [← lookup_congr hk2]
          have := hl.1; simp only [hasKey] at this
          cases hx : lookup k l <;> simp_all
        have e2 : lookup k2 r = Option.none := by
          rw [← lookup_congr hk2]
          have := hr.1; simp only [hasKey] at this
          cases hx : lookup k r <;> simp_all
        rw [e1, e2]
      · have := h k2
        simp only [lookup, hk2, Bool.false_eq_true, if_false] at this
        exact this

/-! ### the merge, key by key -/

/-- the entry of the merged dictionary for one key, from the entries of the two arguments
(`none` = key absent); an error iff both have the key and the values cannot be merged -/
def combE (ml ms : Bool) : Option Val → Option Val → Except TypeError (Option Val)
  | some v, some ov =>
    (match mergeVal ml ms v ov with
     | .ok r => .ok (some r)
     | .error e => .error e)
  | some v, Option.none => .ok (some v)
  | Option.none, o => .ok o

theorem lookup_mergeDict {a b r : Dict} (h : mergeDict ml ms a b = .ok r) (k : Key) :
    combE ml ms (lookup k a) (lookup k b) = .ok (lookup k r) := by
  obtain ⟨m, hm, rfl⟩ := mergeDict_ok h
  have h1 := lookup_mergeEntries hm k
  rw [lookup_addNew]
  cases ha : lookup k a with
  | none =>
    simp only [ha] at h1
    cases hb : lookup k b <;> simp [h1, combE]
  | some v =>
    simp only [ha] at h1
    cases hb : lookup k b with
    | none => simp only [hb] at h1; simp [h1, combE]
    | some ov =>
      simp only [hb] at h1
      obtain ⟨rv, h2, h3⟩ := h1
      simp [combE, h2, h3]

/-- the merge succeeds as soon as it succeeds key by key -/
theorem mergeDict_ok_of {a b : Dict} (ha : distinctKeys a = true)
    (h : ∀ k, ∃ o, combE ml ms (lookup k a) (lookup k b) = .ok o) : ∃ r, mergeDict ml ms a b = .ok r := by
  suffices hs : ∃ m, mergeEntries ml ms a b = .ok m by
    obtain ⟨m, hm⟩ := hs
    exact ⟨addNew m b, by simp [mergeDict, hm]⟩
  have h' : ∀ kv ∈ a, ∀ ov, lookup kv.1 b = some ov → ∃ r, mergeVal ml ms kv.2 ov = .ok r := by
    intro kv hkv ov hov
    obtain ⟨o, ho⟩ := h kv.1
    rw [lookup_of_mem ha (by exact hkv), hov] at ho
    simp only [combE] at ho
    cases hm : mergeVal ml ms kv.2 ov with
    | ok r => exact ⟨r, rfl⟩
    | error e => simp [hm] at ho
  clear h ha
  induction a with
  | nil => exact ⟨[], by simp [mergeEntries]⟩
  | cons kv a ih =>
    obtain ⟨k, v⟩ := kv
    obtain ⟨m, hm⟩ := ih (fun kv hkv => h' kv (by simp [hkv]))
    simp only [mergeEntries, hm]
    cases hl : lookup k b with
    | none => exact ⟨_, rfl⟩
    | some ov =>
      obtain ⟨r, hr⟩ := h' (k, v) (by simp) ov hl
      simp only [hr]
      exact ⟨_, rfl⟩

theorem combE_isSome {x y o : Option Val} (h : combE ml ms x y = .ok o) :
    o.isSome = (x.isSome || y.isSome) := by
  cases x with
  | none => simp only [combE, Except.ok.injEq] at h; subst h; simp
  | some v =>
    cases y with
    | none => simp only [combE, Except.ok.injEq] at h; subst h; simp
    | some ov =>
      simp only [combE] at h
      cases hm : mergeVal ml ms v ov with
      | ok r => simp only [hm, Except.ok.injEq] at h; subst h; simp
      | error e => simp [hm] at h

theorem hasKey_mergeDict {a b r : Dict} (h : mergeDict ml ms a b = .ok r) (k : Key) :
    hasKey k r = (hasKey k a || hasKey k b) :=
  combE_isSome (lookup_mergeDict h k)

/-- key order of the merged dictionary: `a`'s keys, then the keys of `b` that `a` lacks -/
theorem keysOf_mergeDict {a b r : Dict} (hb : distinctKeys b = true) (h : mergeDict ml ms a b = .ok r) :
    keysOf r = keysOf a ++ (keysOf b).filter (fun k => !hasKey k a) := by
  obtain ⟨m, hm, rfl⟩ := mergeDict_ok h
  have hk := mergeEntries_keys hm
  have hf : (fun kv : Key × Val => !hasKey kv.1 m) = (fun kv => !hasKey kv.1 a) := by
    funext kv; rw [hasKey_of_keys_eq hk]
  rw [addNew_eq m b hb, hf]
  simp only [keysOf, List.map_append, List.filter_map] at hk ⊢
  rw [hk]; rfl

/-! ### associativity: per value, per key, per dictionary

"Associative" is meant in the strong sense throughout: if ONE bracketing succeeds then so does
the other, with the same result. -/

/-- both bracketings of `va ⊕ vb ⊕ vc` agree, for all well-formed `vb`, `vc` -/
def AssocV (ml ms : Bool) (va : Val) : Prop :=
  ∀ vb vc, va.wf = true → vb.wf = true → vc.wf = true →
    (∀ vab x, mergeVal ml ms va vb = .ok vab → mergeVal ml ms vab vc = .ok x →
      ∃ vbc, mergeVal ml ms vb vc = .ok vbc ∧ mergeVal ml ms va vbc = .ok x) ∧
    (∀ vbc y, mergeVal ml ms vb vc = .ok vbc → mergeVal ml ms va vbc = .ok y →
      ∃ vab, mergeVal ml ms va vb = .ok vab ∧ mergeVal ml ms vab vc = .ok y)

/-- the same for the entries under one key -/
def AssocO (ml ms : Bool) (oa ob oc : Option Val) : Prop :=
  (∀ oab ol, combE ml ms oa ob = .ok oab → combE ml ms oab oc = .ok ol →
    ∃ obc, combE ml ms ob oc = .ok obc ∧ combE ml ms oa obc = .ok ol) ∧
  (∀ obc orr, combE ml ms ob oc = .ok obc → combE ml ms oa obc = .ok orr →
    ∃ oab, combE ml ms oa ob = .ok oab ∧ combE ml ms oab oc = .ok orr)

/-- the same for dictionaries -/
def AssocD (ml ms : Bool) (a b c : Dict) : Prop :=
  (∀ ab l, mergeDict ml ms a b = .ok ab → mergeDict ml ms ab c = .ok l →
    ∃ bc, mergeDict ml ms b c = .ok bc ∧ mergeDict ml ms a bc = .ok l) ∧
  (∀ bc r, mergeDict ml ms b c = .ok bc → mergeDict ml ms a bc = .ok r →
    ∃ ab, mergeDict ml ms a b = .ok ab ∧ mergeDict ml ms ab c = .ok r)

theorem combE_none_right (x : Option Val) : combE ml ms x Option.none = .ok x := by
  cases x <;> rfl

theorem combE_some_some {v ov : Val} {o : Option Val} :
    combE ml ms (some v) (some ov) = .ok o ↔ ∃ r, mergeVal ml ms v ov = .ok r ∧ o = some r := by
  simp only [combE]
  cases hm : mergeVal ml ms v ov with
  | ok r => simp [eq_comm]
  | error e => simp

theorem assocO_of (oa ob oc : Option Val)
    (ha : ∀ va, oa = some va → AssocV ml ms va ∧ va.wf = true)
    (hb : ∀ vb, ob = some vb → vb.wf = true) (hc : ∀ vc, oc = some vc → vc.wf = true) :
    AssocO ml ms oa ob oc := by
  cases oa with
  | none =>
    constructor
    · intro oab ol h1 h2
      simp only [combE, Except.ok.injEq] at h1; subst h1
      exact ⟨ol, h2, rfl⟩
    · intro obc orr h3 h4
      simp only [combE, Except.ok.injEq] at h4; subst h4
      exact ⟨ob, rfl, h3⟩
  | some va =>
    cases ob with
    | none =>
      constructor
      · intro oab ol h1 h2
        simp only [combE, Except.ok.injEq] at h1; subst h1
        exact ⟨oc, rfl, h2⟩
      · intro obc orr h3 h4
        simp only [combE, Except.ok.injEq] at h3; subst h3
        exact ⟨some va, rfl, h4⟩
    | some vb =>
      cases oc with
      | none =>
        constructor
        · intro oab ol h1 h2
          rw [combE_none_right] at h2; injection h2 with h2; subst h2
          exact ⟨some vb, rfl, h1⟩
        · intro obc orr h3 h4
          simp only [combE, Except.ok.injEq] at h3; subst h3
          exact ⟨orr, h4, combE_none_right _⟩
      | some vc =>
        obtain ⟨hA, hwa⟩ := ha va rfl
        have hA := hA vb vc hwa (hb vb rfl) (hc vc rfl)
        constructor
        · intro oab ol h1 h2
          obtain ⟨vab, g1, rfl⟩ := combE_some_some.mp h1
          obtain ⟨x, g2, rfl⟩ := combE_some_some.mp h2
          obtain ⟨vbc, h3, h4⟩ := hA.1 vab x g1 g2
          exact ⟨some vbc, combE_some_some.mpr ⟨vbc, h3, rfl⟩, combE_some_some.mpr ⟨x, h4, rfl⟩⟩
        · intro obc orr h3 h4
          obtain ⟨vbc, g3, rfl⟩ := combE_some_some.mp h3
          obtain ⟨y, g4, rfl⟩ := combE_some_some.mp h4
          obtain ⟨vab, h1, h2⟩ := hA.2 vbc y g3 g4
          exact ⟨some vab, combE_some_some.mpr ⟨vab, h1, rfl⟩, combE_some_some.mpr ⟨y, h2, rfl⟩⟩

/-- both bracketings succeeded: the results are the same association list -/
theorem assocD_eq {a b c ab bc l r : Dict} (hO : ∀ k, AssocO ml ms (lookup k a) (lookup k b) (lookup k c))
    (ha : distinctKeys a = true) (hb : distinctKeys b = true) (hc : distinctKeys c = true)
    (h1 : mergeDict ml ms a b = .ok ab) (h2 : mergeDict ml ms ab c = .ok l)
    (h3 : mergeDict ml ms b c = .ok bc) (h4 : mergeDict ml ms a bc = .ok r) : l = r := by
  apply dict_ext
  · rw [keysOf_mergeDict hc h2, keysOf_mergeDict hb h1,
      keysOf_mergeDict (distinctKeys_mergeDict hb h3) h4, keysOf_mergeDict hc h3,
      List.filter_append, List.filter_filter, List.append_assoc]
    congr 2
    apply List.filter_congr
    intro k _
    rw [hasKey_mergeDict h1, Bool.not_or]
  · exact distinctKeys_mergeDict (distinctKeys_mergeDict ha h1) h2
  · intro k
    obtain ⟨obc, e3, e4⟩ := (hO k).1 _ _ (lookup_mergeDict h1 k) (lookup_mergeDict h2 k)
    rw [lookup_mergeDict h3 k] at e3
    injection e3 with e3; subst e3
    rw [lookup_mergeDict h4 k] at e4
    injection e4 with e4; exact e4.symm

theorem assocD_of (a b c : Dict) (IH : ∀ kv ∈ a, AssocV ml ms kv.2)
    (ha : Dict.wf a = true) (hb : Dict.wf b = true) (hc : Dict.wf c = true) : AssocD ml ms a b c := by
  simp only [Dict.wf, Bool.and_eq_true] at ha hb hc
  have hO : ∀ k, AssocO ml ms (lookup k a) (lookup k b) (lookup k c) := fun k =>
    assocO_of _ _ _
      (fun va h => by
        obtain ⟨k', hk'⟩ := lookup_mem h
        exact ⟨IH (k', va) hk', dictWf_mem ha.2 (k', va) hk'⟩)
      (fun vb h => lookup_wf hb.2 h) (fun vc h => lookup_wf hc.2 h)
  constructor
  · intro ab l h1 h2
    obtain ⟨bc, h3⟩ : ∃ bc, mergeDict ml ms b c = .ok bc := mergeDict_ok_of hb.1 (fun k => by
      obtain ⟨obc, e3, _⟩ := (hO k).1 _ _ (lookup_mergeDict h1 k) (lookup_mergeDict h2 k)
      exact ⟨obc, e3⟩)
    obtain ⟨r, h4⟩ : ∃ r, mergeDict ml ms a bc = .ok r := mergeDict_ok_of ha.1 (fun k => by
      obtain ⟨obc, e3, e4⟩ := (hO k).1 _ _ (lookup_mergeDict h1 k) (lookup_mergeDict h2 k)
      rw [lookup_mergeDict h3 k] at e3
      injection e3 with e3; subst e3
      exact ⟨_, e4⟩)
    have := assocD_eq hO ha.1 hb.1 hc.1 h1 h2 h3 h4
    subst this
    exact ⟨bc, h3, h4⟩
  · intro bc r h3 h4
    obtain ⟨ab, h1⟩ : ∃ ab, mergeDict ml ms a b = .ok ab := mergeDict_ok_of ha.1 (fun k => by
      obtain ⟨oab, e1, _⟩ := (hO k).2 _ _ (lookup_mergeDict h3 k) (lookup_mergeDict h4 k)
      exact ⟨oab, e1⟩)
    obtain ⟨l, h2⟩ : ∃ l, mergeDict ml ms ab c = .ok l :=
      mergeDict_ok_of (distinctKeys_mergeDict ha.1 h1) (fun k => by
        obtain ⟨oab, e1, e2⟩ := (hO k).2 _ _ (lookup_mergeDict h3 k) (lookup_mergeDict h4 k)
        rw [lookup_mergeDict h1 k] at e1
        injection e1 with e1; subst e1
        exact ⟨_, e2⟩)
    have := assocD_eq hO ha.1 hb.1 hc.1 h1 h2 h3 h4
    subst this
    exact ⟨ab, h1, h2⟩

theorem mergeVal_dict_ok {a b : Dict} {r : Val} :
    mergeVal ml ms (.dict a) (.dict b) = .ok r ↔ ∃ m, mergeDict ml ms a b = .ok m ∧ r = .dict m := by
  rw [mergeVal_dict]
  cases hm : mergeDict ml ms a b with
  | ok m => simp [eq_comm]
  | error e => simp

theorem not_mapping_of_cls {k k' : Kind} (h : cls ml ms k = cls ml ms k') (hk : k ≠ .mapping) :
    k' ≠ .mapping := by
  intro hk'
  subst hk'
  exact hk (cls_mapping.mp h)

theorem assocV_leaf (va : Val) (h : va.kind ≠ .mapping) : AssocV ml ms va := by
  intro vb vc _ hwb hwc
  have rb : ∀ e ∈ vb.elems, pyEq e e = true := fun e he => pyEq_refl e (elems_wf hwb e he)
  have rc : ∀ e ∈ vc.elems, pyEq e e = true := fun e he => pyEq_refl e (elems_wf hwc e he)
  constructor
  · intro vab x h1 h2
    obtain ⟨c1, c1'⟩ := mergeVal_ok_cls h1
    obtain ⟨c2, _⟩ := mergeVal_ok_cls h2
    have nb : vb.kind ≠ .mapping := not_mapping_of_cls c1 h
    have nab : vab.kind ≠ .mapping := not_mapping_of_cls c1'.symm nb
    have e1 := mergeVal_leaf_eq (fun hh => h hh.1) h1
    have e2 := mergeVal_leaf_eq (fun hh => nab hh.1) h2
    have c3 : cls ml ms vb.kind = cls ml ms vc.kind := c1'.symm.trans c2
    refine ⟨leafRes ml ms vb vc, mergeVal_leaf_ok (fun hh => nb hh.1) c3, ?_⟩
    rw [e2, e1, leafRes_assoc va vb vc rb rc c3]
    exact mergeVal_leaf_ok (fun hh => h hh.1) (by rw [cls_leafRes]; exact c1.trans c3)
  · intro vbc y h3 h4
    obtain ⟨c3, c3'⟩ := mergeVal_ok_cls h3
    obtain ⟨c4, _⟩ := mergeVal_ok_cls h4
    have c1 : cls ml ms va.kind = cls ml ms vb.kind := c4.trans (c3'.trans c3.symm)
    have nb : vb.kind ≠ .mapping := not_mapping_of_cls c1 h
    have e3 := mergeVal_leaf_eq (fun hh => nb hh.1) h3
    have e4 := mergeVal_leaf_eq (fun hh => h hh.1) h4
    have nab : (leafRes ml ms va vb).kind ≠ .mapping :=
      not_mapping_of_cls (cls_leafRes (ml := ml) (ms := ms) va vb).symm nb
    refine ⟨leafRes ml ms va vb, mergeVal_leaf_ok (fun hh => h hh.1) c1, ?_⟩
    rw [e4, e3, ← leafRes_assoc va vb vc rb rc c3]
    exact mergeVal_leaf_ok (fun hh => nab hh.1) (by rw [cls_leafRes]; exact c3)

theorem assocV_dict (a : Dict) (IH : ∀ kv ∈ a, AssocV ml ms kv.2) : AssocV ml ms (.dict a) := by
  intro vb vc hwa hwb hwc
  have km : cls ml ms (Val.dict a).kind = .mapping := rfl
  constructor
  · intro vab x h1 h2
    obtain ⟨c1, c1'⟩ := mergeVal_ok_cls h1
    obtain ⟨c2, _⟩ := mergeVal_ok_cls h2
    have kb : vb.kind = .mapping := cls_mapping.mp (c1.symm.trans km)
    have kc : vc.kind = .mapping := cls_mapping.mp (c2.symm.trans (c1'.trans (c1.symm.trans km)))
    obtain ⟨b, rfl⟩ := kind_mapping kb
    obtain ⟨c, rfl⟩ := kind_mapping kc
    obtain ⟨ab, g1, rfl⟩ := mergeVal_dict_ok.mp h1
    obtain ⟨l, g2, rfl⟩ := mergeVal_dict_ok.mp h2
    obtain ⟨bc, h3, h4⟩ := (assocD_of a b c IH (by simpa [Val.wf, Dict.wf] using hwa)
      (by simpa [Val.wf, Dict.wf] using hwb) (by simpa [Val.wf, Dict.wf] using hwc)).1 ab l g1 g2
    exact ⟨.dict bc, mergeVal_dict_ok.mpr ⟨bc, h3, rfl⟩, mergeVal_dict_ok.mpr ⟨l, h4, rfl⟩⟩
  · intro vbc y h3 h4
    obtain ⟨c3, c3'⟩ := mergeVal_ok_cls h3
    obtain ⟨c4, _⟩ := mergeVal_ok_cls h4
    have kc : vc.kind = .mapping := cls_mapping.mp (c3'.symm.trans (c4.symm.trans km))
    have kb : vb.kind = .mapping := cls_mapping.mp (c3.trans (c3'.symm.trans (c4.symm.trans km)))
    obtain ⟨b, rfl⟩ := kind_mapping kb
    obtain ⟨c, rfl⟩ := kind_mapping kc
    obtain ⟨bc, g3, rfl⟩ := mergeVal_dict_ok.mp h3
    obtain ⟨r, g4, rfl⟩ := mergeVal_dict_ok.mp h4
    obtain ⟨ab, h1, h2⟩ := (assocD_of a b c IH (by simpa [Val.wf, Dict.wf] using hwa)
      (by simpa [Val.wf, Dict.wf] using hwb) (by simpa [Val.wf, Dict.wf] using hwc)).2 bc r g3 g4
    exact ⟨.dict ab, mergeVal_dict_ok.mpr ⟨ab, h1, rfl⟩, mergeVal_dict_ok.mpr ⟨r, h2, rfl⟩⟩

/-- every value is associative in the strong sense -/
theorem assocV_all (va : Val) : AssocV ml ms va := by
  induction va using Val.induct' with
  | dict a ih => exact assocV_dict a ih
  | none => exact assocV_leaf _ (by simp [Val.kind])
  | bool => exact assocV_leaf _ (by simp [Val.kind])
  | int => exact assocV_leaf _ (by simp [Val.kind])
  | str => exact assocV_leaf _ (by simp [Val.kind])
  | bytes => exact assocV_leaf _ (by simp [Val.kind])
  | float => exact assocV_leaf _ (by simp [Val.kind])
  | list => exact assocV_leaf _ (by simp [Val.kind])
  | tuple => exact assocV_leaf _ (by simp [Val.kind])
  | set => exact assocV_leaf _ (by simp [Val.kind])

/-- every triple of dictionaries is associative in the strong sense -/
theorem assocD_all (a b c : Dict) (ha : Dict.wf a = true) (hb : Dict.wf b = true)
    (hc : Dict.wf c = true) : AssocD ml ms a b c :=
  assocD_of a b c (fun kv _ => assocV_all kv.2) ha hb hc

/-! ### the merge preserves the dictionary invariant at every level -/

theorem listWf_iff (xs : List Val) : listWf xs = true ↔ ∀ x ∈ xs, x.wf = true := by
  induction xs with
  | nil => simp [listWf]
  | cons x xs ih => simp [listWf, ih]

theorem dictWf_iff (d : Dict) : dictWf d = true ↔ ∀ kv ∈ d, kv.2.wf = true := by
  induction d with
  | nil => simp [dictWf]
  | cons kv d ih => obtain ⟨k, v⟩ := kv; simp [dictWf, ih]

theorem mem_addNew {m b : Dict} {kv : Key × Val} (h : kv ∈ addNew m b) : kv ∈ m ∨ kv ∈ b := by
  induction b generalizing m with
  | nil => exact Or.inl h
  | cons e b ih =>
    obtain ⟨k, v⟩ := e
    simp only [addNew] at h
    split at h
    · rcases ih h with h | h
      · exact Or.inl h
      · exact Or.inr (by simp [h])
    · rcases ih h with h | h
      · rcases List.mem_append.mp h with h | h
        · exact Or.inl h
        · exact Or.inr (by simp at h; simp [h])
      · exact Or.inr (by simp [h])

theorem mem_mergeEntries {a b m : Dict} (h : mergeEntries ml ms a b = .ok m) {kv : Key × Val}
    (hkv : kv ∈ m) :
    kv ∈ a ∨ ∃ v ov, (kv.1, v) ∈ a ∧ lookup kv.1 b = some ov ∧ mergeVal ml ms v ov = .ok kv.2 := by
  induction a generalizing m with
  | nil => simp [mergeEntries] at h; subst h; cases hkv
  | cons e a ih =>
    obtain ⟨k, v⟩ := e
    obtain ⟨r, m', rfl, hr, hv⟩ := mergeEntries_cons_ok h
    rcases List.mem_cons.mp hkv with hh | hh
    · subst hh
      cases hl : lookup k b with
      | none => simp only [hl] at hv; subst hv; exact Or.inl (by simp)
      | some ov => simp only [hl] at hv; exact Or.inr ⟨v, ov, by simp, rfl, hv⟩
    · rcases ih hr hh with h' | ⟨v', ov, h1, h2, h3⟩
      · exact Or.inl (by simp [h'])
      · exact Or.inr ⟨v', ov, by simp [h1], h2, h3⟩

theorem elems_listWf {v : Val} (h : v.wf = true) : ∀ x ∈ v.elems, x.wf = true := elems_wf h

theorem wf_leafRes {v ov : Val} (hv : v.wf = true) (ho : ov.wf = true) : (leafRes ml ms v ov).wf = true := by
  have hm : ∀ x ∈ appendUnseen v.elems ov.elems, x.wf = true := by
    intro x hx
    rw [appendUnseen_eq] at hx
    rcases List.mem_append.mp hx with hx | hx
    · exact elems_wf hv x hx
    · exact elems_wf ho x ((unseen_sublist _ _).subset hx)
  simp only [leafRes]
  split
  · simp only [Val.wf]; exact (listWf_iff _).mpr hm
  · simp only [Val.wf]; exact (listWf_iff _).mpr hm
  · exact ho

theorem wf_mergeVal (v : Val) :
    ∀ ov r, v.wf = true → ov.wf = true → mergeVal ml ms v ov = .ok r → r.wf = true := by
  have leaf : ∀ v ov r : Val, ¬(v.kind = .mapping ∧ ov.kind = .mapping) → v.wf = true → ov.wf = true →
      mergeVal ml ms v ov = .ok r → r.wf = true := by
    intro v ov r hb hv ho h
    rw [mergeVal_leaf_eq hb h]; exact wf_leafRes hv ho
  induction v using Val.induct' with
  | dict a ih =>
    intro ov r hv ho h
    by_cases hb : (Val.dict a).kind = .mapping ∧ ov.kind = .mapping
    · obtain ⟨b, rfl⟩ := kind_mapping hb.2
      obtain ⟨m, hm, rfl⟩ := mergeVal_dict_ok.mp h
      simp only [Val.wf, Bool.and_eq_true] at hv ho ⊢
      refine ⟨distinctKeys_mergeDict hv.1 hm, ?_⟩
      obtain ⟨m', hm', rfl⟩ := mergeDict_ok hm
      rw [dictWf_iff]
      intro kv hkv
      rcases mem_addNew hkv with hkv | hkv
      · rcases mem_mergeEntries hm' hkv with h' | ⟨v, ov, h1, h2, h3⟩
        · exact dictWf_mem hv.2 kv h'
        · exact ih (kv.1, v) h1 ov kv.2 (dictWf_mem hv.2 _ h1) (lookup_wf ho.2 h2) h3
      · exact dictWf_mem ho.2 kv hkv
    · exact leaf _ _ _ hb hv ho h
  | none => intro ov r; exact leaf _ _ _ (by simp [Val.kind])
  | bool => intro ov r; exact leaf _ _ _ (by simp [Val.kind])
  | int => intro ov r; exact leaf _ _ _ (by simp [Val.kind])
  | str => intro ov r; exact leaf _ _ _ (by simp [Val.kind])
  | bytes => intro ov r; exact leaf _ _ _ (by simp [Val.kind])
  | float => intro ov r; exact leaf _ _ _ (by simp [Val.kind])
  | list => intro ov r; exact leaf _ _ _ (by simp [Val.kind])
  | tuple => intro ov r; exact leaf _ _ _ (by simp [Val.kind])
  | set => intro ov r; exact leaf _ _ _ (by simp [Val.kind])

/-- merging two dictionaries (distinct keys at every level) gives such a dictionary again -/
theorem wf_mergeDict {a b r : Dict} (ha : Dict.wf a = true) (hb : Dict.wf b = true)
    (h : mergeDict ml ms a b = .ok r) : Dict.wf r = true := by
  have := wf_mergeVal (ml := ml) (ms := ms) (.dict a) (.dict b) (.dict r)
    (by simpa [Val.wf, Dict.wf] using ha) (by simpa [Val.wf, Dict.wf] using hb)
    (mergeVal_dict_ok.mpr ⟨r, h, rfl⟩)
  simpa [Val.wf, Dict.wf] using this

end Vinegar.Merge
