import Vinegar.Lemmas.PathsMatch
/-
Bridge between the statement-level specification (`Spec.Accepts`: the decoded path equals
the configured path with the placeholder replaced, followed by the remaining path) and
the segment decomposition that characterises the model (`matchSegs_plain/_lookup`).
-/
namespace Vinegar.Paths
open Vinegar Vinegar.Paths.Spec

theorem decodedPath_eq (uri : Str) : decodedPath uri = unquote (cutQuery uri) := rfl

theorem nulEncoded_eq : nulEncoded = encodedNul := by decide

theorem hasNul_false_iff (uri : Str) :
    hasNul uri = false ↔ ('\x00' ∉ uri ∧ ¬ encodedNul <:+: uri) := by
  unfold hasNul
  rw [Bool.or_eq_false_iff, nulEncoded_eq]
  constructor
  · rintro ⟨h1, h2⟩
    refine ⟨?_, ?_⟩
    · intro m; rw [List.contains_iff_mem.mpr m] at h1; exact absurd h1 (by simp)
    · intro m; rw [(hasSub_iff_infix _ _).mpr m] at h2; exact absurd h2 (by simp)
  · rintro ⟨h1, h2⟩
    refine ⟨?_, ?_⟩
    · cases hc : uri.contains '\x00' with
      | false => rfl
      | true => exact absurd (List.contains_iff_mem.mp hc) h1
    · cases hc : hasSub encodedNul uri with
      | false => rfl
      | true => exact absurd ((hasSub_iff_infix _ _).mp hc) h2

/-- "t followed by nothing (file mode) / by a remaining path that starts at a slash
    (directory mode)" in terms of segments -/
theorem tail_iff (t D : Str) (fm : Bool) :
    (∃ extra, D = t ++ extra ∧ (if fm = true then extra = [] else extra.head? = some '/')) ↔
    ∃ R, splitOn '/' D = splitOn '/' t ++ R ∧ ((R ≠ [] ∧ fm = false) ∨ (R = [] ∧ fm = true)) := by
  constructor
  · rintro ⟨extra, rfl, hmode⟩
    cases fm with
    | true =>
      simp only [if_true] at hmode; subst hmode
      exact ⟨[], by simp, Or.inr ⟨rfl, rfl⟩⟩
    | false =>
      simp only [Bool.false_eq_true, if_false] at hmode
      cases extra with
      | nil => simp at hmode
      | cons c e =>
        simp at hmode; subst hmode
        exact ⟨splitOn '/' e, splitOn_append_sep '/' t e, Or.inl ⟨splitOn_ne_nil _ _, rfl⟩⟩
  · rintro ⟨R, hR, hmode⟩
    have hD : D = joinWith ['/'] (splitOn '/' t ++ R) := by rw [← hR, joinWith_splitOn]
    rcases hmode with ⟨hne, rfl⟩ | ⟨rfl, rfl⟩
    · rw [joinWith_append _ _ _ (splitOn_ne_nil _ _) hne, joinWith_splitOn] at hD
      exact ⟨['/'] ++ joinWith ['/'] R, by rw [hD]; simp, by simp⟩
    · rw [List.append_nil, joinWith_splitOn] at hD
      exact ⟨[], by simp [hD], by simp⟩

theorem modeOK_iff (fm : Bool) (rp extra : Str) :
    modeOK fm rp extra = true ↔
      ((if fm = true then extra = [] else extra.head? = some '/') ∨ (fm = true ∧ rp = ['/'] ∧ extra = ['/'])) := by
  unfold modeOK
  cases fm <;> simp [List.isEmpty_iff]

theorem restOK_iff (cfg : Cfg) (h : Handler) (hc : h.cfg = cfg)
    (hmode : truthy cfg.file = !truthy cfg.rootDir) (R : List Str) :
    RestOK h R ↔ ((R ≠ [] ∧ truthy cfg.file = false) ∨ (R = [] ∧ truthy cfg.file = true)) := by
  unfold RestOK Handler.fileMode Handler.dirMode
  rw [hc]
  cases hf : truthy cfg.file <;> cases hr : truthy cfg.rootDir <;> simp_all

theorem effPath_nil (rp : Str) (hhead : rp.head? = some '/') (he : effPath rp = []) : rp = ['/'] := by
  unfold effPath at he
  by_cases h : rp = ['/']
  · exact h
  · rw [if_neg h] at he; subst he; simp at hhead

theorem splitOn_eq_singleton_nil (s : Str) (h : splitOn '/' s = [[]]) : s = [] := by
  have := joinWith_splitOn '/' s
  rw [h] at this; simpa [joinWith] using this.symm

/-- no placeholder: the code's decision (special case for "/" in file mode, else the
    segment comparison) is "decoded = configured path ++ remaining path" -/
theorem plain_iff (cfg : Cfg) (h : Handler) (dec : Decomposed cfg h)
    (hmode : truthy cfg.file = !truthy cfg.rootDir) (hlk : truthy cfg.lookupKey = false) (D : Str) :
    ((D = ['/'] ∧ h.prefixSegs = [[]] ∧ h.fileMode = true) ∨
      (∃ R, splitOn '/' D = h.prefixSegs ++ R ∧ RestOK h R)) ↔
    ∃ extra, D = effPath cfg.requestPath ++ extra ∧ modeOK (truthy cfg.file) cfg.requestPath extra = true := by
  obtain ⟨_, hP⟩ := dec.plain hlk
  have hfm : h.fileMode = truthy cfg.file := by unfold Handler.fileMode; rw [dec.cfg_eq]
  rw [hP, hfm]
  simp only [restOK_iff cfg h dec.cfg_eq hmode, modeOK_iff]
  constructor
  · rintro (⟨hD, hS, hf⟩ | hR)
    · have he := splitOn_eq_singleton_nil _ hS
      have hrp := effPath_nil _ dec.head he
      exact ⟨['/'], by rw [he, hD]; simp, Or.inr ⟨hf, hrp, rfl⟩⟩
    · obtain ⟨extra, h1, h2⟩ := (tail_iff (effPath cfg.requestPath) D (truthy cfg.file)).mpr hR
      exact ⟨extra, h1, Or.inl h2⟩
  · rintro ⟨extra, h1, h2 | ⟨hf, hrp, hx⟩⟩
    · exact Or.inr ((tail_iff _ D _).mp ⟨extra, h1, h2⟩)
    · left
      have he : effPath cfg.requestPath = [] := by unfold effPath; rw [if_pos hrp]
      rw [he] at h1 ⊢
      subst hx
      exact ⟨by simpa using h1, by simp [splitOn], hf⟩

/-- facts about the placeholder decomposition that the lookup case needs -/
theorem lookup_facts (cfg : Cfg) (h : Handler) (dec : Decomposed cfg h) (hlk : truthy cfg.lookupKey = true) :
    '/' ∉ cfg.placeholder ∧ '/' ∉ h.segPre ∧ '/' ∉ h.segSuf ∧
    (∀ s ∈ h.prefixSegs, '/' ∉ s) ∧ (∀ s ∈ h.suffixSegs, '/' ∉ s) ∧ cfg.requestPath ≠ ['/'] := by
  obtain ⟨_, hph, hsplit, _, _⟩ := dec.lookup hlk
  have hmem : ∀ s ∈ h.prefixSegs ++ (h.segPre ++ cfg.placeholder ++ h.segSuf) :: h.suffixSegs, '/' ∉ s := by
    intro s hs; rw [← hsplit] at hs; exact mem_splitOn_no_sep '/' _ s hs
  have hseg := hmem (h.segPre ++ cfg.placeholder ++ h.segSuf) (by simp)
  simp only [List.mem_append, not_or] at hseg
  refine ⟨hseg.1.2, hseg.1.1, hseg.2, fun s hs => hmem s (by simp [hs]), fun s hs => hmem s (by simp [hs]), ?_⟩
  intro hrp
  have he : effPath cfg.requestPath = [] := by unfold effPath; rw [if_pos hrp]
  rw [he] at hsplit
  simp only [splitOn] at hsplit
  have hl := congrArg List.length hsplit
  simp only [List.length_cons, List.length_nil, List.length_append] at hl
  have hA : h.prefixSegs = [] := by cases hA : h.prefixSegs with
    | nil => rfl
    | cons a as => rw [hA] at hl; simp at hl; omega
  rw [hA] at hsplit
  simp at hsplit
  obtain ⟨⟨_, h2⟩, _⟩ := hsplit
  first | exact hph h2 | exact hph h2.1 | exact hph h2.2

/-- the pattern for a value, in terms of the model's segments -/
theorem pattern_lookup (cfg : Cfg) (h : Handler) (dec : Decomposed cfg h) (hlk : truthy cfg.lookupKey = true) (v : Str) :
    substFirst cfg.placeholder v (effPath cfg.requestPath)
      = some (joinWith ['/'] (h.prefixSegs ++ (h.segPre ++ v ++ h.segSuf) :: h.suffixSegs)) := by
  obtain ⟨_, hph, hsplit, hA, hsub⟩ := dec.lookup hlk
  obtain ⟨hsl, _⟩ := lookup_facts cfg h dec hlk
  have := substFirst_join cfg.placeholder v h.prefixSegs h.suffixSegs _ _ hph hsl hA (hsub v)
  rw [← hsplit, joinWith_splitOn] at this
  exact this

/-- with a placeholder, for a fixed non-empty slash-free value -/
theorem lookup_iff (cfg : Cfg) (h : Handler) (dec : Decomposed cfg h)
    (hmode : truthy cfg.file = !truthy cfg.rootDir) (hlk : truthy cfg.lookupKey = true) (D v : Str)
    (hvs : '/' ∉ v) :
    (∃ R, splitOn '/' D = h.prefixSegs ++ (h.segPre ++ v ++ h.segSuf) :: (h.suffixSegs ++ R) ∧ RestOK h R) ↔
    ∃ t, substFirst cfg.placeholder v (effPath cfg.requestPath) = some t ∧
      ∃ extra, D = t ++ extra ∧ modeOK (truthy cfg.file) cfg.requestPath extra = true := by
  obtain ⟨_, hpre, hsuf, hAs, hBs, hrp⟩ := lookup_facts cfg h dec hlk
  rw [pattern_lookup cfg h dec hlk v]
  simp only [Option.some.injEq, exists_eq_left', restOK_iff cfg h dec.cfg_eq hmode, modeOK_iff]
  have hsplit_t : splitOn '/' (joinWith ['/'] (h.prefixSegs ++ (h.segPre ++ v ++ h.segSuf) :: h.suffixSegs))
      = h.prefixSegs ++ (h.segPre ++ v ++ h.segSuf) :: h.suffixSegs := by
    apply splitOn_joinWith _ _ (by simp)
    intro s hs
    simp only [List.mem_append, List.mem_cons] at hs
    rcases hs with hs | rfl | hs
    · exact hAs s hs
    · simp only [List.mem_append, not_or]; exact ⟨⟨hpre, hvs⟩, hsuf⟩
    · exact hBs s hs
  have hassoc : ∀ R, h.prefixSegs ++ (h.segPre ++ v ++ h.segSuf) :: (h.suffixSegs ++ R)
      = (h.prefixSegs ++ (h.segPre ++ v ++ h.segSuf) :: h.suffixSegs) ++ R := by intro R; simp
  constructor
  · rintro ⟨R, hR, hm⟩
    rw [hassoc, ← hsplit_t] at hR
    obtain ⟨extra, h1, h2⟩ := (tail_iff _ D _).mpr ⟨R, hR, hm⟩
    exact ⟨extra, h1, Or.inl h2⟩
  · rintro ⟨extra, h1, h2 | ⟨_, hr, _⟩⟩
    · obtain ⟨R, hR, hm⟩ := (tail_iff _ D _).mp ⟨extra, h1, h2⟩
      rw [hsplit_t, ← hassoc] at hR
      exact ⟨R, hR, hm⟩
    · exact absurd hr hrp

/-- the segments of the pattern for a slash-free value -/
theorem splitOn_pattern (cfg : Cfg) (h : Handler) (dec : Decomposed cfg h) (hlk : truthy cfg.lookupKey = true)
    (v : Str) (hvs : '/' ∉ v) :
    splitOn '/' (joinWith ['/'] (h.prefixSegs ++ (h.segPre ++ v ++ h.segSuf) :: h.suffixSegs))
      = h.prefixSegs ++ (h.segPre ++ v ++ h.segSuf) :: h.suffixSegs := by
  obtain ⟨_, hpre, hsuf, hAs, hBs, _⟩ := lookup_facts cfg h dec hlk
  apply splitOn_joinWith _ _ (by simp)
  intro s hs
  simp only [List.mem_append, List.mem_cons] at hs
  rcases hs with hs | rfl | hs
  · exact hAs s hs
  · simp only [List.mem_append, not_or]; exact ⟨⟨hpre, hvs⟩, hsuf⟩
  · exact hBs s hs

/-- **The remaining path of the context is the remaining path of the statement**: in
    directory mode, for any witness `v` with `decoded = pattern(v) ++ extra`, the context's
    `extra_path` is that `extra`. -/
theorem extraPath_spec (cfg : Cfg) (h : Handler) (dec : Decomposed cfg h)
    (_hmode : truthy cfg.file = !truthy cfg.rootDir) (uri : Str) (hn : hasNul uri = false)
    (hdir : truthy cfg.file = false) (ph : Option Str)
    (hph : ph = if truthy cfg.lookupKey then some cfg.placeholder else none)
    (v extra t : Str) (hv : valueOK ph v = true) (hp : pattern cfg.requestPath ph v = some t)
    (hD : unquote (cutQuery uri) = t ++ extra) (hm : modeOK false cfg.requestPath extra = true) :
    (prepareContext h uri).extraPath = some extra := by
  have hfm : h.fileMode = false := by unfold Handler.fileMode; rw [dec.cfg_eq]; exact hdir
  have hpc : prepareContext h uri = matchSegs h (splitOn '/' (unquote (cutQuery uri))) := by
    unfold prepareContext
    simp [hn, hfm]
  simp only [modeOK, Bool.false_eq_true, if_false, beq_iff_eq] at hm
  cases extra with
  | nil => simp at hm
  | cons c e =>
    simp at hm; subst hm
    have hsplit : splitOn '/' (unquote (cutQuery uri)) = splitOn '/' t ++ splitOn '/' e := by
      rw [hD]; exact splitOn_append_sep '/' t e
    have hrest : RestOK h (splitOn '/' e) := Or.inl ⟨splitOn_ne_nil _ _, hfm⟩
    have hextra : extraOfRest (splitOn '/' e) = some ('/' :: e) := by
      unfold extraOfRest
      rw [if_neg (splitOn_ne_nil _ _), joinWith_cons_of_ne_nil _ _ _ (splitOn_ne_nil _ _), joinWith_splitOn]
      rfl
    rw [hpc, ← hextra]
    cases hlk : truthy cfg.lookupKey with
    | false =>
      obtain ⟨hex, hP⟩ := dec.plain hlk
      rw [hlk] at hph; subst hph
      simp only [pattern, Option.some.injEq, Bool.false_eq_true, if_false] at hp
      subst hp
      exact ((matchSegs_plain h _ hex).2 _ (by rw [hsplit, hP]) hrest).2
    | true =>
      obtain ⟨hex, _, _, _, _⟩ := dec.lookup hlk
      rw [hlk] at hph; subst hph
      simp only [if_true, pattern] at hp
      simp only [if_true, valueOK, Bool.and_eq_true, Bool.not_eq_true', List.isEmpty_eq_false_iff,
        List.contains_eq_mem, decide_eq_false_iff_not] at hv
      rw [pattern_lookup cfg h dec hlk v] at hp
      simp only [Option.some.injEq] at hp
      subst hp
      rw [splitOn_pattern cfg h dec hlk v hv.2] at hsplit
      exact ((matchSegs_lookup h _ hex).2 v _ hv.1 (by rw [hsplit]; simp) hrest).2

end Vinegar.Paths
