import Vinegar.Lemmas.PathsSpec
/-
The `Bool` decision procedure of the C06 specification (`Spec.accepts`, `Spec.witnesses`)
decides the proposition `Spec.Accepts`: the bounded search over candidate values is complete.
-/
namespace Vinegar.Paths
open Vinegar Vinegar.Paths.Spec

theorem mem_prefixes (v l : Str) : v ∈ prefixes l ↔ v <+: l := by
  induction l generalizing v with
  | nil => simp [prefixes]
  | cons c cs ih =>
    simp only [prefixes, List.mem_cons, List.mem_map]
    constructor
    · rintro (rfl | ⟨a, ha, rfl⟩)
      · exact List.nil_prefix
      · exact List.cons_prefix_cons.mpr ⟨rfl, (ih a).mp ha⟩
    · intro h
      cases v with
      | nil => exact Or.inl rfl
      | cons x xs =>
        obtain ⟨rfl, h'⟩ := List.cons_prefix_cons.mp h
        exact Or.inr ⟨xs, (ih xs).mpr h', rfl⟩

theorem prefix_takeWhile (p : Char → Bool) (v l : Str) (h : v <+: l) (hv : ∀ c ∈ v, p c = true) :
    v <+: l.takeWhile p := by
  induction v generalizing l with
  | nil => exact List.nil_prefix
  | cons x xs ih =>
    cases l with
    | nil => simp at h
    | cons y ys =>
      obtain ⟨rfl, h'⟩ := List.cons_prefix_cons.mp h
      have hx : p x = true := hv x (by simp)
      rw [List.takeWhile_cons, if_pos hx]
      exact List.cons_prefix_cons.mpr ⟨rfl, ih ys h' (fun c hc => hv c (List.mem_cons_of_mem _ hc))⟩

/-- where the substitution happened -/
theorem substFirst_index (ph v s t : Str) (h : substFirst ph v s = some t) :
    ∃ i, firstIndex ph s = some i ∧ i ≤ s.length ∧ t = s.take i ++ v ++ s.drop (i + ph.length) := by
  induction s generalizing t with
  | nil =>
    unfold substFirst at h
    split at h
    · rename_i he
      simp only [Option.some.injEq] at h; subst h
      have : ph = [] := List.isEmpty_iff.mp he
      exact ⟨0, by simp [firstIndex, he], by simp, by simp⟩
    · simp at h
  | cons c cs ih =>
    rw [substFirst] at h
    by_cases hp : ph.isPrefixOf (c :: cs) = true
    · rw [if_pos hp] at h
      simp only [Option.some.injEq] at h; subst h
      exact ⟨0, by rw [firstIndex, if_pos hp], by simp, by simp⟩
    · rw [if_neg hp] at h
      cases hs : substFirst ph v cs with
      | none => simp [hs] at h
      | some r =>
        simp [hs] at h; subst h
        obtain ⟨i, h1, h2, h3⟩ := ih r hs
        refine ⟨i + 1, by rw [firstIndex, if_neg hp, h1]; rfl, by simp; omega, ?_⟩
        rw [h3]
        have : i + 1 + ph.length = (i + ph.length) + 1 := by omega
        simp [this]

theorem witnessOK_iff (rp : Str) (ph : Option Str) (fm : Bool) (D v : Str) :
    witnessOK rp ph fm D v = true ↔
      ∃ extra t, valueOK ph v = true ∧ pattern rp ph v = some t ∧ D = t ++ extra ∧ modeOK fm rp extra = true := by
  unfold witnessOK
  cases hp : pattern rp ph v with
  | none => simp
  | some t =>
    simp only [Bool.and_eq_true, List.isPrefixOf_iff_prefix, Option.some.injEq]
    constructor
    · rintro ⟨h1, ⟨extra, rfl⟩, h3⟩
      refine ⟨extra, t, h1, rfl, rfl, ?_⟩
      simpa using h3
    · rintro ⟨extra, t', h1, rfl, rfl, h3⟩
      exact ⟨h1, ⟨extra, rfl⟩, by simpa using h3⟩

/-- the candidate list contains every witness -/
theorem mem_candidates (rp : Str) (ph : Option Str) (fm : Bool) (D v : Str)
    (h : witnessOK rp ph fm D v = true) : v ∈ candidates rp ph D := by
  obtain ⟨extra, t, hv, hp, hD, _⟩ := (witnessOK_iff rp ph fm D v).mp h
  unfold candidates
  cases ph with
  | none =>
    simp only [valueOK, List.isEmpty_iff] at hv
    simp [hv]
  | some ph =>
    simp only [pattern] at hp
    obtain ⟨i, h1, h2, h3⟩ := substFirst_index ph v _ t hp
    simp only [h1]
    rw [mem_prefixes]
    simp only [valueOK, Bool.and_eq_true, Bool.not_eq_true', List.contains_eq_mem, decide_eq_false_iff_not] at hv
    apply prefix_takeWhile
    · rw [hD, h3]
      have hlen : ((effPath rp).take i).length = i := by simp [List.length_take]; omega
      refine ⟨(effPath rp).drop (i + ph.length) ++ extra, ?_⟩
      have : (List.take i (effPath rp) ++ v ++ List.drop (i + ph.length) (effPath rp) ++ extra)
          = List.take i (effPath rp) ++ (v ++ (List.drop (i + ph.length) (effPath rp) ++ extra)) := by simp
      rw [this, List.drop_left' hlen]
    · intro c hc
      have : c ≠ '/' := fun e => hv.2 (e ▸ hc)
      simp [this]

theorem noNul_iff (uri : Str) : noNul uri = true ↔ ('\x00' ∉ uri ∧ ¬ encodedNul <:+: uri) := by
  unfold noNul
  rw [Bool.and_eq_true, Bool.not_eq_true', Bool.not_eq_true']
  constructor
  · rintro ⟨h1, h2⟩
    refine ⟨fun m => ?_, fun m => ?_⟩
    · rw [List.contains_iff_mem.mpr m] at h1; exact absurd h1 (by simp)
    · rw [(occursIn_iff_infix _ _).mpr m] at h2; exact absurd h2 (by simp)
  · rintro ⟨h1, h2⟩
    refine ⟨?_, ?_⟩
    · cases hc : uri.contains '\x00' with
      | false => rfl
      | true => exact absurd (List.contains_iff_mem.mp hc) h1
    · cases hc : occursIn encodedNul uri with
      | false => rfl
      | true => exact absurd ((occursIn_iff_infix _ _).mp hc) h2

theorem mem_witnesses (rp : Str) (ph : Option Str) (fm : Bool) (uri v : Str) :
    v ∈ witnesses rp ph fm uri ↔ (noNul uri = true ∧ witnessOK rp ph fm (decodedPath uri) v = true) := by
  unfold witnesses
  by_cases hn : noNul uri = true
  · simp only [hn, if_true, List.mem_filter, true_and]
    exact ⟨fun h => h.2, fun h => ⟨mem_candidates _ _ _ _ _ h, h⟩⟩
  · simp [hn]

/-- **The checker's decision procedure decides the statement.** -/
theorem accepts_iff (rp : Str) (ph : Option Str) (fm : Bool) (uri : Str) :
    accepts rp ph fm uri = true ↔ Accepts rp ph fm uri := by
  unfold accepts Accepts
  rw [Bool.not_eq_true', List.isEmpty_eq_false_iff_exists_mem]
  constructor
  · rintro ⟨v, hv⟩
    obtain ⟨hn, hw⟩ := (mem_witnesses _ _ _ _ _).mp hv
    obtain ⟨n1, n2⟩ := (noNul_iff uri).mp hn
    obtain ⟨extra, t, h1, h2, h3, h4⟩ := (witnessOK_iff _ _ _ _ _).mp hw
    exact ⟨n1, n2, v, extra, t, h1, h2, h3, h4⟩
  · rintro ⟨n1, n2, v, extra, t, h1, h2, h3, h4⟩
    exact ⟨v, (mem_witnesses _ _ _ _ _).mpr ⟨(noNul_iff uri).mpr ⟨n1, n2⟩,
      (witnessOK_iff _ _ _ _ _).mpr ⟨extra, t, h1, h2, h3, h4⟩⟩⟩

end Vinegar.Paths
