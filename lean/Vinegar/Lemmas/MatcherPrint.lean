import Vinegar.Lemmas.MatcherRoundTrip
/-
Helper lemmas for C18, part 3: every member of the printer family (`print` under any
well-formed `Style`) is a legal concrete syntax tree of the tree it was given.
-/
namespace Vinegar.Matcher

/-! ### the printer family produces legal concrete syntax trees of the tree it is given -/

theorem fallbackQuote_ne (s : Style) : (s.fallbackQuote != Quote.none) = true := by
  unfold Style.fallbackQuote
  cases h : s.quote <;> simp

theorem legalAtom_printAtom (s : Style) (a : Atom) (ha : (a.key != some []) = true) :
    legalAtom (printAtom s a) = true := by
  obtain ⟨key, kind, pat, cs⟩ := a
  have hf := fallbackQuote_ne s
  simp only [legalAtom, printAtom, Bool.and_eq_true]
  refine ⟨⟨?_, ?_⟩, ?_⟩
  · cases s.useShorthand <;> cases key <;> cases kind <;> cases cs <;> cases s.slashAlways <;> simp
  · cases key with
    | none => rfl
    | some k =>
      have hk : k ≠ [] := by simpa using ha
      dsimp only
      by_cases hB : unquotedOk isStopKey k = true
      · simp [hB, hk]
      · simp [hB, hf, hk]
  · by_cases h : ((s.quote == Quote.none) = true ∧ unquotedOk isStopPattern pat = true) ∧
        (!(s.useShorthand && key.isNone && kind == Kind.glob && !cs) || !keywords.contains pat) = true
    · rw [if_pos h]
      simp only [h.1.2]
      simp
    · rw [if_neg h]
      simp [hf]

/-- the printer family never writes a bare keyword term: it quotes the three words -/
theorem bareKeyword_printAtom (s : Style) (a : Atom) : bareKeyword (printAtom s a) = false := by
  obtain ⟨key, kind, pat, cs⟩ := a
  have hf := fallbackQuote_ne s
  simp only [bareKeyword, printAtom, Bool.and_eq_true]
  by_cases h : ((s.quote == Quote.none) = true ∧ unquotedOk isStopPattern pat = true) ∧
      (!(s.useShorthand && key.isNone && kind == Kind.glob && !cs) || !keywords.contains pat) = true
  · rw [if_pos h]
    have h2 := h.2
    simp only [Bool.or_eq_true, Bool.not_eq_true'] at h2
    rcases h2 with h2 | h2
    · simp [h2]
    · rw [h2]; simp
  · rw [if_neg h]
    have : (s.fallbackQuote == Quote.none) = false := by simpa using hf
    simp [this]

theorem level_le (c : Cst) : level c ≤ 3 := by cases c <;> simp [level]

theorem level_operand (s : Style) (need : Nat) (hn : need ≤ 3) (c : Cst) : need ≤ level (operand s need c) := by
  unfold operand
  split
  · simpa [wrap, level] using hn
  · rename_i h; simp at h; exact h.2

theorem legal_operand (s : Style) (hs : s.ok = true) (need : Nat) (c : Cst) (hc : legal c = true)
    (hk : endsKeyword c = false) : legal (operand s need c) = true := by
  simp only [Style.ok, Bool.and_eq_true] at hs
  unfold operand
  split
  · simp [wrap, legal, hs.2, hc, hk]
  · exact hc

theorem endsKeyword_operand (s : Style) (need : Nat) (c : Cst) (hk : endsKeyword c = false) :
    endsKeyword (operand s need c) = false := by
  unfold operand
  split
  · rfl
  · exact hk

theorem endsKeyword_print (s : Style) (e : Expr) : endsKeyword (print s e) = false := by
  induction e with
  | atom a => simp only [print, endsKeyword]; exact bareKeyword_printAtom s a
  | not e ih => simp only [print, endsKeyword]; exact endsKeyword_operand s 3 _ ih
  | and l r ihl ihr => simp only [print, endsKeyword]; exact endsKeyword_operand s 3 _ ihr
  | or l r ihl ihr => simp only [print, endsKeyword]; exact endsKeyword_operand s 2 _ ihr

theorem abstract_operand (s : Style) (need : Nat) (c : Cst) : abstract (operand s need c) = abstract c := by
  unfold operand; split <;> simp [wrap, abstract]

theorem wsAfter_ok (s : Style) (hs : s.ok = true) (c : Cst) :
    allSpace (wsAfter s c) = true ∧ (!(wsAfter s c).isEmpty || startsParen c) = true := by
  simp only [Style.ok, Bool.and_eq_true] at hs
  unfold wsAfter
  by_cases h : (s.tight && startsParen c) = true
  · simp only [h, if_true]; simp at h; simp [allSpace, h.2]
  · simp only [h]; exact ⟨hs.1.2, by simp [hs.1.1]⟩

theorem wsBefore_ok (s : Style) (hs : s.ok = true) (c : Cst) :
    allSpace (wsBefore s c) = true ∧ (!(wsBefore s c).isEmpty || endsParen c) = true := by
  simp only [Style.ok, Bool.and_eq_true] at hs
  unfold wsBefore
  by_cases h : (s.tight && endsParen c) = true
  · simp only [h, if_true]; simp at h; simp [allSpace, h.2]
  · simp only [h]; exact ⟨hs.1.2, by simp [hs.1.1]⟩

theorem printable_sub {l r : Expr} :
    (printable (.and l r) = true → printable l = true ∧ printable r = true) ∧
    (printable (.or l r) = true → printable l = true ∧ printable r = true) := by
  simp [printable, Expr.atoms, List.all_append]

theorem legal_print (s : Style) (hs : s.ok = true) (e : Expr) (he : printable e = true) :
    legal (print s e) = true := by
  induction e with
  | atom a =>
    simp only [print, legal]
    exact legalAtom_printAtom s a (by simpa [printable, Expr.atoms] using he)
  | not e ih =>
    have hc := legal_operand s hs 3 _ (ih (by simpa [printable, Expr.atoms] using he)) (endsKeyword_print s e)
    have hw := wsAfter_ok s hs (operand s 3 (print s e))
    have hlev : level (operand s 3 (print s e)) = 3 :=
      Nat.le_antisymm (level_le _) (level_operand s 3 (Nat.le_refl _) _)
    simp only [print, legal, Bool.and_eq_true]
    exact ⟨⟨⟨hw.1, hw.2⟩, by simp [hlev]⟩, hc⟩
  | and l r ihl ihr =>
    obtain ⟨hl, hr⟩ := printable_sub.1 he
    have hcl := legal_operand s hs 2 _ (ihl hl) (endsKeyword_print s l)
    have hcr := legal_operand s hs 3 _ (ihr hr) (endsKeyword_print s r)
    have hnk := endsKeyword_operand s 2 _ (endsKeyword_print s l)
    have hwa := wsAfter_ok s hs (operand s 3 (print s r))
    have hwb := wsBefore_ok s hs (operand s 2 (print s l))
    have hlevr : level (operand s 3 (print s r)) = 3 :=
      Nat.le_antisymm (level_le _) (level_operand s 3 (Nat.le_refl _) _)
    have hlevl := level_operand s 2 (by omega) (print s l)
    simp only [print, legal, Bool.and_eq_true]
    exact ⟨⟨⟨⟨⟨⟨⟨⟨hwb.1, hwa.1⟩, hwb.2⟩, hwa.2⟩, by simpa using hlevl⟩, by simp [hlevr]⟩, hcl⟩, hcr⟩, by simp [hnk]⟩
  | or l r ihl ihr =>
    obtain ⟨hl, hr⟩ := printable_sub.2 he
    have hcl := legal_operand s hs 1 _ (ihl hl) (endsKeyword_print s l)
    have hcr := legal_operand s hs 2 _ (ihr hr) (endsKeyword_print s r)
    have hnk := endsKeyword_operand s 1 _ (endsKeyword_print s l)
    have hwa := wsAfter_ok s hs (operand s 2 (print s r))
    have hwb := wsBefore_ok s hs (operand s 1 (print s l))
    have hlevr := level_operand s 2 (by omega) (print s r)
    simp only [print, legal, Bool.and_eq_true]
    exact ⟨⟨⟨⟨⟨⟨⟨hwb.1, hwa.1⟩, hwb.2⟩, hwa.2⟩, by simpa using hlevr⟩, hcl⟩, hcr⟩, by simp [hnk]⟩

theorem abstract_print (s : Style) (e : Expr) : abstract (print s e) = e := by
  induction e with
  | atom a => simp [print, abstract, printAtom]
  | not e ih => simp [print, abstract, abstract_operand, ih]
  | and l r ihl ihr => simp [print, abstract, abstract_operand, ihl, ihr]
  | or l r ihl ihr => simp [print, abstract, abstract_operand, ihl, ihr]

theorem styles_ok : styles.all Style.ok = true := by decide

end Vinegar.Matcher
