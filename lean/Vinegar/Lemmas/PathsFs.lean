import Vinegar.Lemmas.PathsStr
/-
`os.path.join` / `os.path.normpath` on the paths `_translate_path` builds: below an
absolute normalised root and for components without "", "." and ".." the result is
the root, a slash, and the components joined by slashes.
-/
namespace Vinegar.Paths
open Vinegar Vinegar.Paths.Spec

abbrev ne (s : Str) : Bool := !s.isEmpty

/-- `root_dir` is an absolute path in normal form: "/" followed by at least one safe
    component, components separated by single slashes, no trailing slash -/
def AbsNormal (root : Str) : Prop :=
  ∃ rs : List Str, rs ≠ [] ∧ (∀ r ∈ rs, safeSeg r = true) ∧ root = '/' :: joinWith ['/'] rs

theorem safeSeg_iff (s : Str) :
    safeSeg s = true ↔ s ≠ [] ∧ s ≠ dot ∧ s ≠ dotdot ∧ '\x00' ∉ s ∧ '/' ∉ s := by
  unfold safeSeg
  simp [List.isEmpty_iff, and_assoc]

/-! ### dropWhile / filter on the empty-segment test -/

theorem dw_filter (l : List Str) : (l.dropWhile (fun s => s.isEmpty)).filter ne = l.filter ne := by
  induction l with
  | nil => rfl
  | cons a t ih =>
    cases ha : a.isEmpty with
    | true => simp [List.dropWhile, ha, ih, ne]
    | false => simp [List.dropWhile, ha, ne]

theorem dw_mem (l : List Str) (x : Str) (h : x ∈ l.dropWhile (fun s => s.isEmpty)) : x ∈ l := by
  induction l with
  | nil => simp at h
  | cons a t ih =>
    cases ha : a.isEmpty with
    | true => simp [List.dropWhile, ha] at h; exact List.mem_cons_of_mem _ (ih h)
    | false => simpa [List.dropWhile, ha] using h

theorem dw_mem_of_ne (l : List Str) (x : Str) (hx : x ≠ []) (h : x ∈ l) :
    x ∈ l.dropWhile (fun s => s.isEmpty) := by
  induction l with
  | nil => simp at h
  | cons a t ih =>
    cases ha : a.isEmpty with
    | true =>
      simp only [List.dropWhile, ha]
      simp only [List.mem_cons] at h
      rcases h with rfl | h
      · simp [List.isEmpty_iff] at ha; exact absurd ha hx
      · exact ih h
    | false => simpa [List.dropWhile, ha] using h

theorem dw_nil_iff (l : List Str) : l.dropWhile (fun s => s.isEmpty) = [] ↔ l.filter ne = [] := by
  induction l with
  | nil => simp
  | cons a t ih =>
    cases ha : a.isEmpty with
    | true => simp [List.dropWhile, ha, ih, ne]
    | false => simp [List.dropWhile, ha, ne]

theorem mem_splitOn_subset (sep : Char) (s x : Str) (hx : x ∈ splitOn sep s) : ∀ c ∈ x, c ∈ s := by
  induction s generalizing x with
  | nil => simp [splitOn] at hx; subst hx; simp
  | cons c cs ih =>
    by_cases h : c = sep
    · subst h
      simp [splitOn] at hx
      rcases hx with rfl | hx
      · simp
      · intro d hd; exact List.mem_cons_of_mem _ (ih x hx d hd)
    · obtain ⟨hd, tl, h1, h2⟩ := splitOn_cons_ne sep c cs h
      rw [h2] at hx
      simp at hx
      rcases hx with rfl | hx
      · intro d hd'
        simp at hd'
        rcases hd' with rfl | hd'
        · simp
        · exact List.mem_cons_of_mem _ (ih hd (by rw [h1]; simp) d hd')
      · intro d hd'; exact List.mem_cons_of_mem _ (ih x (by rw [h1]; simp [hx]) d hd')

/-! ### normpath -/

theorem normFold_safe (abs : Bool) (comps st : List Str)
    (h : ∀ c ∈ comps, c = [] ∨ (c ≠ dot ∧ c ≠ dotdot)) :
    normFold abs comps st = (comps.filter ne).reverse ++ st := by
  induction comps generalizing st with
  | nil => simp [normFold]
  | cons c cs ih =>
    have hcs : ∀ c ∈ cs, c = [] ∨ (c ≠ dot ∧ c ≠ dotdot) := fun x hx => h x (List.mem_cons_of_mem _ hx)
    rcases h c (by simp) with rfl | ⟨h1, h2⟩
    · simp only [normFold, true_or, if_true]; simp [ih st hcs, ne]
    · by_cases hc : c = []
      · subst hc; simp only [normFold, true_or, if_true]; simp [ih st hcs, ne]
      · simp only [normFold, hc, h1, false_or, if_false, ne_eq, h2, not_false_eq_true, if_true]
        rw [ih _ hcs]
        have hce : c.isEmpty = false := by cases c <;> simp_all
        have : (c :: cs).filter ne = c :: cs.filter ne := by
          simp [List.filter, ne, hce]
        rw [this]; simp

theorem joinWith_ne_nil (a : Str) (l : List Str) (ha : a ≠ []) : joinWith ['/'] (a :: l) ≠ [] := by
  cases l with
  | nil => simpa [joinWith] using ha
  | cons b t => rw [joinWith_cons_cons]; simp [ha]

/-- a path with one leading slash whose non-empty components are all proper names -/
theorem normpath_safe (path : Str) (hk : initialSlashes path = 1)
    (h : ∀ c ∈ splitOn '/' path, c = [] ∨ (c ≠ dot ∧ c ≠ dotdot)) :
    normpath path = '/' :: joinWith ['/'] ((splitOn '/' path).filter ne) := by
  unfold normpath
  have hne : path ≠ [] := by intro e; subst e; simp [initialSlashes] at hk
  simp only [hne, if_false, hk]
  rw [normFold_safe _ _ _ h]
  simp

theorem initialSlashes_one (c : Char) (t : Str) (hc : c ≠ '/') : initialSlashes ('/' :: c :: t) = 1 := by
  unfold initialSlashes
  split <;> simp_all

/-! ### os.path.join below a root -/

theorem endsWithSlash_iff (p : Str) : endsWithSlash p = true ↔ ∃ q, p = q ++ ['/'] := by
  unfold endsWithSlash
  rw [beq_iff_eq, List.getLast?_eq_some_iff]

theorem joinStep_segs (path b : Str) (hp : path ≠ []) (hb : '/' ∉ b) :
    ((splitOn '/' (joinStep path b)).filter ne = (splitOn '/' path).filter ne ++ [b].filter ne) ∧
    (∃ t, joinStep path b = path ++ t) := by
  unfold joinStep
  have hhead : (b.head? == some '/') = false := by
    cases b with
    | nil => rfl
    | cons c t =>
      have : c ≠ '/' := fun e => hb (by simp [e])
      simp [this]
  have hpe : path.isEmpty = false := by cases path <;> simp_all
  simp only [hhead, Bool.false_eq_true, if_false, hpe, Bool.false_or]
  cases hs : endsWithSlash path with
  | true =>
    obtain ⟨q, rfl⟩ := (endsWithSlash_iff path).mp hs
    simp only [if_true]
    refine ⟨?_, b, rfl⟩
    have h1 : q ++ ['/'] ++ b = q ++ '/' :: b := by simp
    have h2 : q ++ ['/'] = q ++ '/' :: [] := rfl
    rw [h1, splitOn_append_sep, h2, splitOn_append_sep, splitOn_no_sep '/' b hb]
    simp [splitOn, ne]
  | false =>
    simp only [Bool.false_eq_true, if_false]
    refine ⟨?_, '/' :: b, rfl⟩
    rw [splitOn_append_sep, splitOn_no_sep '/' b hb]
    simp

theorem pathJoin_segs (root : Str) (l : List Str) (hp : root ≠ []) (hl : ∀ b ∈ l, '/' ∉ b) :
    ((splitOn '/' (pathJoin root l)).filter ne = (splitOn '/' root).filter ne ++ l.filter ne) ∧
    (∃ t, pathJoin root l = root ++ t) := by
  unfold pathJoin
  induction l generalizing root with
  | nil => simp
  | cons b t ih =>
    obtain ⟨h1, u, h2⟩ := joinStep_segs root b hp (hl b (by simp))
    have hp' : joinStep root b ≠ [] := by rw [h2]; simp [hp]
    obtain ⟨h3, w, h4⟩ := ih (joinStep root b) hp' (fun x hx => hl x (List.mem_cons_of_mem _ hx))
    simp only [List.foldl_cons]
    refine ⟨?_, u ++ w, ?_⟩
    · rw [h3, h1]; simp [List.filter_cons]
      by_cases hb : b = [] <;> simp [hb]
    · rw [h4, h2]; simp

/-- what `normpath(join(root, *segs))` is below an absolute normalised root -/
theorem normJoin_eq (root : Str) (l : List Str) (hroot : AbsNormal root)
    (hl : ∀ b ∈ l, '/' ∉ b) (hd : ∀ b ∈ l, b = [] ∨ (b ≠ dot ∧ b ≠ dotdot)) (hne : l.filter ne ≠ []) :
    normpath (pathJoin root l) = root ++ '/' :: joinWith ['/'] (l.filter ne) := by
  obtain ⟨rs, hrs, hsafe, rfl⟩ := hroot
  have hrsplit : splitOn '/' ('/' :: joinWith ['/'] rs) = [] :: rs := by
    have := splitOn_append_sep '/' [] (joinWith ['/'] rs)
    simp only [List.nil_append] at this
    rw [this, splitOn_joinWith '/' rs hrs (fun s hs => ((safeSeg_iff s).mp (hsafe s hs)).2.2.2.2)]
    simp [splitOn]
  have hrfilter : ([] :: rs).filter ne = rs := by
    simp only [List.filter_cons, ne, List.isEmpty_nil, Bool.not_true, Bool.false_eq_true, if_false]
    apply List.filter_eq_self.mpr
    intro r hr
    have := ((safeSeg_iff r).mp (hsafe r hr)).1
    simp [List.isEmpty_iff, this]
  obtain ⟨hsegs, t, hpre⟩ := pathJoin_segs ('/' :: joinWith ['/'] rs) l (by simp) hl
  rw [hrsplit, hrfilter] at hsegs
  -- one leading slash
  have hk : initialSlashes (pathJoin ('/' :: joinWith ['/'] rs) l) = 1 := by
    rw [hpre]
    cases rs with
    | nil => exact absurd rfl hrs
    | cons r rest =>
      have hr := (safeSeg_iff r).mp (hsafe r (by simp))
      cases r with
      | nil => exact absurd rfl hr.1
      | cons c r' =>
        have hc : c ≠ '/' := fun e => hr.2.2.2.2 (by simp [e])
        cases rest with
        | nil => simp only [joinWith, List.cons_append]; exact initialSlashes_one c _ hc
        | cons b t' => rw [joinWith_cons_cons]; simp only [List.cons_append]; exact initialSlashes_one c _ hc
  have hcomps : ∀ c ∈ splitOn '/' (pathJoin ('/' :: joinWith ['/'] rs) l), c = [] ∨ (c ≠ dot ∧ c ≠ dotdot) := by
    intro c hc
    by_cases hce : c = []
    · exact Or.inl hce
    · right
      have : c ∈ (splitOn '/' (pathJoin ('/' :: joinWith ['/'] rs) l)).filter ne := by
        simp [List.mem_filter, hc, ne, List.isEmpty_iff, hce]
      rw [hsegs] at this
      simp only [List.mem_append, List.mem_filter] at this
      rcases this with hr | ⟨hl', _⟩
      · have := (safeSeg_iff c).mp (hsafe c hr); exact ⟨this.2.1, this.2.2.1⟩
      · rcases hd c hl' with e | e
        · exact absurd e hce
        · exact e
  rw [normpath_safe _ hk hcomps, hsegs, joinWith_append _ _ _ hrs hne]
  simp

end Vinegar.Paths
