import Vinegar.Lemmas.MatcherReject
/-
Helper lemmas for C18, part 5: SOUNDNESS of the parser — the inversion of every function of the
recursive-descent parser: "if it returns (ok value, rest) then the consumed prefix is a legal
rendering of value at that grammar level".

* lexers: `quoted_inv`, `unquoted_inv`, `expectPattern_inv`, `expectKey_inv`, `options_inv`,
  `data_head_inv` / `id_head_inv`, `simple_inv` (a term is one of the documented spellings);
* whitespace and keywords: `skipWs_inv`, `acceptKeyword_inv`, `peekKeyword_none`;
* grammar levels: `Sound P p` = whatever `p` accepts is `lead ++ render c ++ trail` for a legal
  concrete syntax tree `c` with `P c` (the level) whose tree is the returned one; `sound_loop` /
  `sound_generic` for the `and` and `or` levels (one proof, instantiated twice through `BinOp`),
  `sound_unaryRest`, `sound_parenBody`, `sound_unary` (induction on the fuel — no fuel adequacy
  is needed, only accepting runs are inverted);
* `parse_sound_top`: the assembly.
-/
namespace Vinegar.Matcher

/-! ### lexers -/

theorem consFst_ok' {c : Char} {x : Except ParseError (Str × Str)} {s r : Str} (h : consFst c x = .ok (s, r)) :
    ∃ s', x = .ok (s', r) ∧ s = c :: s' := by
  cases x with
  | error e => simp [consFst] at h
  | ok p => obtain ⟨a, b⟩ := p; simp [consFst] at h; exact ⟨a, by rw [h.2], h.1.symm⟩

/-- the text between quotes is the escaped form of what `quoted` returns, up to the closing quote -/
theorem quoted_inv (q : Char) (r : Str) : ∀ s r', quoted q r = .ok (s, r') → r = escape q s ++ q :: r' := by
  fun_induction quoted q r with
  | case1 => intro s r' h; simp at h
  | case2 c => intro s r' h; simp at h
  | case3 c h1 d ds h2 ih =>
    intro s r' h
    obtain ⟨s', hs', rfl⟩ := consFst_ok' h
    have := ih s' r' hs'
    have hc : c = '\\' := (isEscape_iff c).1 h1
    have hd : d = q ∨ d = '\\' := h2.imp id (fun h => (isEscape_iff d).1 h)
    subst hc
    simp only [escape, hd, if_true, List.cons_append]
    rw [← this]
  | case4 c d ds h1 h2 => intro s r' h; simp at h
  | case5 =>
    intro s r' h
    simp at h
    obtain ⟨rfl, rfl⟩ := h
    simp [escape]
  | case6 c cs h1 h2 ih =>
    intro s r' h
    obtain ⟨s', hs', rfl⟩ := consFst_ok' h
    have := ih s' r' hs'
    have hc : ¬ (c = q ∨ c = '\\') := by
      intro hh
      rcases hh with hh | hh
      · exact h2 hh
      · exact h1 ((isEscape_iff c).2 hh)
    simp only [escape, hc, if_false, List.cons_append]
    rw [← this]

theorem unquoted_inv (isStop : Char → Bool) (r : Str) :
    r = (unquoted isStop r).1 ++ (unquoted isStop r).2 ∧ (∀ c ∈ (unquoted isStop r).1, isStop c = false) ∧
    ((unquoted isStop r).2 = [] ∨ ∃ d k, (unquoted isStop r).2 = d :: k ∧ isStop d = true) := by
  induction r with
  | nil => simp [unquoted]
  | cons c cs ih =>
    by_cases h : isStop c = true
    · simp [unquoted, h]
    · have h' : isStop c = false := by simpa using h
      obtain ⟨i1, i2, i3⟩ := ih
      simp only [unquoted, h', Bool.false_eq_true, if_false]
      refine ⟨by simpa using i1, ?_, i3⟩
      intro d hd
      simp at hd
      rcases hd with rfl | hd
      · exact h'
      · exact i2 d hd

theorem unquotedOk_of (isStop : Char → Bool) (x : Char) (y : Str) (hq : isQuote x = false)
    (h : ∀ c ∈ x :: y, isStop c = false) : unquotedOk isStop (x :: y) = true := by
  simp only [unquotedOk, hq, Bool.not_false, Bool.true_and, List.all_eq_true]
  intro d hd
  simp [h d hd]

/-- `_expect_glob_pattern_or_re` accepts exactly a quoted-and-escaped or a stop-free unquoted text -/
theorem expectPattern_inv (r s r' : Str) (h : expectPattern r = .ok (s, r')) :
    ∃ q : Quote, r = renderStr q s ++ r' ∧ (q = .none → unquotedOk isStopPattern s = true ∧ StopP r') := by
  cases r with
  | nil => simp [expectPattern] at h
  | cons c cs =>
    rw [expectPattern.eq_def] at h
    by_cases hq : isQuote c = true
    · simp only [hq, if_true] at h
      have := quoted_inv c cs s r' h
      rcases (isQuote_iff c).1 hq with rfl | rfl
      · exact ⟨.single, by simp [renderStr, this], by intro h; cases h⟩
      · exact ⟨.double, by simp [renderStr, this], by intro h; cases h⟩
    · simp only [hq] at h
      obtain ⟨h1, h2, h3⟩ := unquoted_inv isStopPattern (c :: cs)
      generalize unquoted isStopPattern (c :: cs) = u at h h1 h2 h3
      obtain ⟨a, b⟩ := u
      cases a with
      | nil => simp at h
      | cons x y =>
        simp at h
        obtain ⟨rfl, rfl⟩ := h
        simp only [List.cons_append, List.cons.injEq] at h1
        refine ⟨.none, by simp [renderStr, h1.1, h1.2], fun _ => ⟨?_, h3⟩⟩
        exact unquotedOk_of isStopPattern x y (by rw [← h1.1]; simpa using hq) h2

/-- `_expect_key`: the same, and the key is never empty -/
theorem expectKey_inv (r s r' : Str) (h : expectKey r = .ok (s, r')) :
    s ≠ [] ∧ ∃ q : Quote, r = renderStr q s ++ r' ∧ (q = .none → unquotedOk isStopKey s = true) := by
  cases r with
  | nil => simp [expectKey] at h
  | cons c cs =>
    rw [expectKey.eq_def] at h
    by_cases hq : isQuote c = true
    · simp only [hq, if_true] at h
      cases cs with
      | nil => simp at h
      | cons d ds =>
        by_cases hd : d = c
        · simp [hd] at h
        · simp only [hd, if_false] at h
          have := quoted_inv c (d :: ds) s r' h
          have hne : s ≠ [] := by
            intro hs
            subst hs
            simp [escape] at this
            exact hd this.1
          refine ⟨hne, ?_⟩
          rcases (isQuote_iff c).1 hq with rfl | rfl
          · exact ⟨.single, by simp [renderStr, this], by intro h; cases h⟩
          · exact ⟨.double, by simp [renderStr, this], by intro h; cases h⟩
    · simp only [hq] at h
      obtain ⟨h1, h2, h3⟩ := unquoted_inv isStopKey (c :: cs)
      generalize unquoted isStopKey (c :: cs) = u at h h1 h2 h3
      obtain ⟨a, b⟩ := u
      cases a with
      | nil => simp at h
      | cons x y =>
        simp at h
        obtain ⟨rfl, rfl⟩ := h
        simp only [List.cons_append, List.cons.injEq] at h1
        refine ⟨by simp, .none, by simp [renderStr, h1.1, h1.2], fun _ => ?_⟩
        exact unquotedOk_of isStopKey x y (by rw [← h1.1]; simpa using hq) h2

theorem acceptPrefix_inv {t : List (Str × Bool × Kind)} {r r1 : Str} {o : Bool} {k : Kind}
    (h : acceptPrefix t r = some (o, k, r1)) : ∃ p, (p, o, k) ∈ t ∧ r = p ++ r1 := by
  induction t with
  | nil => simp [acceptPrefix] at h
  | cons x t ih =>
    obtain ⟨p, o', k'⟩ := x
    rw [acceptPrefix] at h
    cases hd : dropPrefix? p r with
    | none =>
      rw [hd] at h
      obtain ⟨p', hm, hr⟩ := ih h
      exact ⟨p', List.mem_cons_of_mem _ hm, hr⟩
    | some r2 =>
      rw [hd] at h
      simp at h
      obtain ⟨rfl, rfl, rfl⟩ := h
      exact ⟨p, by simp, (dropPrefix?_iff _ _ _).1 hd⟩

theorem options_inv (o : Bool) (e r : Str) (cs : Bool) (r2 : Str) (h : options o e r = .ok (cs, r2)) :
    (o = false ∧ cs = true ∧ r2 = r) ∨ (o = true ∧ cs = false ∧ r = optionI ++ (e ++ r2)) ∨
      (o = true ∧ cs = true ∧ r = e ++ r2) := by
  unfold options at h
  cases o with
  | false => simp at h; obtain ⟨rfl, rfl⟩ := h; exact Or.inl ⟨rfl, rfl, rfl⟩
  | true =>
    simp only [if_true] at h
    cases h1 : dropPrefix? optionI r with
    | some r1 =>
      rw [h1] at h
      dsimp only at h
      cases h2 : dropPrefix? e r1 with
      | some r3 =>
        rw [h2] at h
        simp at h
        obtain ⟨rfl, rfl⟩ := h
        refine Or.inr (Or.inl ⟨rfl, rfl, ?_⟩)
        rw [(dropPrefix?_iff _ _ _).1 h1, (dropPrefix?_iff _ _ _).1 h2]
      | none => rw [h2] at h; simp at h
    | none =>
      rw [h1] at h
      dsimp only at h
      cases h2 : dropPrefix? e r with
      | some r3 =>
        rw [h2] at h
        simp at h
        obtain ⟨rfl, rfl⟩ := h
        exact Or.inr (Or.inr ⟨rfl, rfl, (dropPrefix?_iff _ _ _).1 h2⟩)
      | none => rw [h2] at h; simp at h

/-- the `@data_…` head of a term is one of the documented spellings -/
theorem data_head_inv (r : Str) (o : Bool) (kind : Kind) (r1 : Str) (cs : Bool) (r2 : Str)
    (h1 : acceptPrefix dataTable r = some (o, kind, r1)) (h2 : options o dataOptEnd r1 = .ok (cs, r2)) :
    ∃ slash, (slash = true ∨ cs = true) ∧
      r = ['@', 'd', 'a', 't', 'a', '_'] ++ (kindName kind ++ (renderOpts slash cs ++ (':' :: r2))) := by
  obtain ⟨p, hmem, rfl⟩ := acceptPrefix_inv h1
  rw [dataTable_eq] at hmem
  rw [dataOptEnd_eq] at h2
  simp only [List.mem_cons, Prod.mk.injEq, List.not_mem_nil, or_false] at hmem
  refine ⟨o, ?_⟩
  rcases hmem with ⟨rfl, rfl, rfl⟩ | ⟨rfl, rfl, rfl⟩ | ⟨rfl, rfl, rfl⟩ | ⟨rfl, rfl, rfl⟩ | ⟨rfl, rfl, rfl⟩ | ⟨rfl, rfl, rfl⟩ <;>
    rcases options_inv _ _ _ _ _ h2 with ⟨ho, rfl, rfl⟩ | ⟨ho, rfl, rfl⟩ | ⟨ho, rfl, rfl⟩ <;>
    first
      | (cases ho; done)
      | (simp [kindName, renderOpts, optionI_eq]; done)

/-- the `@id_…` head of a term is one of the documented spellings -/
theorem id_head_inv (r : Str) (o : Bool) (kind : Kind) (r1 : Str) (cs : Bool) (r2 : Str)
    (h1 : acceptPrefix idTable r = some (o, kind, r1)) (h2 : options o idOptEnd r1 = .ok (cs, r2)) :
    ∃ slash, (slash = true ∨ cs = true) ∧
      r = ['@', 'i', 'd', '_'] ++ (kindName kind ++ (renderOpts slash cs ++ ('@' :: r2))) := by
  obtain ⟨p, hmem, rfl⟩ := acceptPrefix_inv h1
  rw [idTable_eq] at hmem
  rw [idOptEnd_eq] at h2
  simp only [List.mem_cons, Prod.mk.injEq, List.not_mem_nil, or_false] at hmem
  refine ⟨o, ?_⟩
  rcases hmem with ⟨rfl, rfl, rfl⟩ | ⟨rfl, rfl, rfl⟩ | ⟨rfl, rfl, rfl⟩ | ⟨rfl, rfl, rfl⟩ | ⟨rfl, rfl, rfl⟩ | ⟨rfl, rfl, rfl⟩ <;>
    rcases options_inv _ _ _ _ _ h2 with ⟨ho, rfl, rfl⟩ | ⟨ho, rfl, rfl⟩ | ⟨ho, rfl, rfl⟩ <;>
    first
      | (cases ho; done)
      | (simp [kindName, renderOpts, optionI_eq]; done)

/-- (1) SIMPLE EXPRESSIONS: whatever `SimpleExpressionParser` accepts is a legal spelling
    (prefix, `/`, `/i`, quoting, escapes, shorthand) of exactly the term it returns -/
theorem simple_inv (r : Str) (a : Atom) (r' : Str) (h : simple r = .ok (a, r')) :
    ∃ syn : AtomSyn, syn.atom = a ∧ legalAtom syn = true ∧ r = renderAtom syn ++ r' := by
  unfold simple at h
  cases h1 : acceptPrefix dataTable r with
  | some x =>
    obtain ⟨o, kind, r1⟩ := x
    rw [h1] at h
    simp only at h
    cases h2 : options o dataOptEnd r1 with
    | error e => rw [h2] at h; simp at h
    | ok y =>
      obtain ⟨cs, r2⟩ := y
      rw [h2] at h
      simp only at h
      cases h3 : expectKey r2 with
      | error e => rw [h3] at h; simp at h
      | ok z =>
        obtain ⟨key, r3⟩ := z
        rw [h3] at h
        simp only at h
        cases h4 : dropPrefix? keyEnd r3 with
        | none => rw [h4] at h; simp at h
        | some r4 =>
          rw [h4] at h
          simp only at h
          cases h5 : expectPattern r4 with
          | error e => rw [h5] at h; simp at h
          | ok w =>
            obtain ⟨pat, r5⟩ := w
            rw [h5] at h
            simp at h
            obtain ⟨rfl, rfl⟩ := h
            obtain ⟨slash, hsl, hr⟩ := data_head_inv r o kind r1 cs r2 h1 h2
            obtain ⟨hkne, kq, hk, hkq⟩ := expectKey_inv r2 key r3 h3
            obtain ⟨pq, hp, hpq⟩ := expectPattern_inv r4 pat r5 h5
            have h4' := (dropPrefix?_iff _ _ _).1 h4
            rw [keyEnd_eq] at h4'
            refine ⟨⟨⟨some key, kind, pat, cs⟩, false, slash, kq, pq⟩, rfl, ?_, ?_⟩
            · simp only [legalAtom, Bool.and_eq_true]
              refine ⟨⟨?_, ?_⟩, ?_⟩
              · rcases hsl with h | h <;> simp [h]
              · have : key.isEmpty = false := by
                  cases key with
                  | nil => exact absurd rfl hkne
                  | cons _ _ => rfl
                by_cases hq : kq = .none
                · simp [this, hkq hq]
                · simp [this, hq]
              · by_cases hq : pq = .none
                · simp [(hpq hq).1]
                · simp [hq]
            · rw [hr, hk, h4', hp]
              simp [renderAtom, renderPrefix]
  | none =>
    rw [h1] at h
    simp only at h
    cases h1' : acceptPrefix idTable r with
    | some x =>
      obtain ⟨o, kind, r1⟩ := x
      rw [h1'] at h
      simp only at h
      cases h2 : options o idOptEnd r1 with
      | error e => rw [h2] at h; simp at h
      | ok y =>
        obtain ⟨cs, r2⟩ := y
        rw [h2] at h
        simp only at h
        cases h5 : expectPattern r2 with
        | error e => rw [h5] at h; simp at h
        | ok w =>
          obtain ⟨pat, r5⟩ := w
          rw [h5] at h
          simp at h
          obtain ⟨rfl, rfl⟩ := h
          obtain ⟨slash, hsl, hr⟩ := id_head_inv r o kind r1 cs r2 h1' h2
          obtain ⟨pq, hp, hpq⟩ := expectPattern_inv r2 pat r5 h5
          refine ⟨⟨⟨none, kind, pat, cs⟩, false, slash, .none, pq⟩, rfl, ?_, ?_⟩
          · simp only [legalAtom, Bool.and_eq_true]
            refine ⟨⟨?_, trivial⟩, ?_⟩
            · rcases hsl with h | h <;> simp [h]
            · by_cases hq : pq = .none
              · simp [(hpq hq).1]
              · simp [hq]
          · rw [hr, hp]
            simp [renderAtom, renderPrefix]
    | none =>
      rw [h1'] at h
      simp only at h
      cases h3 : dropPrefix? unsupportedStart r with
      | some _ => rw [h3] at h; simp at h
      | none =>
        rw [h3] at h
        simp only at h
        cases h5 : expectPattern r with
        | error e => rw [h5] at h; simp at h
        | ok w =>
          obtain ⟨pat, r5⟩ := w
          rw [h5] at h
          simp at h
          obtain ⟨rfl, rfl⟩ := h
          obtain ⟨pq, hp, hpq⟩ := expectPattern_inv r pat r5 h5
          refine ⟨⟨⟨none, .glob, pat, false⟩, true, true, .none, pq⟩, rfl, ?_, ?_⟩
          · simp only [legalAtom, Bool.and_eq_true]
            refine ⟨⟨by simp, trivial⟩, ?_⟩
            by_cases hq : pq = .none
            · simp [(hpq hq).1]
            · simp [hq]
          · rw [hp]
            simp [renderAtom, renderPrefix]

theorem renderAtom_bare (a : AtomSyn) (h : bareKeyword a = true) :
    renderAtom a = a.atom.pattern ∧ a.atom.pattern ∈ keywords := by
  simp only [bareKeyword, Bool.and_eq_true] at h
  obtain ⟨⟨h1, h2⟩, h3⟩ := h
  have h2' : a.patQ = .none := by simpa using h2
  refine ⟨by simp [renderAtom, renderPrefix, h1, h2', renderStr], by simpa using h3⟩

/-! ### whitespace, keywords -/

/-- where a keyword is recognised: end of input, `(` or whitespace -/
def Boundary (k : Str) : Prop := k = [] ∨ ∃ d t, k = d :: t ∧ (d = '(' ∨ isSpace d = true)

theorem lastOr_cons (p : Option Char) (c : Char) (l : Str) : lastOr p (c :: l) = lastOr (some c) l := by
  cases l with
  | nil => simp [lastOr]
  | cons a b => rw [lastOr_ne_nil _ _ (by simp), lastOr_ne_nil _ _ (by simp)]; simp

theorem lastOr_append (p : Option Char) (a b : Str) : lastOr (lastOr p a) b = lastOr p (a ++ b) := by
  cases b with
  | nil => simp [lastOr_nil]
  | cons x y =>
    rw [lastOr_ne_nil _ _ (by simp), lastOr_ne_nil _ _ (by simp), getLast?_append_ne _ _ (by simp)]

theorem allSpace_append (a b : Str) (ha : allSpace a = true) (hb : allSpace b = true) : allSpace (a ++ b) = true := by
  simp only [allSpace, List.all_append, Bool.and_eq_true] at *
  exact ⟨ha, hb⟩

theorem skipWsAux_inv (p : Option Char) (r : Str) :
    ∃ ws, allSpace ws = true ∧ r = ws ++ (skipWsAux p r).rest ∧ (skipWsAux p r).prev = lastOr p ws := by
  induction r generalizing p with
  | nil => exact ⟨[], rfl, rfl, rfl⟩
  | cons c cs ih =>
    by_cases h : isSpace c = true
    · obtain ⟨ws, h1, h2, h3⟩ := ih (some c)
      refine ⟨c :: ws, by simp [allSpace, h] at h1 ⊢; exact h1, ?_, ?_⟩
      · simp only [skipWsAux, h, if_true, List.cons_append]; rw [← h2]
      · simp only [skipWsAux, h, if_true]; rw [h3, lastOr_cons]
    · exact ⟨[], rfl, by simp [skipWsAux, h], by simp [skipWsAux, h, lastOr_nil]⟩

/-- (4) WHITESPACE: `_accept_whitespace` removes exactly a run of `str.isspace` characters -/
theorem skipWs_inv (st : St) :
    ∃ ws, allSpace ws = true ∧ st.rest = ws ++ (skipWs st).rest ∧ (skipWs st).prev = lastOr st.prev ws :=
  skipWsAux_inv st.prev st.rest

theorem acceptKeyword_inv {kw : Str} {st st1 : St} (h : acceptKeyword [kw] st = .ok (some st1)) :
    ∃ r, st.rest = kw ++ r ∧ st1 = ⟨lastOr st.prev kw, r⟩ ∧ Boundary r ∧ LookBehindOK st.prev := by
  obtain ⟨r, hr, hst1⟩ := acceptKeyword_some h
  refine ⟨r, hr, hst1, ?_, ?_⟩
  · unfold acceptKeyword peekKeyword at h
    rw [findKeyword_single] at h
    by_cases hk : keywordAt kw st.rest = true
    · rw [hr] at hk; exact (keywordAt_self kw r).1 hk
    · simp [hk] at h
  · unfold acceptKeyword peekKeyword at h
    rw [findKeyword_single] at h
    by_cases hk : keywordAt kw st.rest = true
    · simp only [hk, if_true] at h
      cases hp : st.prev with
      | none => exact Or.inl rfl
      | some p =>
        simp only [hp] at h
        by_cases hb : (isSpace p || kwPrecede.contains [p]) = true
        · refine Or.inr ⟨p, rfl, ?_⟩
          rw [kwPrecede_eq] at hb
          simpa using hb
        · rw [if_neg hb] at h; simp at h
    · simp [hk] at h

theorem peekKeyword_none {kws : List Str} {st : St} (h : peekKeyword kws st = .ok none) :
    findKeyword kws st.rest = none := by
  unfold peekKeyword at h
  cases hf : findKeyword kws st.rest with
  | none => rfl
  | some kw =>
    rw [hf] at h
    cases hp : st.prev with
    | none => simp [hp] at h
    | some p =>
      simp only [hp] at h
      split at h <;> simp at h

/-! ### facts about legal renderings -/

theorem endsParen_not_endsKeyword (c : Cst) (h : endsParen c = true) : endsKeyword c = false := by
  induction c with
  | atom a => simp [endsParen] at h
  | not ws c ih => exact ih (by simpa [endsParen] using h)
  | paren ws1 c ws2 ih => rfl
  | and l ws1 ws2 r ihl ihr => exact ihr (by simpa [endsParen] using h)
  | or l ws1 ws2 r ihl ihr => exact ihr (by simpa [endsParen] using h)

def IsSep (x : Char) : Prop := isSpace x = true ∨ x = '(' ∨ x = ')'

theorem renderAtom_last (a : AtomSyn) (hl : legalAtom a = true) (x : Char)
    (hx : (renderAtom a).getLast? = some x) : ¬ IsSep x := by
  obtain ⟨⟨key, kind, pat, cs⟩, sh, slash, keyQ, patQ⟩ := a
  simp only [legalAtom, Bool.and_eq_true] at hl
  have h3 := hl.2
  simp only [renderAtom] at hx
  by_cases hq : patQ = .none
  · subst hq
    simp at h3
    obtain ⟨c, cs', hs, _, hall⟩ := unquotedOk_cases h3
    have hne : renderStr .none pat ≠ [] := by simp [renderStr, hs]
    rw [getLast?_append_ne _ _ hne] at hx
    simp only [renderStr] at hx
    have hmem : x ∈ pat := List.mem_of_getLast? hx
    have := hall x (by rw [← hs]; exact hmem)
    intro hsep
    rw [(isStopPattern_iff x).2 (by rcases hsep with h | h | h <;> simp [h])] at this
    cases this
  · have hrs := renderStr_quoted patQ hq pat
    have hne : renderStr patQ pat ≠ [] := by rw [hrs]; simp
    rw [getLast?_append_ne _ _ hne, hrs] at hx
    have e : patQ.char :: (escape patQ.char pat ++ [patQ.char]) = (patQ.char :: escape patQ.char pat) ++ [patQ.char] := by
      simp
    rw [e, List.getLast?_append] at hx
    simp at hx
    subst hx
    intro hsep
    cases patQ <;> revert hsep <;> simp [IsSep, Quote.char] <;> decide

/-- a legal rendering whose last character is whitespace or a parenthesis ends with `)` -/
theorem render_last_sep (c : Cst) (hl : legal c = true) (x : Char) (hx : (render c).getLast? = some x)
    (hs : IsSep x) : endsParen c = true := by
  induction c with
  | atom a => exact absurd hs (renderAtom_last a (by simpa [legal] using hl) x (by simpa [render] using hx))
  | not ws c ih =>
    simp only [legal, Bool.and_eq_true] at hl
    simp only [render] at hx
    rw [← List.append_assoc, getLast?_append_ne _ _ (render_ne_nil c hl.2)] at hx
    simpa [endsParen] using ih hl.2 hx
  | paren ws1 c ws2 ih => rfl
  | and l ws1 ws2 r ihl ihr =>
    simp only [legal, Bool.and_eq_true] at hl
    simp only [render] at hx
    rw [← List.append_assoc, ← List.append_assoc, ← List.append_assoc, getLast?_append_ne _ _ (render_ne_nil r hl.1.2)] at hx
    simpa [endsParen] using ihr hl.1.2 hx
  | or l ws1 ws2 r ihl ihr =>
    simp only [legal, Bool.and_eq_true] at hl
    simp only [render] at hx
    rw [← List.append_assoc, ← List.append_assoc, ← List.append_assoc, getLast?_append_ne _ _ (render_ne_nil r hl.1.2)] at hx
    simpa [endsParen] using ihr hl.1.2 hx

/-- a legal rendering standing where a keyword boundary is required starts with `(` -/
theorem startsParen_of_boundary (c : Cst) (hl : legal c = true) (k : Str) (hb : Boundary (render c ++ k)) :
    startsParen c = true := by
  obtain ⟨d, r, hr, hd, _, h4⟩ := render_cons c hl
  rcases hb with hb | ⟨d', t, hb, hd'⟩
  · rw [hr] at hb; simp at hb
  · rw [hr] at hb
    simp at hb
    rw [← hb.1] at hd'
    rcases hd' with hd' | hd'
    · cases hsp : startsParen c with
      | true => rfl
      | false => exact absurd hd' (h4 hsp)
    · rw [hd] at hd'; cases hd'

theorem lead_nil (lead x : Str) (hl : allSpace lead = true) (h : ∀ c t, lead ++ x = c :: t → isSpace c = false) :
    lead = [] := by
  cases lead with
  | nil => rfl
  | cons w l =>
    have := h w (l ++ x) rfl
    simp [allSpace] at hl
    rw [hl.1] at this; cases this

/-! ### the grammar levels -/

/-- `inp` minus what is left in `st'` is whitespace, a legal rendering of level `P` of the tree
    `e`, whitespace; the look-behind character is the last one consumed; a rendering that ends with a
    bare keyword term is not followed by a keyword boundary -/
def SoundAt (P : Cst → Prop) (inp : Str) (e : Expr) (st' : St) : Prop :=
  ∃ lead c trail, allSpace lead = true ∧ allSpace trail = true ∧ legal c = true ∧ P c ∧ abstract c = e ∧
    inp = lead ++ (render c ++ (trail ++ st'.rest)) ∧ st'.prev = lastOr (render c).getLast? trail ∧
    (endsKeyword c = true → trail = [] ∧ ¬ Boundary st'.rest)

def Sound (P : Cst → Prop) (p : St → Res) : Prop :=
  ∀ st e st', p st = .ok (e, st') → SoundAt P st.rest e st'

/-- what the `and` and the `or` level have in common -/
structure BinOp (kw : Str) (mk : Expr → Expr → Expr) (mkC : Cst → Str → Str → Cst → Cst)
    (Psub Pres : Cst → Prop) : Prop where
  sub_res : ∀ c, Psub c → Pres c
  legal_mk : ∀ l w1 w2 r, legal l = true → legal r = true → Pres l → Psub r → allSpace w1 = true → allSpace w2 = true →
    (w1 = [] → endsParen l = true) → (w2 = [] → startsParen r = true) → endsKeyword l = false →
    legal (mkC l w1 w2 r) = true ∧ Pres (mkC l w1 w2 r)
  render_mk : ∀ l w1 w2 r, render (mkC l w1 w2 r) = render l ++ (w1 ++ (kw ++ (w2 ++ render r)))
  abstract_mk : ∀ l w1 w2 r, abstract (mkC l w1 w2 r) = mk (abstract l) (abstract r)
  endsKeyword_mk : ∀ l w1 w2 r, endsKeyword (mkC l w1 w2 r) = endsKeyword r

/-- the whitespace a level skips after an operand joins the operand's trailing whitespace -/
theorem extend_trail (g : Option Char) (trr : Str) (K : Prop) (st2 : St) (htr : allSpace trr = true)
    (hprev : st2.prev = lastOr g trr) (hk : K → trr = [] ∧ ¬ Boundary st2.rest) :
    ∃ ws3, allSpace (trr ++ ws3) = true ∧ st2.rest = ws3 ++ (skipWs st2).rest ∧
      (skipWs st2).prev = lastOr g (trr ++ ws3) ∧ (K → trr ++ ws3 = [] ∧ ¬ Boundary (skipWs st2).rest) := by
  obtain ⟨ws3, hws3, hr3, hp3⟩ := skipWs_inv st2
  refine ⟨ws3, allSpace_append _ _ htr hws3, hr3, by rw [hp3, hprev, lastOr_append], ?_⟩
  intro hK
  obtain ⟨h1, h2⟩ := hk hK
  have : ws3 = [] := by
    cases ws3 with
    | nil => rfl
    | cons w l =>
      exfalso
      apply h2
      rw [hr3]
      simp [allSpace] at hws3
      exact Or.inr ⟨w, _, rfl, Or.inr hws3.1⟩
  subst this
  simp only [List.nil_append] at hr3
  rw [← hr3]
  exact ⟨by simp [h1], h2⟩

theorem sound_loop {kw : Str} {mk : Expr → Expr → Expr} {mkC : Cst → Str → Str → Cst → Cst} {Psub Pres : Cst → Prop}
    (B : BinOp kw mk mkC Psub Pres) (sub : St → Res) (hsub : Sound Psub sub) :
    ∀ (f : Nat) (left : Expr) (st : St) (e : Expr) (st' : St), loop kw sub mk f left st = .ok (e, st') →
    ∀ (cl : Cst) (trail : Str), legal cl = true → Pres cl → abstract cl = left → allSpace trail = true →
      st.prev = lastOr (render cl).getLast? trail → (endsKeyword cl = true → trail = [] ∧ ¬ Boundary st.rest) →
      ∃ c trail', legal c = true ∧ Pres c ∧ abstract c = e ∧ allSpace trail' = true ∧
        render cl ++ (trail ++ st.rest) = render c ++ (trail' ++ st'.rest) ∧
        st'.prev = lastOr (render c).getLast? trail' ∧ (endsKeyword c = true → trail' = [] ∧ ¬ Boundary st'.rest) := by
  intro f
  induction f with
  | zero => intro left st e st' h; simp [loop] at h
  | succ f ih =>
    intro left st e st' h cl trail hlc hP habs htr hprev hek
    rw [loop] at h
    split at h
    · simp at h
      obtain ⟨rfl, rfl⟩ := h
      exact ⟨cl, trail, hlc, hP, habs, htr, rfl, hprev, hek⟩
    · cases ha : acceptKeyword [kw] st with
      | error err => rw [ha] at h; simp at h
      | ok o =>
        rw [ha] at h
        cases o with
        | none =>
          simp at h
          obtain ⟨rfl, rfl⟩ := h
          exact ⟨cl, trail, hlc, hP, habs, htr, rfl, hprev, hek⟩
        | some st1 =>
          dsimp only at h
          obtain ⟨r, hr, hst1, hbr, hlb⟩ := acceptKeyword_inv ha
          cases hs : sub (skipWs st1) with
          | error err => rw [hs] at h; simp at h
          | ok p =>
            obtain ⟨right, st2⟩ := p
            rw [hs] at h
            dsimp only at h
            obtain ⟨ws2, hws2, hr2, _⟩ := skipWs_inv st1
            obtain ⟨lead, cr, trr, hlead, htrr, hlcr, hPr, habr, hinp, hprev2, hekr⟩ := hsub _ _ _ hs
            have hlead0 : lead = [] := lead_nil lead _ hlead (by rw [← hinp]; exact skipWs_head st1)
            subst hlead0
            simp only [List.nil_append] at hinp
            have hst1r : st1.rest = r := by rw [hst1]
            rw [hst1r] at hr2
            obtain ⟨ws3, hws3, hr3, hp3, hk3⟩ := extend_trail _ trr (endsKeyword cr = true) st2 htrr hprev2 hekr
            have hne := render_ne_nil cl hlc
            have hsep1 : trail = [] → endsParen cl = true := by
              intro ht
              subst ht
              rw [lastOr_nil] at hprev
              rcases hlb with hlb | ⟨x, hx, hsep⟩
              · rw [hlb] at hprev
                exact absurd (List.getLast?_eq_none_iff.1 hprev.symm) hne
              · rw [hx] at hprev
                exact render_last_sep cl hlc x hprev.symm hsep
            have hnk : endsKeyword cl = false := by
              cases hk : endsKeyword cl with
              | false => rfl
              | true =>
                have := endsParen_not_endsKeyword cl (hsep1 (hek hk).1)
                rw [hk] at this; cases this
            have hsep2 : ws2 = [] → startsParen cr = true := by
              intro hw
              subst hw
              simp only [List.nil_append] at hr2
              rw [hr2, hinp] at hbr
              exact startsParen_of_boundary cr hlcr _ hbr
            obtain ⟨hlegal, hPres⟩ := B.legal_mk cl trail ws2 cr hlc hlcr hP hPr htr hws2 hsep1 hsep2 hnk
            have hlast : (render (mkC cl trail ws2 cr)).getLast? = (render cr).getLast? := by
              rw [B.render_mk, ← List.append_assoc, ← List.append_assoc, ← List.append_assoc,
                getLast?_append_ne _ _ (render_ne_nil cr hlcr)]
            obtain ⟨c, trail', h1, h2, h3, h4, h5, h6, h7⟩ :=
              ih (mk left right) (skipWs st2) e st' h (mkC cl trail ws2 cr) (trr ++ ws3) hlegal hPres
                (by rw [B.abstract_mk, habs, habr]) hws3 (by rw [hlast]; exact hp3)
                (by rw [B.endsKeyword_mk]; exact hk3)
            refine ⟨c, trail', h1, h2, h3, h4, ?_, h6, h7⟩
            rw [← h5, B.render_mk, hr, hr2, hinp, hr3]
            simp [List.append_assoc]

/-- (3) `_expect_generic_compound_expression`: operands of the level below joined by the
    keyword, left-nested, whitespace as the documentation allows it -/
theorem sound_generic {kw : Str} {mk : Expr → Expr → Expr} {mkC : Cst → Str → Str → Cst → Cst} {Psub Pres : Cst → Prop}
    (B : BinOp kw mk mkC Psub Pres) (sub : St → Res) (hsub : Sound Psub sub) : Sound Pres (generic kw sub mk) := by
  intro st e st' h
  unfold generic at h
  cases hs : sub (skipWs st) with
  | error err => rw [hs] at h; simp at h
  | ok p =>
    obtain ⟨left, st1⟩ := p
    rw [hs] at h
    dsimp only at h
    obtain ⟨ws0, hws0, hr0, _⟩ := skipWs_inv st
    obtain ⟨lead, cl, trl, hlead, htrl, hlcl, hPl, habl, hinp, hprev1, hekl⟩ := hsub _ _ _ hs
    obtain ⟨ws1, hws1, hr1, hp1, hk1⟩ := extend_trail _ trl (endsKeyword cl = true) st1 htrl hprev1 hekl
    obtain ⟨c, trail', h1, h2, h3, h4, h5, h6, h7⟩ :=
      sound_loop B sub hsub _ left (skipWs st1) e st' h cl (trl ++ ws1) hlcl (B.sub_res _ hPl) habl hws1 hp1 hk1
    refine ⟨ws0 ++ lead, c, trail', allSpace_append _ _ hws0 hlead, h4, h1, h2, h3, ?_, h6, h7⟩
    rw [hr0, hinp, hr1, List.append_assoc, ← h5]
    simp [List.append_assoc]

def IsUnary (c : Cst) : Prop := level c = 3
def IsAnd (c : Cst) : Prop := 2 ≤ level c
def IsAny (_ : Cst) : Prop := True

theorem sep_cond (w : Str) (b : Bool) (h : w = [] → b = true) : (!w.isEmpty || b) = true := by
  cases w with
  | nil => simp [h rfl]
  | cons _ _ => rfl

theorem binOp_and : BinOp kwAnd Expr.and Cst.and IsUnary IsAnd where
  sub_res := fun c h => by unfold IsUnary at h; unfold IsAnd; omega
  legal_mk := fun l w1 w2 r hl hr hPl hPr h1 h2 h3 h4 h5 => by
    unfold IsAnd IsUnary at *
    refine ⟨?_, by simp [level]⟩
    simp only [legal, Bool.and_eq_true]
    exact ⟨⟨⟨⟨⟨⟨⟨⟨h1, h2⟩, sep_cond _ _ h3⟩, sep_cond _ _ h4⟩, by simpa using hPl⟩, by simp [hPr]⟩, hl⟩, hr⟩, by simp [h5]⟩
  render_mk := fun _ _ _ _ => rfl
  abstract_mk := fun _ _ _ _ => rfl
  endsKeyword_mk := fun _ _ _ _ => rfl

theorem binOp_or : BinOp kwOr Expr.or Cst.or IsAnd IsAny where
  sub_res := fun _ _ => trivial
  legal_mk := fun l w1 w2 r hl hr _ hPr h1 h2 h3 h4 h5 => by
    unfold IsAnd at *
    refine ⟨?_, trivial⟩
    simp only [legal, Bool.and_eq_true]
    exact ⟨⟨⟨⟨⟨⟨⟨h1, h2⟩, sep_cond _ _ h3⟩, sep_cond _ _ h4⟩, by simpa using hPr⟩, hl⟩, hr⟩, by simp [h5]⟩
  render_mk := fun _ _ _ _ => rfl
  abstract_mk := fun _ _ _ _ => rfl
  endsKeyword_mk := fun _ _ _ _ => rfl

theorem sound_andLevel (u : St → Res) (hu : Sound IsUnary u) : Sound IsAnd (andLevel u) :=
  sound_generic binOp_and u hu

theorem sound_orLevel (u : St → Res) (hu : Sound IsUnary u) : Sound IsAny (orLevel u) :=
  sound_generic binOp_or _ (sound_andLevel u hu)

/-- a term read by `_expect_simple_expression` (no keyword was seen at this position) -/
theorem sound_simpleExpr (st : St) (e : Expr) (st' : St) (hnk : findKeyword keywords st.rest = none)
    (h : simpleExpr st = .ok (e, st')) : SoundAt IsUnary st.rest e st' := by
  unfold simpleExpr at h
  cases hs : simple st.rest with
  | error err => rw [hs] at h; simp at h
  | ok p =>
    obtain ⟨a, r⟩ := p
    rw [hs] at h
    simp at h
    obtain ⟨rfl, rfl⟩ := h
    obtain ⟨syn, rfl, hleg, hr⟩ := simple_inv _ _ _ hs
    obtain ⟨d, t, hd, _, _⟩ := renderAtom_cons syn hleg
    have hne : renderAtom syn ≠ [] := by rw [hd]; simp
    have hcons : consume (st.rest.length - r.length) st = ⟨lastOr st.prev (renderAtom syn), r⟩ := by
      have : st.rest.length - r.length = (renderAtom syn).length := by rw [hr]; simp
      rw [this]
      have := consume_append st.prev (renderAtom syn) r
      rw [← hr] at this
      exact this
    refine ⟨[], .atom syn, [], rfl, rfl, by simpa [legal] using hleg, rfl, rfl, ?_, ?_, ?_⟩
    · rw [hcons]; simpa [render] using hr
    · rw [hcons, lastOr_nil]; simp only [render]; exact lastOr_ne_nil _ _ hne
    · intro hek
      refine ⟨rfl, ?_⟩
      rw [hcons]
      simp only
      obtain ⟨h1, h2⟩ := renderAtom_bare syn (by simpa [endsKeyword] using hek)
      rw [hr, h1] at hnk
      unfold findKeyword at hnk
      rw [List.find?_eq_none] at hnk
      have := hnk _ h2
      intro hb
      exact this ((keywordAt_self _ r).2 hb)

/-- (2) the `not` level -/
theorem sound_unaryRest (self : St → Res) (hself : Sound IsUnary self) : Sound IsUnary (unaryRest self) := by
  intro st e st' h
  unfold unaryRest at h
  cases hp : peekKeyword keywords st with
  | error err => rw [hp] at h; simp at h
  | ok o =>
    rw [hp] at h
    cases o with
    | none => exact sound_simpleExpr st e st' (peekKeyword_none hp) h
    | some kw =>
      dsimp only at h
      by_cases hk : kw = kwNot
      · subst hk
        simp only [if_true] at h
        obtain ⟨_, hat⟩ := peekKeyword_some hp
        obtain ⟨r, hr⟩ := keywordAt_prefix hat
        have hbr : Boundary r := by rw [hr] at hat; exact (keywordAt_self kwNot r).1 hat
        have hc : consume kwNot.length st = ⟨lastOr st.prev kwNot, r⟩ := by
          have := consume_append st.prev kwNot r
          rw [← hr] at this; exact this
        rw [hc] at h
        cases hs : self (skipWs ⟨lastOr st.prev kwNot, r⟩) with
        | error err => rw [hs] at h; simp at h
        | ok q =>
          obtain ⟨e1, st1⟩ := q
          rw [hs] at h
          simp at h
          obtain ⟨rfl, rfl⟩ := h
          obtain ⟨ws, hws, hr2, _⟩ := skipWs_inv ⟨lastOr st.prev kwNot, r⟩
          obtain ⟨lead, c, trail, hlead, htrail, hlc, hP, habs, hinp, hprev, hek⟩ := hself _ _ _ hs
          have hlead0 : lead = [] := lead_nil lead _ hlead (by rw [← hinp]; exact skipWs_head _)
          subst hlead0
          simp only [List.nil_append] at hinp hr2
          have hsep : ws = [] → startsParen c = true := by
            intro hw
            subst hw
            simp only [List.nil_append] at hr2
            rw [hr2, hinp] at hbr
            exact startsParen_of_boundary c hlc _ hbr
          refine ⟨[], .not ws c, trail, rfl, htrail, ?_, rfl, by simp [abstract, habs], ?_, ?_, ?_⟩
          · simp only [legal, Bool.and_eq_true]
            exact ⟨⟨⟨hws, sep_cond _ _ hsep⟩, by unfold IsUnary at hP; simp [hP]⟩, hlc⟩
          · rw [hr, hr2, hinp]; simp [render, List.append_assoc]
          · rw [hprev]
            simp only [render]
            rw [← List.append_assoc, getLast?_append_ne _ _ (render_ne_nil c hlc)]
          · simpa [endsKeyword] using hek
      · simp [hk] at h

/-- (3) a parenthesised group -/
theorem sound_parenBody (orL : St → Res) (hor : Sound IsAny orL) (p : Option Char) (r : Str) (e : Expr) (st' : St)
    (h : parenBody orL r = .ok (e, st')) : SoundAt IsUnary (St.mk p ('(' :: r)).rest e st' := by
  unfold parenBody at h
  cases hs : orL ⟨some '(', r⟩ with
  | error err => rw [hs] at h; simp at h
  | ok q =>
    obtain ⟨e1, st1⟩ := q
    rw [hs] at h
    dsimp only at h
    obtain ⟨lead, c, trail, hlead, htrail, hlc, _, habs, hinp, _, hek⟩ := hor _ _ _ hs
    cases h1 : st1.rest with
    | nil => rw [h1] at h; simp at h
    | cons d r1 =>
      rw [h1] at h
      dsimp only at h
      by_cases hd : d = ')'
      · subst hd
        simp at h
        obtain ⟨rfl, rfl⟩ := h
        rw [h1] at hinp hek
        simp only at hinp
        refine ⟨[], .paren lead c trail, [], rfl, rfl, ?_, rfl, by simp [abstract, habs], ?_, ?_, ?_⟩
        · simp only [legal, Bool.and_eq_true]
          refine ⟨⟨⟨hlead, htrail⟩, hlc⟩, ?_⟩
          cases hk : endsKeyword c with
          | false => simp
          | true => simp [(hek hk).1]
        · simp only [List.nil_append, render]
          rw [hinp]; simp [List.append_assoc]
        · rw [lastOr_nil]
          simp only [render]
          have : '(' :: (lead ++ (render c ++ (trail ++ [')']))) = ('(' :: (lead ++ (render c ++ trail))) ++ [')'] := by simp
          rw [this, List.getLast?_append]; rfl
        · intro hk; simp [endsKeyword] at hk
      · simp [hd] at h

/-- `_expect_unary_expression`, for every amount of fuel -/
theorem sound_unary : ∀ n, Sound IsUnary (unary n) := by
  intro n
  induction n with
  | zero => intro st e st' h; simp [unary] at h
  | succ n ih =>
    intro st e st' h
    obtain ⟨p, rest⟩ := st
    cases rest with
    | nil =>
      have : unary (n + 1) ⟨p, []⟩ = unaryRest (unary n) ⟨p, []⟩ := by rw [unary]
      rw [this] at h
      exact sound_unaryRest (unary n) ih _ _ _ h
    | cons c r =>
      by_cases hc : c = '('
      · subst hc
        rw [unary_succ_paren] at h
        exact sound_parenBody _ (sound_orLevel _ ih) p r e st' h
      · rw [unary_succ_nonparen n p c r hc] at h
        exact sound_unaryRest (unary n) ih _ _ _ h

/-- every accepted string is a legal rendering of exactly the tree the parser returns -/
theorem parse_sound_top (s : Str) (t : Expr) (h : parse s = .ok t) :
    ∃ lead c trail, legalTop lead c trail = true ∧ renderTop lead c trail = s ∧ abstract c = t := by
  unfold parse at h
  cases ho : orLevel (unary (s.length + 1)) ⟨none, s⟩ with
  | error err => rw [ho] at h; simp at h
  | ok q =>
    obtain ⟨e, st⟩ := q
    rw [ho] at h
    dsimp only at h
    cases hr : st.rest with
    | cons d r => rw [hr] at h; simp at h
    | nil =>
      rw [hr] at h
      simp at h
      subst h
      obtain ⟨lead, c, trail, hlead, htrail, hlc, _, habs, hinp, _, hek⟩ := sound_orLevel _ (sound_unary _) _ _ _ ho
      rw [hr] at hinp hek
      simp only [List.append_nil] at hinp
      refine ⟨lead, c, trail, ?_, hinp.symm, habs⟩
      simp only [legalTop, Bool.and_eq_true]
      refine ⟨⟨⟨hlead, htrail⟩, hlc⟩, ?_⟩
      cases hk : endsKeyword c with
      | false => rfl
      | true => exact absurd (Or.inl rfl) (hek hk).2

end Vinegar.Matcher
