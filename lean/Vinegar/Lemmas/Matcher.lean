import Vinegar.Spec.Matcher
/-
Helper lemmas for C18 (system matcher), part 1: literal tables of the translator, string-level
round trips (quoting, unquoted text, terms), whitespace and keyword look-ahead, and the
consumption / fuel-adequacy invariants of the recursive-descent parser.
-/
namespace Vinegar.Matcher

theorem keywords_eq : keywords = [kwAnd, kwNot, kwOr] := by decide
theorem kwFollow_eq : kwFollow = [['(']] := by decide
theorem kwPrecede_eq : kwPrecede = [['('], [')']] := by decide
theorem reservedPattern_eq : reservedPattern = [['@'], ['('], [')']] := by decide
theorem reservedKey_eq : reservedKey = [['@'], ['('], [')']] := by decide
theorem quoteStrs_eq : quoteStrs = [['\''], ['"']] := by decide
theorem escapeStr_eq : escapeStr = ['\\'] := by decide
theorem optionI_eq : optionI = ['i'] := by decide
theorem dataOptEnd_eq : dataOptEnd = [':'] := by decide
theorem idOptEnd_eq : idOptEnd = ['@'] := by decide
theorem keyEnd_eq : keyEnd = ['@'] := by decide
theorem unsupportedStart_eq : unsupportedStart = ['@'] := by decide
theorem dataTable_eq : dataTable =
    [ (['@','d','a','t','a','_','g','l','o','b','/'], true, .glob),
      (['@','d','a','t','a','_','g','l','o','b',':'], false, .glob),
      (['@','d','a','t','a','_','l','i','t','e','r','a','l','/'], true, .literal),
      (['@','d','a','t','a','_','l','i','t','e','r','a','l',':'], false, .literal),
      (['@','d','a','t','a','_','r','e','/'], true, .re),
      (['@','d','a','t','a','_','r','e',':'], false, .re) ] := by decide
theorem idTable_eq : idTable =
    [ (['@','i','d','_','g','l','o','b','/'], true, .glob),
      (['@','i','d','_','g','l','o','b','@'], false, .glob),
      (['@','i','d','_','l','i','t','e','r','a','l','/'], true, .literal),
      (['@','i','d','_','l','i','t','e','r','a','l','@'], false, .literal),
      (['@','i','d','_','r','e','/'], true, .re),
      (['@','i','d','_','r','e','@'], false, .re) ] := by decide

theorem isQuote_iff (c : Char) : isQuote c = true ↔ (c = '\'' ∨ c = '"') := by
  unfold isQuote; rw [quoteStrs_eq]; simp
theorem isEscape_iff (c : Char) : isEscape c = true ↔ c = '\\' := by
  unfold isEscape; rw [escapeStr_eq]; simp; exact eq_comm
theorem isStopPattern_iff (c : Char) : isStopPattern c = true ↔ (isSpace c = true ∨ c = '@' ∨ c = '(' ∨ c = ')') := by
  unfold isStopPattern; rw [reservedPattern_eq]; simp
theorem isStopKey_iff (c : Char) : isStopKey c = true ↔ (isSpace c = true ∨ c = '@' ∨ c = '(' ∨ c = ')') := by
  unfold isStopKey; rw [reservedKey_eq]; simp

/-! ### strings -/

theorem dropPrefix?_iff (p r k : Str) : dropPrefix? p r = some k ↔ r = p ++ k := by
  induction p generalizing r with
  | nil => simp [dropPrefix?, eq_comm]
  | cons a p ih =>
    cases r with
    | nil => simp [dropPrefix?]
    | cons c cs =>
      by_cases h : a = c
      · subst h; simp [dropPrefix?, ih]
      · simp [dropPrefix?, h]; intro h'; exact absurd h'.symm h

theorem dropPrefix?_append (p k : Str) : dropPrefix? p (p ++ k) = some k :=
  (dropPrefix?_iff p (p ++ k) k).2 rfl

theorem dropPrefix?_length {p r k : Str} (h : dropPrefix? p r = some k) : k.length + p.length = r.length := by
  rw [(dropPrefix?_iff p r k).1 h]; simp; omega

theorem dropPrefix?_head_ne (p : Str) (a c : Char) (r : Str) (h : a ≠ c) : dropPrefix? (a :: p) (c :: r) = none := by
  simp [dropPrefix?, h]

theorem quoted_quote (q : Char) (hq : q ≠ '\\') (cs : Str) : quoted q (q :: cs) = .ok ([], cs) := by
  have : isEscape q = false := by
    cases h : isEscape q with
    | false => rfl
    | true => exact absurd ((isEscape_iff q).1 h) hq
  rw [quoted.eq_def]; simp [this]

theorem quoted_plain (q c : Char) (h1 : c ≠ '\\') (h2 : c ≠ q) (cs : Str) :
    quoted q (c :: cs) = consFst c (quoted q cs) := by
  have : isEscape c = false := by
    cases h : isEscape c with
    | false => rfl
    | true => exact absurd ((isEscape_iff c).1 h) h1
  rw [quoted.eq_def]; simp [this, h2]

theorem quoted_esc (q d : Char) (hd : d = q ∨ d = '\\') (ds : Str) :
    quoted q ('\\' :: d :: ds) = consFst d (quoted q ds) := by
  have h1 : isEscape '\\' = true := (isEscape_iff _).2 rfl
  have h2 : d = q ∨ isEscape d = true := hd.imp id (fun h => (isEscape_iff d).2 h)
  rw [quoted.eq_def]; simp [h1, h2]

theorem quoted_escape (q : Char) (hq : q ≠ '\\') (s k : Str) :
    quoted q (escape q s ++ q :: k) = .ok (s, k) := by
  induction s with
  | nil => simpa [escape] using quoted_quote q hq k
  | cons c cs ih =>
    by_cases h : c = q ∨ c = '\\'
    · have : quoted q ('\\' :: c :: (escape q cs ++ q :: k)) = .ok (c :: cs, k) := by
        rw [quoted_esc q c h, ih]; rfl
      simpa [escape, h] using this
    · have h1 : c ≠ q := fun e => h (Or.inl e)
      have h2 : c ≠ '\\' := fun e => h (Or.inr e)
      have : quoted q (c :: (escape q cs ++ q :: k)) = .ok (c :: cs, k) := by
        rw [quoted_plain q c h2 h1, ih]; rfl
      simpa [escape, h] using this

theorem unquoted_append (isStop : Char → Bool) (s k : Str) (hs : ∀ c ∈ s, isStop c = false)
    (hk : k = [] ∨ ∃ d k', k = d :: k' ∧ isStop d = true) : unquoted isStop (s ++ k) = (s, k) := by
  induction s with
  | nil =>
    rcases hk with rfl | ⟨d, k', rfl, hd⟩
    · simp [unquoted]
    · simp [unquoted, hd]
  | cons c cs ih =>
    have hc : isStop c = false := hs c (by simp)
    have := ih (fun d hd => hs d (by simp [hd]))
    simp [unquoted, hc, this]

/-! ### terms -/

/-- what may follow an unquoted pattern: end of input or a stop character -/
def StopP (k : Str) : Prop := k = [] ∨ ∃ d k', k = d :: k' ∧ isStopPattern d = true

theorem unquotedOk_cases {isStop : Char → Bool} {s : Str} (h : unquotedOk isStop s = true) :
    ∃ c cs, s = c :: cs ∧ isQuote c = false ∧ ∀ d ∈ c :: cs, isStop d = false := by
  cases s with
  | nil => simp [unquotedOk] at h
  | cons c cs =>
    simp [unquotedOk] at h
    exact ⟨c, cs, rfl, h.1, by simpa using h.2⟩

theorem expectPattern_unquoted (s k : Str) (hs : unquotedOk isStopPattern s = true) (hk : StopP k) :
    expectPattern (s ++ k) = .ok (s, k) := by
  obtain ⟨c, cs, rfl, hq, hall⟩ := unquotedOk_cases hs
  have hu := unquoted_append isStopPattern (c :: cs) k hall (by
    rcases hk with h | ⟨d, k', h1, h2⟩
    · exact Or.inl h
    · exact Or.inr ⟨d, k', h1, h2⟩)
  show expectPattern (c :: (cs ++ k)) = _
  rw [expectPattern.eq_def]
  simp only [hq]
  have hu' : unquoted isStopPattern (c :: (cs ++ k)) = (c :: cs, k) := hu
  rw [hu']
  simp

theorem quote_ne_escape (q : Quote) : q.char ≠ '\\' := by cases q <;> decide
theorem isQuote_char (q : Quote) : isQuote q.char = true := by
  cases q <;> exact (isQuote_iff _).2 (by decide)

theorem renderStr_quoted (q : Quote) (hq : q ≠ .none) (s : Str) :
    renderStr q s = q.char :: (escape q.char s ++ [q.char]) := by
  cases q <;> simp_all [renderStr, Quote.char]

theorem expectPattern_render (q : Quote) (s k : Str)
    (h : q = .none → unquotedOk isStopPattern s = true ∧ StopP k) :
    expectPattern (renderStr q s ++ k) = .ok (s, k) := by
  by_cases hq : q = .none
  · subst hq; exact expectPattern_unquoted s k (h rfl).1 (h rfl).2
  · rw [renderStr_quoted q hq]
    show expectPattern (q.char :: ((escape q.char s ++ [q.char]) ++ k)) = _
    rw [expectPattern.eq_def]
    simp only [isQuote_char, if_true]
    have := quoted_escape q.char (quote_ne_escape q) s k
    simpa using this

theorem escape_head (q : Char) (hq : q ≠ '\\') (c : Char) (cs : Str) :
    ∃ d ds, escape q (c :: cs) = d :: ds ∧ d ≠ q := by
  by_cases h : c = q ∨ c = '\\'
  · exact ⟨'\\', c :: escape q cs, by simp [escape, h], fun e => hq e.symm⟩
  · exact ⟨c, escape q cs, by simp [escape, h], fun e => h (Or.inl e)⟩

theorem expectKey_render (q : Quote) (s k : Str) (hne : s ≠ [])
    (h : q = .none → unquotedOk isStopKey s = true) :
    expectKey (renderStr q s ++ '@' :: k) = .ok (s, '@' :: k) := by
  by_cases hq : q = .none
  · subst hq
    obtain ⟨c, cs, rfl, hqc, hall⟩ := unquotedOk_cases (h rfl)
    have hu := unquoted_append isStopKey (c :: cs) ('@' :: k) hall
      (Or.inr ⟨'@', k, rfl, (isStopKey_iff _).2 (Or.inr (Or.inl rfl))⟩)
    show expectKey (c :: (cs ++ '@' :: k)) = _
    rw [expectKey.eq_def]
    simp only [hqc]
    have hu' : unquoted isStopKey (c :: (cs ++ '@' :: k)) = (c :: cs, '@' :: k) := hu
    rw [hu']
    simp
  · rw [renderStr_quoted q hq]
    obtain ⟨c, cs, rfl⟩ := List.exists_cons_of_ne_nil hne
    obtain ⟨d, ds, he, hd'⟩ := escape_head q.char (quote_ne_escape q) c cs
    have hq2 := quoted_escape q.char (quote_ne_escape q) (c :: cs) ('@' :: k)
    rw [he] at hq2 ⊢
    show expectKey (q.char :: (d :: ds ++ [q.char] ++ '@' :: k)) = _
    rw [expectKey.eq_def]
    simp only [isQuote_char, if_true]
    simp only [List.cons_append, hd', if_false]
    simpa using hq2

theorem acceptPrefix_data_ne_at (c : Char) (r : Str) (h : c ≠ '@') : acceptPrefix dataTable (c :: r) = none := by
  rw [dataTable_eq]; simp [acceptPrefix, dropPrefix?, Ne.symm h]
theorem acceptPrefix_id_ne_at (c : Char) (r : Str) (h : c ≠ '@') : acceptPrefix idTable (c :: r) = none := by
  rw [idTable_eq]; simp [acceptPrefix, dropPrefix?, Ne.symm h]

theorem data_head (kind : Kind) (slash cs : Bool) (rest : Str) (h : slash = true ∨ cs = true) :
    ∃ o r1, acceptPrefix dataTable
        (['@', 'd', 'a', 't', 'a', '_'] ++ (kindName kind ++ (renderOpts slash cs ++ (':' :: rest)))) = some (o, kind, r1) ∧
      options o dataOptEnd r1 = .ok (cs, rest) := by
  rw [dataTable_eq, dataOptEnd_eq]
  cases kind <;> cases slash <;> cases cs <;>
    simp_all [acceptPrefix, dropPrefix?, kindName, renderOpts, options, optionI_eq]

theorem id_head (kind : Kind) (slash cs : Bool) (rest : Str) (h : slash = true ∨ cs = true) :
    acceptPrefix dataTable (['@', 'i', 'd', '_'] ++ (kindName kind ++ (renderOpts slash cs ++ ('@' :: rest)))) = none ∧
    ∃ o r1, acceptPrefix idTable
        (['@', 'i', 'd', '_'] ++ (kindName kind ++ (renderOpts slash cs ++ ('@' :: rest)))) = some (o, kind, r1) ∧
      options o idOptEnd r1 = .ok (cs, rest) := by
  rw [dataTable_eq, idTable_eq, idOptEnd_eq]
  cases kind <;> cases slash <;> cases cs <;>
    simp_all [acceptPrefix, dropPrefix?, kindName, renderOpts, options, optionI_eq]

theorem renderStr_head_ne_at (q : Quote) (s k : Str) (h : q = .none → unquotedOk isStopPattern s = true) :
    ∃ c r, renderStr q s ++ k = c :: r ∧ c ≠ '@' ∧ c ≠ '(' ∧ isSpace c = false := by
  by_cases hq : q = .none
  · subst hq
    obtain ⟨c, cs, rfl, _, hall⟩ := unquotedOk_cases (h rfl)
    have hc := hall c (by simp)
    have hn : ¬ (isSpace c = true ∨ c = '@' ∨ c = '(' ∨ c = ')') := by
      intro hh; rw [(isStopPattern_iff c).2 hh] at hc; cases hc
    refine ⟨c, cs ++ k, rfl, fun e => hn (by simp [e]), fun e => hn (by simp [e]), ?_⟩
    cases hsp : isSpace c with
    | false => rfl
    | true => exact absurd (Or.inl hsp) hn
  · rw [renderStr_quoted q hq]
    exact ⟨q.char, _, rfl, by cases q <;> decide, by cases q <;> decide, by cases q <;> decide⟩

theorem simple_render (a : AtomSyn) (k : Str) (hl : legalAtom a = true) (hk : a.patQ = .none → StopP k) :
    simple (renderAtom a ++ k) = .ok (a.atom, k) := by
  obtain ⟨⟨key, kind, pat, cs⟩, sh, slash, keyQ, patQ⟩ := a
  simp only [legalAtom, Bool.and_eq_true] at hl
  obtain ⟨⟨h1, h2⟩, h3⟩ := hl
  have hpat : patQ = .none → unquotedOk isStopPattern pat = true ∧ StopP k := by
    intro hq
    simp [hq] at h3
    exact ⟨h3, hk hq⟩
  have hP := expectPattern_render patQ pat k hpat
  cases sh with
  | true =>
    simp at h1
    obtain ⟨⟨hkey, hkind⟩, hcs⟩ := h1
    subst hkey; subst hkind; subst hcs
    obtain ⟨c, r, hr, hc, _, _⟩ := renderStr_head_ne_at patQ pat k (fun hq => (hpat hq).1)
    simp only [renderAtom, renderPrefix, if_true, List.nil_append]
    rw [simple, hr, acceptPrefix_data_ne_at c r hc, acceptPrefix_id_ne_at c r hc, unsupportedStart_eq]
    simp only [dropPrefix?, Ne.symm hc, if_false]
    rw [← hr, hP]
  | false =>
    have hsc : slash = true ∨ cs = true := by simpa using h1
    cases key with
    | some k0 =>
      simp at h2
      have hK := expectKey_render keyQ k0 (renderStr patQ pat ++ k) (by simpa using h2.1)
        (fun hq => by simpa [hq] using h2.2)
      obtain ⟨o, r1, hacc, hopt⟩ := data_head kind slash cs (renderStr keyQ k0 ++ '@' :: (renderStr patQ pat ++ k)) hsc
      have hrender : renderAtom ⟨⟨some k0, kind, pat, cs⟩, false, slash, keyQ, patQ⟩ ++ k =
          ['@', 'd', 'a', 't', 'a', '_'] ++ (kindName kind ++ (renderOpts slash cs ++
            (':' :: (renderStr keyQ k0 ++ '@' :: (renderStr patQ pat ++ k))))) := by
        simp [renderAtom, renderPrefix]
      rw [hrender, simple, hacc]
      simp only [hopt, hK, keyEnd_eq, dropPrefix?, if_true, hP]
    | none =>
      obtain ⟨hnone, o, r1, hacc, hopt⟩ := id_head kind slash cs (renderStr patQ pat ++ k) hsc
      have hrender : renderAtom ⟨⟨none, kind, pat, cs⟩, false, slash, keyQ, patQ⟩ ++ k =
          ['@', 'i', 'd', '_'] ++ (kindName kind ++ (renderOpts slash cs ++ ('@' :: (renderStr patQ pat ++ k)))) := by
        simp [renderAtom, renderPrefix]
      rw [hrender, simple, hnone, hacc]
      simp only [hopt, hP]

/-! ### whitespace, keywords, consumption -/

theorem lastOr_nil (d : Option Char) : lastOr d [] = d := rfl
theorem lastOr_ne_nil (d : Option Char) (l : Str) (h : l ≠ []) : lastOr d l = l.getLast? := by
  unfold lastOr
  cases hl : l.getLast? with
  | none => simp [List.getLast?_eq_none_iff] at hl; exact absurd hl h
  | some c => rfl
theorem lastOr_append_cons (d : Option Char) (l : Str) (c : Char) : lastOr d (l ++ [c]) = some c := by
  simp [lastOr]

theorem consume_append (p : Option Char) (x k : Str) : consume x.length ⟨p, x ++ k⟩ = ⟨lastOr p x, k⟩ := by
  simp [consume]

theorem skipWsAux_append (p : Option Char) (ws k : Str) (hws : allSpace ws = true)
    (hk : ∀ c r, k = c :: r → isSpace c = false) : skipWsAux p (ws ++ k) = ⟨lastOr p ws, k⟩ := by
  induction ws generalizing p with
  | nil =>
    cases k with
    | nil => rfl
    | cons c r => simp [skipWsAux, hk c r rfl, lastOr_nil]
  | cons w ws ih =>
    simp [allSpace] at hws
    have := ih (some w) (by simpa [allSpace] using hws.2)
    simp only [List.cons_append, skipWsAux, hws.1, if_true, this]
    congr 1
    cases ws with
    | nil => simp [lastOr]
    | cons a b => rw [lastOr_ne_nil _ _ (by simp), lastOr_ne_nil _ _ (by simp)]; simp

theorem skipWs_append (p : Option Char) (ws k : Str) (hws : allSpace ws = true)
    (hk : ∀ c r, k = c :: r → isSpace c = false) : skipWs ⟨p, ws ++ k⟩ = ⟨lastOr p ws, k⟩ :=
  skipWsAux_append p ws k hws hk

theorem skipWs_nospace (p : Option Char) (k : Str) (hk : ∀ c r, k = c :: r → isSpace c = false) :
    skipWs ⟨p, k⟩ = ⟨p, k⟩ := by
  simpa [lastOr] using skipWs_append p [] k rfl hk

theorem skipWsAux_spec (p : Option Char) (r : Str) :
    (skipWsAux p r).rest.length ≤ r.length ∧ (∀ c t, (skipWsAux p r).rest = c :: t → isSpace c = false) := by
  induction r generalizing p with
  | nil => simp [skipWsAux]
  | cons c cs ih =>
    by_cases h : isSpace c = true
    · simp only [skipWsAux, h, if_true]
      exact ⟨Nat.le_succ_of_le (ih (some c)).1, (ih (some c)).2⟩
    · simp only [skipWsAux, h]
      refine ⟨Nat.le_refl _, ?_⟩
      intro c' t heq
      simp at heq
      rw [← heq.1]; simpa using h

theorem skipWs_length (st : St) : (skipWs st).rest.length ≤ st.rest.length := (skipWsAux_spec _ _).1
theorem skipWs_head (st : St) : ∀ c t, (skipWs st).rest = c :: t → isSpace c = false := (skipWsAux_spec _ _).2
theorem skipWs_idem (st : St) : skipWs (skipWs st) = skipWs st := by
  have := skipWs_nospace (skipWs st).prev (skipWs st).rest (skipWs_head st)
  simpa using this

theorem consume_length (n : Nat) (st : St) : (consume n st).rest.length ≤ st.rest.length := by
  simp [consume]

theorem findKeyword_single (kw rest : Str) : findKeyword [kw] rest = if keywordAt kw rest then some kw else none := by
  simp [findKeyword, List.find?]
  cases keywordAt kw rest <;> rfl

theorem keywordAt_prefix {kw rest : Str} (h : keywordAt kw rest = true) : ∃ r, rest = kw ++ r := by
  unfold keywordAt at h
  cases hd : dropPrefix? kw rest with
  | none => simp [hd] at h
  | some r => exact ⟨r, (dropPrefix?_iff _ _ _).1 hd⟩

theorem acceptKeyword_some {kw : Str} {st st1 : St} (h : acceptKeyword [kw] st = .ok (some st1)) :
    ∃ r, st.rest = kw ++ r ∧ st1 = ⟨lastOr st.prev kw, r⟩ := by
  unfold acceptKeyword peekKeyword at h
  rw [findKeyword_single] at h
  by_cases hk : keywordAt kw st.rest = true
  · obtain ⟨r, hr⟩ := keywordAt_prefix hk
    refine ⟨r, hr, ?_⟩
    simp only [hk, if_true] at h
    have hc : consume kw.length st = ⟨lastOr st.prev kw, r⟩ := by
      have := consume_append st.prev kw r
      rw [← hr] at this
      exact this
    cases hp : st.prev with
    | none => simp [hp] at h; rw [← h, hc, hp]
    | some p =>
      simp only [hp] at h
      by_cases hb : (isSpace p || kwPrecede.contains [p]) = true
      · rw [if_pos hb] at h; simp at h; rw [← h, hc, hp]
      · rw [if_neg hb] at h; simp at h
  · simp [hk] at h

theorem acceptKeyword_shrinks {kw : Str} (hkw : kw ≠ []) {st st1 : St} (h : acceptKeyword [kw] st = .ok (some st1)) :
    st1.rest.length < st.rest.length := by
  obtain ⟨r, hr, rfl⟩ := acceptKeyword_some h
  rw [hr]
  have : 0 < kw.length := List.length_pos_iff.mpr hkw
  simp; omega

/-- a sub-parser never leaves more input than it was given -/
def Consumes (sub : St → Res) : Prop := ∀ st e st', sub st = .ok (e, st') → st'.rest.length ≤ st.rest.length

theorem loop_fuel (kw : Str) (hkw : kw ≠ []) (sub : St → Res) (mk : Expr → Expr → Expr) (hsub : Consumes sub) :
    ∀ (f1 f2 : Nat) (left : Expr) (st : St), st.rest.length < f1 → st.rest.length < f2 →
      loop kw sub mk f1 left st = loop kw sub mk f2 left st := by
  intro f1
  induction f1 with
  | zero => intro f2 left st h; omega
  | succ f1 ih =>
    intro f2 left st h1 h2
    cases f2 with
    | zero => omega
    | succ f2 =>
      rw [loop, loop]
      split
      · rfl
      · cases ha : acceptKeyword [kw] st with
        | error e => rfl
        | ok o =>
          cases o with
          | none => rfl
          | some st1 =>
            have hlt := acceptKeyword_shrinks hkw ha
            simp only
            cases hs : sub (skipWs st1) with
            | error e => rfl
            | ok p =>
              obtain ⟨right, st2⟩ := p
              have h3 := hsub _ _ _ hs
              have h4 := skipWs_length st1
              have h5 := skipWs_length st2
              exact ih f2 _ _ (by omega) (by omega)

/-! ### consumption and fuel adequacy -/

theorem consFst_ok {c : Char} {x : Except ParseError (Str × Str)} {s r : Str} (h : consFst c x = .ok (s, r)) :
    ∃ s', x = .ok (s', r) := by
  cases x with
  | error e => simp [consFst] at h
  | ok p => obtain ⟨a, b⟩ := p; simp [consFst] at h; exact ⟨a, by rw [h.2]⟩

theorem consFst_fuel {c : Char} {x : Except ParseError (Str × Str)} (h : x ≠ .error .fuel) :
    consFst c x ≠ .error .fuel := by
  cases x with
  | error e => simpa [consFst] using h
  | ok p => obtain ⟨a, b⟩ := p; simp [consFst]

theorem quoted_spec (q : Char) (r : Str) :
    quoted q r ≠ .error .fuel ∧ ∀ s r', quoted q r = .ok (s, r') → r'.length ≤ r.length := by
  fun_induction quoted q r with
  | case1 => simp
  | case2 c => simp
  | case3 c d ds h1 h2 ih =>
    refine ⟨consFst_fuel ih.1, ?_⟩
    intro s r' h
    obtain ⟨s', hs'⟩ := consFst_ok h
    have := ih.2 _ _ hs'
    simp; omega
  | case4 c d ds h1 h2 => simp
  | case5 =>
    refine ⟨by simp, ?_⟩
    intro s r' h; simp at h; rw [← h.2]; simp
  | case6 c cs h1 h2 ih =>
    refine ⟨consFst_fuel ih.1, ?_⟩
    intro s r' h
    obtain ⟨s', hs'⟩ := consFst_ok h
    have := ih.2 _ _ hs'
    simp; omega

theorem unquoted_length (f : Char → Bool) (r : Str) : (unquoted f r).2.length ≤ r.length := by
  induction r with
  | nil => simp [unquoted]
  | cons c cs ih =>
    by_cases h : f c = true
    · simp [unquoted, h]
    · simp [unquoted, h]; omega

theorem expectPattern_spec (r : Str) :
    expectPattern r ≠ .error .fuel ∧ ∀ s r', expectPattern r = .ok (s, r') → r'.length ≤ r.length := by
  cases r with
  | nil => simp [expectPattern]
  | cons c cs =>
    rw [expectPattern.eq_def]
    by_cases hq : isQuote c = true
    · simp only [hq, if_true]
      refine ⟨(quoted_spec c cs).1, ?_⟩
      intro s r' h
      have := (quoted_spec c cs).2 s r' h
      simp; omega
    · simp only [hq]
      have hl := unquoted_length isStopPattern (c :: cs)
      generalize unquoted isStopPattern (c :: cs) = u at hl
      obtain ⟨a, b⟩ := u
      cases a with
      | nil => simp
      | cons x y =>
        refine ⟨by simp, ?_⟩
        intro s r' h; simp at h; rw [← h.2]; simpa using hl

theorem expectKey_spec (r : Str) :
    expectKey r ≠ .error .fuel ∧ ∀ s r', expectKey r = .ok (s, r') → r'.length ≤ r.length := by
  cases r with
  | nil => simp [expectKey]
  | cons c cs =>
    rw [expectKey.eq_def]
    by_cases hq : isQuote c = true
    · simp only [hq, if_true]
      cases cs with
      | nil => simp
      | cons d ds =>
        by_cases hd : d = c
        · simp [hd]
        · simp only [hd, if_false]
          refine ⟨(quoted_spec c (d :: ds)).1, ?_⟩
          intro s r' h
          have := (quoted_spec c (d :: ds)).2 s r' h
          simp at this ⊢; omega
    · simp only [hq]
      have hl := unquoted_length isStopKey (c :: cs)
      generalize unquoted isStopKey (c :: cs) = u at hl
      obtain ⟨a, b⟩ := u
      cases a with
      | nil => simp
      | cons x y =>
        refine ⟨by simp, ?_⟩
        intro s r' h; simp at h; rw [← h.2]; simpa using hl

theorem acceptPrefix_length {t : List (Str × Bool × Kind)} {r r' : Str} {o : Bool} {k : Kind}
    (h : acceptPrefix t r = some (o, k, r')) : r'.length ≤ r.length := by
  induction t with
  | nil => simp [acceptPrefix] at h
  | cons x t ih =>
    obtain ⟨p, o', k'⟩ := x
    rw [acceptPrefix] at h
    cases hd : dropPrefix? p r with
    | none => rw [hd] at h; exact ih h
    | some r1 =>
      rw [hd] at h
      simp at h
      have := dropPrefix?_length hd
      rw [← h.2.2]; omega

theorem options_spec (o : Bool) (e r : Str) :
    options o e r ≠ .error .fuel ∧ ∀ cs r', options o e r = .ok (cs, r') → r'.length ≤ r.length := by
  unfold options
  cases o with
  | false =>
    refine ⟨by simp, ?_⟩
    intro cs r' h; simp at h; rw [← h.2]; exact Nat.le_refl _
  | true =>
    simp only [if_true]
    cases h1 : dropPrefix? optionI r with
    | some r1 =>
      have l1 := dropPrefix?_length h1
      dsimp only
      cases h2 : dropPrefix? e r1 with
      | some r2 =>
        have l2 := dropPrefix?_length h2
        refine ⟨by simp, ?_⟩
        intro cs r' h; simp at h; rw [← h.2]; omega
      | none => simp
    | none =>
      dsimp only
      cases h2 : dropPrefix? e r with
      | some r2 =>
        have l2 := dropPrefix?_length h2
        refine ⟨by simp, ?_⟩
        intro cs r' h; simp at h; rw [← h.2]; omega
      | none => simp

theorem simple_spec (r : Str) :
    simple r ≠ .error .fuel ∧ ∀ a r', simple r = .ok (a, r') → r'.length ≤ r.length := by
  unfold simple
  cases h1 : acceptPrefix dataTable r with
  | some x =>
    obtain ⟨o, kind, r1⟩ := x
    have l1 := acceptPrefix_length h1
    simp only
    cases h2 : options o dataOptEnd r1 with
    | error e => have := (options_spec o dataOptEnd r1).1; rw [h2] at this; simpa using this
    | ok y =>
      obtain ⟨cs, r2⟩ := y
      have l2 := (options_spec o dataOptEnd r1).2 _ _ h2
      simp only
      cases h3 : expectKey r2 with
      | error e => have := (expectKey_spec r2).1; rw [h3] at this; simpa using this
      | ok z =>
        obtain ⟨key, r3⟩ := z
        have l3 := (expectKey_spec r2).2 _ _ h3
        simp only
        cases h4 : dropPrefix? keyEnd r3 with
        | none => simp
        | some r4 =>
          have l4 := dropPrefix?_length h4
          simp only
          cases h5 : expectPattern r4 with
          | error e => have := (expectPattern_spec r4).1; rw [h5] at this; simpa using this
          | ok w =>
            obtain ⟨pat, r5⟩ := w
            have l5 := (expectPattern_spec r4).2 _ _ h5
            refine ⟨by simp, ?_⟩
            intro a r' h; simp at h; rw [← h.2]; omega
  | none =>
    simp only
    cases h1' : acceptPrefix idTable r with
    | some x =>
      obtain ⟨o, kind, r1⟩ := x
      have l1 := acceptPrefix_length h1'
      simp only
      cases h2 : options o idOptEnd r1 with
      | error e => have := (options_spec o idOptEnd r1).1; rw [h2] at this; simpa using this
      | ok y =>
        obtain ⟨cs, r2⟩ := y
        have l2 := (options_spec o idOptEnd r1).2 _ _ h2
        simp only
        cases h5 : expectPattern r2 with
        | error e => have := (expectPattern_spec r2).1; rw [h5] at this; simpa using this
        | ok w =>
          obtain ⟨pat, r5⟩ := w
          have l5 := (expectPattern_spec r2).2 _ _ h5
          refine ⟨by simp, ?_⟩
          intro a r' h; simp at h; rw [← h.2]; omega
    | none =>
      simp only
      cases h3 : dropPrefix? unsupportedStart r with
      | some _ => simp
      | none =>
        simp only
        cases h5 : expectPattern r with
        | error e => have := (expectPattern_spec r).1; rw [h5] at this; simpa using this
        | ok w =>
          obtain ⟨pat, r5⟩ := w
          have l5 := (expectPattern_spec r).2 _ _ h5
          refine ⟨by simp, ?_⟩
          intro a r' h; simp at h; rw [← h.2]; exact l5

def GoodAt (sub : St → Res) (st : St) : Prop :=
  sub st ≠ .error .fuel ∧ ∀ e st', sub st = .ok (e, st') → st'.rest.length ≤ st.rest.length

/-- on inputs shorter than `n` the parser neither runs out of fuel nor leaves more input than it got -/
def Good (n : Nat) (sub : St → Res) : Prop := ∀ st, st.rest.length < n → GoodAt sub st

theorem Good.consumes {sub : St → Res} (h : ∀ n, Good n sub) : Consumes sub :=
  fun st e st' hs => (h (st.rest.length + 1) st (Nat.lt_succ_self _)).2 e st' hs

theorem goodAt_simpleExpr (st : St) : GoodAt simpleExpr st := by
  unfold GoodAt simpleExpr
  cases h : simple st.rest with
  | error e => have := (simple_spec st.rest).1; rw [h] at this; simpa using this
  | ok p =>
    obtain ⟨a, r⟩ := p
    refine ⟨by simp, ?_⟩
    intro e st' h'; simp at h'; rw [← h'.2]; exact consume_length _ _

theorem peekKeyword_ne_fuel (kws : List Str) (st : St) : peekKeyword kws st ≠ .error .fuel := by
  unfold peekKeyword
  cases findKeyword kws st.rest with
  | none => simp
  | some kw =>
    cases st.prev with
    | none => simp
    | some p => dsimp only; split <;> simp

theorem peekKeyword_some {kws : List Str} {st : St} {kw : Str} (h : peekKeyword kws st = .ok (some kw)) :
    kw ∈ kws ∧ keywordAt kw st.rest = true := by
  unfold peekKeyword at h
  cases hf : findKeyword kws st.rest with
  | none => simp [hf] at h
  | some kw' =>
    have hkw : kw' = kw := by
      rw [hf] at h
      cases hp : st.prev with
      | none => simp [hp] at h; exact h
      | some p =>
        simp only [hp] at h
        split at h
        · simp at h; exact h
        · simp at h
    subst hkw
    unfold findKeyword at hf
    exact ⟨List.mem_of_find?_eq_some hf, by simpa using List.find?_some hf⟩

theorem acceptKeyword_ne_fuel (kws : List Str) (st : St) : acceptKeyword kws st ≠ .error .fuel := by
  unfold acceptKeyword
  cases h : peekKeyword kws st with
  | error e => have := peekKeyword_ne_fuel kws st; rw [h] at this; simpa using this
  | ok o => cases o <;> simp

theorem good_loop (kw : Str) (hkw : kw ≠ []) (sub : St → Res) (mk : Expr → Expr → Expr) (n : Nat)
    (hsub : Good n sub) :
    ∀ (f : Nat) (left : Expr) (st : St), st.rest.length < n → st.rest.length < f →
      GoodAt (loop kw sub mk f left) st := by
  intro f
  induction f with
  | zero => intro left st _ h; omega
  | succ f ih =>
    intro left st hn hf
    unfold GoodAt
    rw [loop]
    split
    · refine ⟨by simp, ?_⟩
      intro e st' h; simp at h; rw [← h.2]; exact Nat.le_refl _
    · cases ha : acceptKeyword [kw] st with
      | error e => have := acceptKeyword_ne_fuel [kw] st; rw [ha] at this; simpa using this
      | ok o =>
        cases o with
        | none =>
          refine ⟨by simp, ?_⟩
          intro e st' h; simp at h; rw [← h.2]; exact Nat.le_refl _
        | some st1 =>
          have hlt := acceptKeyword_shrinks hkw ha
          have h4 := skipWs_length st1
          have hg := hsub (skipWs st1) (by omega)
          dsimp only
          cases hs : sub (skipWs st1) with
          | error e => have := hg.1; rw [hs] at this; simpa using this
          | ok p =>
            obtain ⟨right, st2⟩ := p
            have h3 := hg.2 _ _ hs
            have h5 := skipWs_length st2
            have := ih (mk left right) (skipWs st2) (by omega) (by omega)
            refine ⟨this.1, ?_⟩
            intro e st' h
            have := this.2 e st' h
            omega

theorem good_generic (kw : Str) (hkw : kw ≠ []) (sub : St → Res) (mk : Expr → Expr → Expr) (n : Nat)
    (hsub : Good n sub) : Good n (generic kw sub mk) := by
  intro st hn
  unfold GoodAt generic
  have h0 := skipWs_length st
  have hg := hsub (skipWs st) (by omega)
  cases hs : sub (skipWs st) with
  | error e => have := hg.1; rw [hs] at this; simpa using this
  | ok p =>
    obtain ⟨left, st1⟩ := p
    have h1 := hg.2 _ _ hs
    have h2 := skipWs_length st1
    have := good_loop kw hkw sub mk n hsub ((skipWs st1).rest.length + 1) left (skipWs st1) (by omega) (by omega)
    refine ⟨this.1, ?_⟩
    intro e st' h
    have := this.2 e st' h
    omega

theorem kwAnd_ne : kwAnd ≠ [] := by decide
theorem kwOr_ne : kwOr ≠ [] := by decide

theorem good_orLevel (u : St → Res) (n : Nat) (hu : Good n u) : Good n (orLevel u) :=
  good_generic kwOr kwOr_ne _ _ n (good_generic kwAnd kwAnd_ne _ _ n hu)

theorem goodAt_parenBody (orL : St → Res) (n : Nat) (hg : Good n orL) (p : Option Char) (c : Char) (r : Str)
    (hr : r.length < n) : GoodAt (fun st => parenBody orL st.rest.tail) ⟨p, c :: r⟩ := by
  unfold GoodAt parenBody
  have := hg ⟨some '(', r⟩ hr
  simp only [List.tail_cons]
  cases h : orL ⟨some '(', r⟩ with
  | error e => have := this.1; rw [h] at this; simpa using this
  | ok q =>
    obtain ⟨e, st1⟩ := q
    have hl := this.2 _ _ h
    dsimp only
    cases h1 : st1.rest with
    | nil => simp
    | cons d r1 =>
      dsimp only
      by_cases hd : d = ')'
      · refine ⟨by simp [hd], ?_⟩
        intro e' st' h'; simp [hd] at h'; rw [← h'.2]; simp [h1] at hl ⊢; omega
      · simp [hd]

theorem goodAt_unaryRest (self : St → Res) (st : St)
    (hself : ∀ st', st'.rest.length < st.rest.length → GoodAt self st') : GoodAt (unaryRest self) st := by
  unfold GoodAt unaryRest
  cases hp : peekKeyword keywords st with
  | error e => have := peekKeyword_ne_fuel keywords st; rw [hp] at this; simpa using this
  | ok o =>
    cases o with
    | none => exact goodAt_simpleExpr st
    | some kw =>
      dsimp only
      by_cases hk : kw = kwNot
      · simp only [hk, if_true]
        obtain ⟨_, hat⟩ := peekKeyword_some hp
        obtain ⟨r, hr⟩ := keywordAt_prefix hat
        subst hk
        have hc : consume kwNot.length st = ⟨lastOr st.prev kwNot, r⟩ := by
          have := consume_append st.prev kwNot r
          rw [← hr] at this; exact this
        have hlen : st.rest.length = r.length + 3 := by rw [hr]; simp [kwNot]
        have h4 := skipWs_length (consume kwNot.length st)
        rw [hc] at h4
        simp only at h4
        have hg := hself (skipWs (consume kwNot.length st)) (by rw [hc]; omega)
        cases hs : self (skipWs (consume kwNot.length st)) with
        | error e => have := hg.1; rw [hs] at this; simpa using this
        | ok q =>
          obtain ⟨e, st1⟩ := q
          have h3 := hg.2 _ _ hs
          rw [hc] at h3
          refine ⟨by simp, ?_⟩
          intro e' st' h'; simp at h'; rw [← h'.2]; omega
      · simp [hk]

theorem good_unary : ∀ n, Good n (unary n) := by
  intro n
  induction n with
  | zero => intro st h; omega
  | succ n ih =>
    intro st hn
    obtain ⟨p, rest⟩ := st
    cases rest with
    | nil =>
      have : unary (n + 1) ⟨p, []⟩ = unaryRest (unary n) ⟨p, []⟩ := by rw [unary]
      unfold GoodAt; rw [this]
      exact goodAt_unaryRest (unary n) ⟨p, []⟩ (fun st' h => by simp at h)
    | cons c r =>
      by_cases hc : c = '('
      · have : unary (n + 1) ⟨p, c :: r⟩ = parenBody (orLevel (unary n)) r := by rw [unary]; simp [hc]
        unfold GoodAt; rw [this]
        have hr : r.length < n := by simp at hn; omega
        exact goodAt_parenBody (orLevel (unary n)) n (good_orLevel _ n ih) p c r hr
      · have : unary (n + 1) ⟨p, c :: r⟩ = unaryRest (unary n) ⟨p, c :: r⟩ := by rw [unary]; simp [hc]
        unfold GoodAt; rw [this]
        exact goodAt_unaryRest (unary n) ⟨p, c :: r⟩ (fun st' h => ih st' (by simp at hn h; omega))

theorem parse_ne_fuel (s : Str) : parse s ≠ .error .fuel := by
  unfold parse
  have := good_orLevel (unary (s.length + 1)) (s.length + 1) (good_unary _) ⟨none, s⟩ (Nat.lt_succ_self _)
  cases h : orLevel (unary (s.length + 1)) ⟨none, s⟩ with
  | error e => have := this.1; rw [h] at this; simpa using this
  | ok p =>
    obtain ⟨e, st⟩ := p
    dsimp only
    split <;> simp

end Vinegar.Matcher
