import Vinegar.Model.Paths
/-
The model's literals are the ones vinegar/request_handler/file.py uses now (regenerated
into `Vinegar.Generated` on every run). Each lemma is the proof obligation that breaks when
the corresponding literal in the Python source changes.
-/
namespace Vinegar.Paths
open Vinegar

theorem sysIdKey_val : sysIdKey = Generated.PATHS_SYSTEM_ID_KEY.toList := by decide
theorem dsErrorActions_val : dsErrorActions = Generated.PATHS_DS_ERROR_ACTIONS.map String.toList := by decide
theorem noResultActions_val : noResultActions = Generated.PATHS_NO_RESULT_ACTIONS.map String.toList := by decide
theorem httpMethods_val : httpMethods = Generated.PATHS_HTTP_METHODS.map String.toList := by decide
theorem nul_tokens_val : nulEncoded = Generated.PATHS_NUL_ENCODED.toList ∧ ('\x00' : Char).toNat = Generated.PATHS_NUL_CHAR ∧
    Generated.PATHS_NUL_TOKEN_COUNT = 2 := by decide
theorem default_placeholder_val : Generated.PATHS_DEFAULT_PLACEHOLDER = "..." := by decide
theorem actionError_mem : actionError ∈ dsErrorActions := by decide
theorem continueAction_mem : continueAction ∈ noResultActions := by decide

end Vinegar.Paths
