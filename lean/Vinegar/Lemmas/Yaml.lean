import Vinegar.Spec.Yaml
/-
Helper lemmas of the YAML target source model (C11, C12): the code's case split equals the
generic split at the include key, empty pieces do not change the merge, the relative-include
loop equals the documented rule, `mapE`/`mapO` decomposition, file resolution.
-/
namespace Vinegar.Yaml


theorem splitAtInclude_noKey (kvs : Mapping) (h : hasKey INCLUDE kvs = false) :
    splitAtInclude kvs = (kvs, none, []) := by
  induction kvs with
  | nil => rfl
  | cons p rest ih =>
    obtain ⟨k, v⟩ := p
    simp [hasKey, List.any_cons] at h
    have hk : ¬ k = INCLUDE := h.1
    have hr : hasKey INCLUDE rest = false := by
      simp [hasKey]; exact h.2
    simp [splitAtInclude, hk, ih hr]

theorem processContent_eq_split (kvs : Mapping) : processContent kvs = splitAtInclude kvs := by
  unfold processContent
  by_cases h : hasKey INCLUDE kvs = true
  · simp [h]
    cases kvs with
    | nil => rfl
    | cons p rest =>
      obtain ⟨k, v⟩ := p
      by_cases hk : k = INCLUDE
      · simp [hk, splitAtInclude]
      · simp [hk]
  · have h' : hasKey INCLUDE kvs = false := by simpa using h
    simp [h', splitAtInclude_noKey kvs h']

theorem mergeEntries_nil (ml ms : Bool) (a : Mapping) : mergeEntries ml ms a [] = some a := by
  induction a with
  | nil => simp [mergeEntries]
  | cons p rest ih =>
    obtain ⟨k, v⟩ := p
    simp [mergeEntries, lookup, ih]

theorem merge_nil_right (ml ms : Bool) (a : Mapping) : merge ml ms a [] = some a := by
  simp [merge, mergeEntries_nil]

theorem merge_nil_left (ml ms : Bool) (b : Mapping) : merge ml ms [] b = some b := by
  simp [merge, mergeEntries, hasKey]



theorem leadingDots_cons_ne {s : String} (rest : Name) (hs : s ≠ "") : leadingDots (s :: rest) = 0 := by
  unfold leadingDots
  split
  · rename_i h; injection h with h1 _; exact absurd h1 hs
  · rfl

theorem stripDots_cons_ne {s : String} (rest par : Name) (hs : s ≠ "") :
    stripDots (s :: rest) par = .ok (s :: rest, par) := by
  unfold stripDots
  split
  all_goals first
    | rfl
    | (rename_i h; injection h with h1 _; exact absurd h1 hs)

theorem stripDots_spec (inc par : Name) :
    stripDots inc par =
      if leadingDots inc ≤ par.length then
        .ok (inc.drop (leadingDots inc), par.take (par.length - leadingDots inc))
      else .error .aboveRoot := by
  induction inc generalizing par with
  | nil => simp [stripDots, leadingDots]
  | cons s rest ih =>
    by_cases hs : s = ""
    · subst hs
      cases par with
      | nil => simp [stripDots, leadingDots]
      | cons p ps =>
        simp only [stripDots, leadingDots]
        rw [ih]
        simp only [List.length_dropLast, List.length_cons, Nat.add_sub_cancel, Nat.add_le_add_iff_right]
        by_cases hk : leadingDots rest ≤ ps.length
        · simp only [hk, if_true, List.drop_succ_cons]
          congr 2
          rw [List.dropLast_eq_take, List.take_take]
          simp only [List.length_cons, Nat.add_sub_cancel]
          congr 1
          omega
        · simp [hk]
    · rw [leadingDots_cons_ne rest hs, stripDots_cons_ne rest par hs]
      simp

theorem resolveRelative_doc (inc par : Name) :
    toOpt (resolveRelative inc par) = docResolve inc par := by
  unfold resolveRelative docResolve
  by_cases h1 : inc = [""]
  · subst h1; simp [toOpt, leadingDots]
  · simp only [h1, if_false]
    cases inc with
    | nil => simp [toOpt, leadingDots]
    | cons s rest =>
      by_cases hs : s = ""
      · subst hs
        simp only [stripDots_spec]
        have hk : leadingDots ("" :: rest) ≠ 0 := by simp [leadingDots]
        simp only [hk, if_false]
        by_cases hle : leadingDots ("" :: rest) ≤ par.length
        · simp only [hle, if_true]
          have hgt : ¬ leadingDots ("" :: rest) > par.length := by omega
          simp only [hgt, if_false]
          cases hd : List.drop (leadingDots ("" :: rest)) ("" :: rest) with
          | nil => simp [toOpt]
          | cons a b => simp [toOpt]
        · simp only [hle, if_false]
          have hgt : leadingDots ("" :: rest) > par.length := by omega
          simp only [hgt, if_true, toOpt]
          split <;> rfl
      · simp only [leadingDots_cons_ne rest hs, if_true]
        split
        · rename_i h; injection h with h1 _; exact absurd h1 hs
        · rfl



def nonEmpties (ps : List Mapping) : List Mapping := ps.filter (fun p => !p.isEmpty)

theorem nonEmpties_append (a b : List Mapping) : nonEmpties (a ++ b) = nonEmpties a ++ nonEmpties b := by
  simp [nonEmpties]

theorem nonEmpties_nonEmpties (a : List Mapping) : nonEmpties (nonEmpties a) = nonEmpties a := by
  simp [nonEmpties]

theorem piecesOf_eq (pre post : Mapping) (mid : List Mapping) :
    piecesOf pre (nonEmpties mid) post = nonEmpties ([pre] ++ mid ++ [post]) := by
  unfold piecesOf nonEmpties
  cases pre <;> cases post <;> simp

/-! mapE / mapO -/

theorem mapE_ok_cons_iff {α β ε : Type} (f : α → Except ε β) (a : α) (as : List α) (ys : List β) :
    mapE f (a :: as) = .ok ys ↔ ∃ b bs, f a = .ok b ∧ mapE f as = .ok bs ∧ ys = b :: bs := by
  simp only [mapE]
  cases h1 : f a with
  | error e => simp
  | ok b =>
    cases h2 : mapE f as with
    | error e => simp
    | ok bs =>
      simp only [Except.ok.injEq]
      constructor
      · intro h; exact ⟨b, bs, rfl, rfl, h.symm⟩
      · rintro ⟨b', bs', hb, hbs, rfl⟩; cases hb; cases hbs; rfl

theorem mapO_some_cons_iff {α β : Type} (f : α → Option β) (a : α) (as : List α) (ys : List β) :
    mapO f (a :: as) = some ys ↔ ∃ b bs, f a = some b ∧ mapO f as = some bs ∧ ys = b :: bs := by
  simp only [mapO]
  cases h1 : f a with
  | none => simp
  | some b =>
    cases h2 : mapO f as with
    | none => simp
    | some bs =>
      simp only [Option.some.injEq]
      constructor
      · intro h; exact ⟨b, bs, rfl, rfl, h.symm⟩
      · rintro ⟨b', bs', hb, hbs, rfl⟩; cases hb; cases hbs; rfl

theorem mapE_ok_iff_mapO {α β ε : Type} (f : α → Except ε β) (l : List α) (ys : List β) :
    mapE f l = .ok ys ↔ mapO (fun a => toOpt (f a)) l = some ys := by
  induction l generalizing ys with
  | nil => simp [mapE, mapO]
  | cons a as ih =>
    rw [mapE_ok_cons_iff, mapO_some_cons_iff]
    constructor
    · rintro ⟨b, bs, h1, h2, rfl⟩
      exact ⟨b, bs, by simp [h1, toOpt], (ih bs).1 h2, rfl⟩
    · rintro ⟨b, bs, h1, h2, rfl⟩
      refine ⟨b, bs, ?_, (ih bs).2 h2, rfl⟩
      cases hf : f a with
      | error e => simp [hf, toOpt] at h1
      | ok b' => simp [hf, toOpt] at h1; rw [h1]

/-! foldMerge ignores empty pieces -/

theorem foldMerge_nonEmpties (cfg : Cfg) (acc : Mapping) (ps : List Mapping) :
    foldMerge cfg acc (nonEmpties ps) = foldMerge cfg acc ps := by
  induction ps generalizing acc with
  | nil => rfl
  | cons p rest ih =>
    cases p with
    | nil =>
      have : nonEmpties ([] :: rest) = nonEmpties rest := by simp [nonEmpties]
      rw [this, ih]
      simp only [foldMerge]
      have : merge cfg.mergeLists cfg.mergeSets acc [] = some acc := by
        simp [merge]
        have : ∀ a : Mapping, mergeEntries cfg.mergeLists cfg.mergeSets a [] = some a := by
          intro a
          induction a with
          | nil => simp [mergeEntries]
          | cons q r ih2 => obtain ⟨k, v⟩ := q; simp [mergeEntries, lookup, ih2]
        simp [this]
      rw [this]
    | cons q r =>
      have : nonEmpties ((q :: r) :: rest) = (q :: r) :: nonEmpties rest := by simp [nonEmpties]
      rw [this]
      simp only [foldMerge]
      cases merge cfg.mergeLists cfg.mergeSets acc (q :: r) with
      | none => rfl
      | some a => exact ih a

/-! top file -/

theorem topNames_doc (es : List (MatchRes × TopList)) : toOpt (topNames es) = docTopNames es := by
  induction es with
  | nil => rfl
  | cons e rest ih =>
    obtain ⟨m, l⟩ := e
    cases l with
    | names ns =>
      simp only [topNames, docTopNames]
      by_cases hn : [""] ∈ ns
      · simp [hn, toOpt]
      · simp only [hn, if_false]
        have : ns.contains [""] = false := by simpa using hn
        simp only [this]
        cases m with
        | yes =>
          simp only []
          rw [← ih]
          cases topNames rest <;> simp [toOpt]
        | no =>
          simp only []
          rw [← ih]
          cases topNames rest <;> simp [toOpt]
        | error c => simp [toOpt]
    | str => simp [topNames, docTopNames, toOpt]
    | notSeq => simp [topNames, docTopNames, toOpt]
    | unsupported => simp [topNames, docTopNames, toOpt]

/-! file resolution -/

theorem docResolveFile_iff (tree : Tree) (name place : Name) (kvs : Mapping) :
    docResolveFile tree name = some (place, kvs) ↔ resolveFile tree name = .ok (place, .file (.mapping kvs)) := by
  unfold docResolveFile resolveFile
  by_cases hp : pathOf name = []
  · simp [hp]
  · simp only [hp, if_false]
    cases h1 : tree (pathOf name) with
    | none =>
      simp only []
      cases h2 : tree (pathOf name ++ ["init"]) with
      | none => simp
      | some n =>
        cases n with
        | dir => simp
        | renderError => simp
        | file p => cases p <;> simp
    | some n =>
      cases n with
      | dir =>
        simp only []
        cases h2 : tree (pathOf name ++ ["init"]) with
        | none => simp
        | some n =>
          cases n with
          | dir => simp
          | renderError => simp
          | file p => cases p <;> simp
      | renderError => simp
      | file p => cases p <;> simp

theorem resolves_of_resolveFile (tree : Tree) (name place : Name) (node : FileNode)
    (h : resolveFile tree name = .ok (place, node)) : Resolves tree name place node ∨ node = .dir := by
  unfold resolveFile at h
  by_cases hp : pathOf name = []
  · simp [hp] at h
  · simp only [hp, if_false] at h
    cases h1 : tree (pathOf name) with
    | none =>
      simp only [h1] at h
      cases h2 : tree (pathOf name ++ ["init"]) with
      | none => simp [h2] at h
      | some n =>
        simp only [h2, Except.ok.injEq, Prod.mk.injEq] at h
        obtain ⟨rfl, rfl⟩ := h
        exact Or.inl (Resolves.init hp (Or.inl h1) h2)
    | some n =>
      cases n with
      | dir =>
        simp only [h1] at h
        cases h2 : tree (pathOf name ++ ["init"]) with
        | none => simp [h2] at h
        | some n =>
          simp only [h2, Except.ok.injEq, Prod.mk.injEq] at h
          obtain ⟨rfl, rfl⟩ := h
          exact Or.inl (Resolves.init hp (Or.inr h1) h2)
      | renderError =>
        simp only [h1, Except.ok.injEq, Prod.mk.injEq] at h
        obtain ⟨rfl, rfl⟩ := h
        exact Or.inl (Resolves.direct hp h1 (by simp))
      | file p =>
        simp only [h1, Except.ok.injEq, Prod.mk.injEq] at h
        obtain ⟨rfl, rfl⟩ := h
        exact Or.inl (Resolves.direct hp h1 (by simp))

theorem resolveFile_of_resolves (tree : Tree) (name place : Name) (node : FileNode)
    (h : Resolves tree name place node) : resolveFile tree name = .ok (place, node) := by
  unfold resolveFile
  cases h with
  | direct hp h1 hd =>
    simp only [hp, if_false, h1]
    cases node with
    | dir => exact absurd rfl hd
    | renderError => rfl
    | file p => rfl
  | init hp h1 h2 =>
    simp only [hp, if_false]
    cases h1 with
    | inl h1 => simp [h1, h2]
    | inr h1 => simp [h1, h2]


/-! ## characterisations of the recursive functions -/


theorem bindE_ok_iff {α β ε : Type} (x : Except ε α) (k : α → Except ε β) (b : β) :
    bindE x k = .ok b ↔ ∃ a, x = .ok a ∧ k a = .ok b := by
  cases x with
  | error e => simp [bindE]
  | ok a => simp [bindE]

theorem bindE_error_iff {α β ε : Type} (x : Except ε α) (k : α → Except ε β) (e : ε) :
    bindE x k = .error e ↔ x = .error e ∨ ∃ a, x = .ok a ∧ k a = .error e := by
  cases x with
  | error e' => simp [bindE]
  | ok a => simp [bindE]

theorem resolveAll_nil (tree : Tree) : resolveAll tree [] = .ok [] := rfl

theorem resolveAll_cons_ok_iff (tree : Tree) (n : Name) (ns : List Name) (rs : List (Name × Name × FileNode)) :
    resolveAll tree (n :: ns) = .ok rs ↔
      ∃ place node rs', resolveFile tree n = .ok (place, node) ∧ resolveAll tree ns = .ok rs' ∧
        rs = (n, place, node) :: rs' := by
  unfold resolveAll
  rw [mapE_ok_cons_iff]
  simp only [bindE_ok_iff]
  constructor
  · rintro ⟨b, bs, ⟨⟨place, node⟩, h1, h2⟩, h3, rfl⟩
    cases h2
    exact ⟨place, node, bs, h1, h3, rfl⟩
  · rintro ⟨place, node, rs', h1, h2, rfl⟩
    exact ⟨(n, place, node), rs', ⟨(place, node), h1, rfl⟩, h2, rfl⟩

theorem expandAll_nil (g : Name → Name → FileNode → Except Err (List Mapping)) : expandAll g [] = .ok [] := rfl

theorem expandAll_cons_ok_iff (g : Name → Name → FileNode → Except Err (List Mapping))
    (r : Name × Name × FileNode) (rs : List (Name × Name × FileNode)) (ps : List Mapping) :
    expandAll g (r :: rs) = .ok ps ↔
      ∃ p q, g r.1 r.2.1 r.2.2 = .ok p ∧ expandAll g rs = .ok q ∧ ps = p ++ q := by
  unfold expandAll
  simp only [bindE_ok_iff, mapE_ok_cons_iff]
  constructor
  · rintro ⟨pss, ⟨b, bs, h1, h2, rfl⟩, h3⟩
    cases h3
    exact ⟨b, bs.flatten, h1, ⟨bs, h2, rfl⟩, by simp⟩
  · rintro ⟨p, q, h1, ⟨bs, h2, h3⟩, rfl⟩
    cases h3
    exact ⟨p :: bs, ⟨p, bs, h1, h2, rfl⟩, by simp⟩

theorem expandList_nil (f : Nat) (tree : Tree) (parents : List Name) :
    expandList f tree parents [] = .ok [] := rfl

theorem expandList_cons_ok_iff (f : Nat) (tree : Tree) (parents : List Name) (n : Name) (ns : List Name)
    (ps : List Mapping) :
    expandList f tree parents (n :: ns) = .ok ps ↔
      ∃ place node p q, resolveFile tree n = .ok (place, node) ∧
        expandFile f tree parents n place node = .ok p ∧
        expandList f tree parents ns = .ok q ∧ ps = p ++ q := by
  unfold expandList
  simp only [bindE_ok_iff, resolveAll_cons_ok_iff]
  constructor
  · rintro ⟨rs, ⟨place, node, rs', h1, h2, rfl⟩, h3⟩
    rw [expandAll_cons_ok_iff] at h3
    obtain ⟨p, q, h4, h5, rfl⟩ := h3
    exact ⟨place, node, p, q, h1, h4, ⟨rs', h2, h5⟩, rfl⟩
  · rintro ⟨place, node, p, q, h1, h4, ⟨rs', h2, h5⟩, rfl⟩
    refine ⟨(n, place, node) :: rs', ⟨place, node, rs', h1, h2, rfl⟩, ?_⟩
    rw [expandAll_cons_ok_iff]
    exact ⟨p, q, h4, h5, rfl⟩

theorem expandFile_zero (tree : Tree) (parents : List Name) (n r : Name) (nd : FileNode) :
    expandFile 0 tree parents n r nd = .error .fuel := rfl

theorem expandFile_succ_ok_iff (f : Nat) (tree : Tree) (parents : List Name) (name place : Name)
    (node : FileNode) (ps : List Mapping) :
    expandFile (f + 1) tree parents name place node = .ok ps ↔
      name ∉ parents ∧ ∃ kvs incs names mid, node = .file (.mapping kvs) ∧
        includeNames (splitAtInclude kvs).2.1 = .ok incs ∧
        mapE (fun i => resolveRelative i place) incs = .ok names ∧
        expandList f tree (parents ++ [name]) names = .ok mid ∧
        ps = piecesOf (splitAtInclude kvs).1 mid (splitAtInclude kvs).2.2 := by
  rw [expandFile.eq_def]
  by_cases hc : name ∈ parents
  · simp [hc]
  · simp only [hc, if_false, not_false_eq_true, true_and]
    cases node with
    | dir => simp
    | renderError => simp
    | file p =>
      cases p with
      | error => simp
      | nonMapping => simp
      | mapping kvs =>
        simp only [bindE_ok_iff, processContent_eq_split, expandList]
        constructor
        · rintro ⟨incs, h1, names, h2, rs, h3, mid, h4, h5⟩
          cases h5
          exact ⟨kvs, incs, names, mid, rfl, h1, h2, ⟨rs, h3, h4⟩, rfl⟩
        · rintro ⟨kvs', incs, names, mid, h0, h1, h2, ⟨rs, h3, h4⟩, rfl⟩
          cases h0
          exact ⟨incs, h1, names, h2, rs, h3, mid, h4, rfl⟩

theorem docList_nil (tree : Tree) (f : Nat) (parents : List Name) : docList tree f parents [] = some [] := by
  simp [docList, mapO]

theorem docList_cons_some_iff (tree : Tree) (f : Nat) (parents : List Name) (n : Name) (ns : List Name)
    (dps : List Mapping) :
    docList tree f parents (n :: ns) = some dps ↔
      ∃ d1 d2, docFile tree f parents n = some d1 ∧ docList tree f parents ns = some d2 ∧ dps = d1 ++ d2 := by
  unfold docList
  simp only [Option.map_eq_some_iff, mapO_some_cons_iff]
  constructor
  · rintro ⟨l, ⟨b, bs, h1, h2, rfl⟩, rfl⟩
    exact ⟨b, bs.flatten, h1, ⟨bs, h2, rfl⟩, by simp⟩
  · rintro ⟨d1, d2, h1, ⟨bs, h2, rfl⟩, rfl⟩
    exact ⟨d1 :: bs, ⟨d1, bs, h1, h2, rfl⟩, by simp⟩

theorem docFile_zero (tree : Tree) (parents : List Name) (n : Name) : docFile tree 0 parents n = none := rfl

theorem toOpt_eq_some_iff {ε α : Type} (x : Except ε α) (a : α) : toOpt x = some a ↔ x = .ok a := by
  cases x <;> simp [toOpt]

theorem docFile_succ_some_iff (tree : Tree) (f : Nat) (parents : List Name) (name : Name) (dps : List Mapping) :
    docFile tree (f + 1) parents name = some dps ↔
      name ∉ parents ∧ ∃ place kvs incs names mid, docResolveFile tree name = some (place, kvs) ∧
        includeNames (splitAtInclude kvs).2.1 = .ok incs ∧
        mapO (fun i => docResolve i place) incs = some names ∧
        docList tree f (parents ++ [name]) names = some mid ∧
        dps = [(splitAtInclude kvs).1] ++ mid ++ [(splitAtInclude kvs).2.2] := by
  rw [docFile]
  by_cases hc : name ∈ parents
  · simp [hc]
  · simp only [hc, if_false, not_false_eq_true, true_and, Option.bind_eq_some_iff, toOpt_eq_some_iff, docList,
      Option.map_eq_some_iff]
    constructor
    · rintro ⟨⟨place, kvs⟩, h0, incs, h1, names, h2, pss, h3, h4⟩
      cases h4
      exact ⟨place, kvs, incs, names, pss.flatten, h0, h1, h2, ⟨pss, h3, rfl⟩, rfl⟩
    · rintro ⟨place, kvs, incs, names, mid, h0, h1, h2, ⟨pss, h3, rfl⟩, rfl⟩
      exact ⟨(place, kvs), h0, incs, h1, names, h2, pss, h3, rfl⟩


/-! ## executable documentation vs the relation -/


/-! A: the executable evaluator is sound for the relation -/

theorem docResolveFile_resolves (tree : Tree) (name place : Name) (kvs : Mapping)
    (h : docResolveFile tree name = some (place, kvs)) : Resolves tree name place (.file (.mapping kvs)) := by
  have := (docResolveFile_iff tree name place kvs).1 h
  cases resolves_of_resolveFile tree name place _ this with
  | inl h => exact h
  | inr h => cases h

theorem Expands.append_single {tree : Tree} {parents : List Name} {n : Name} {ns : List Name}
    {d1 d2 : List Mapping} (h1 : Expands tree parents [n] d1) (h2 : Expands tree parents ns d2) :
    Expands tree parents (n :: ns) (d1 ++ d2) := by
  cases h1 with
  | cons hn hr hi hm he hrest =>
    cases hrest
    have := Expands.cons hn hr hi hm he h2
    simpa [List.append_assoc] using this

theorem docSound (tree : Tree) (f : Nat) :
    (∀ parents name dps, docFile tree f parents name = some dps → Expands tree parents [name] dps) ∧
    (∀ parents names dps, docList tree f parents names = some dps → Expands tree parents names dps) := by
  induction f with
  | zero =>
    have hfile : ∀ parents name dps, docFile tree 0 parents name = some dps → Expands tree parents [name] dps := by
      intro parents name dps h; simp [docFile_zero] at h
    refine ⟨hfile, ?_⟩
    intro parents names dps h
    cases names with
    | nil => simp [docList_nil] at h; subst h; exact Expands.nil
    | cons n ns =>
      rw [docList_cons_some_iff] at h
      obtain ⟨d1, d2, h1, _, _⟩ := h
      simp [docFile_zero] at h1
  | succ f ih =>
    have hfile : ∀ parents name dps, docFile tree (f + 1) parents name = some dps →
        Expands tree parents [name] dps := by
      intro parents name dps h
      rw [docFile_succ_some_iff] at h
      obtain ⟨hn, place, kvs, incs, names, mid, h0, h1, h2, h3, rfl⟩ := h
      have := Expands.cons hn (docResolveFile_resolves tree name place kvs h0) h1 h2 (ih.2 _ _ _ h3) Expands.nil
      simpa using this
    refine ⟨hfile, ?_⟩
    intro parents names
    induction names with
    | nil => intro dps h; simp [docList_nil] at h; subst h; exact Expands.nil
    | cons n ns ihn =>
      intro dps h
      rw [docList_cons_some_iff] at h
      obtain ⟨d1, d2, h1, h2, rfl⟩ := h
      exact Expands.append_single (hfile _ _ _ h1) (ihn _ h2)

/-! D: every derivation is found by the evaluator, for every sufficiently large depth -/

theorem docFile_mono_aux (tree : Tree) (f : Nat) :
    (∀ parents name dps, docFile tree f parents name = some dps → docFile tree (f + 1) parents name = some dps) ∧
    (∀ parents names dps, docList tree f parents names = some dps → docList tree (f + 1) parents names = some dps) := by
  induction f with
  | zero =>
    refine ⟨fun _ _ _ h => by simp [docFile_zero] at h, ?_⟩
    intro parents names dps h
    cases names with
    | nil => simpa [docList_nil] using h
    | cons n ns =>
      rw [docList_cons_some_iff] at h
      obtain ⟨d1, d2, h1, _, _⟩ := h
      simp [docFile_zero] at h1
  | succ f ih =>
    have hfile : ∀ parents name dps, docFile tree (f + 1) parents name = some dps →
        docFile tree (f + 1 + 1) parents name = some dps := by
      intro parents name dps h
      rw [docFile_succ_some_iff] at h ⊢
      obtain ⟨hn, place, kvs, incs, names, mid, h0, h1, h2, h3, rfl⟩ := h
      exact ⟨hn, place, kvs, incs, names, mid, h0, h1, h2, ih.2 _ _ _ h3, rfl⟩
    refine ⟨hfile, ?_⟩
    intro parents names
    induction names with
    | nil => intro dps h; simpa [docList_nil] using h
    | cons n ns ihn =>
      intro dps h
      rw [docList_cons_some_iff] at h ⊢
      obtain ⟨d1, d2, h1, h2, rfl⟩ := h
      exact ⟨d1, d2, hfile _ _ _ h1, ihn _ h2, rfl⟩

theorem docList_mono (tree : Tree) {f g : Nat} (hfg : f ≤ g) (parents : List Name) (names : List Name)
    (dps : List Mapping) (h : docList tree f parents names = some dps) :
    docList tree g parents names = some dps := by
  induction hfg with
  | refl => exact h
  | step _ ih => exact (docFile_mono_aux tree _).2 _ _ _ ih

theorem resolves_docResolveFile (tree : Tree) (name place : Name) (kvs : Mapping)
    (h : Resolves tree name place (.file (.mapping kvs))) : docResolveFile tree name = some (place, kvs) :=
  (docResolveFile_iff tree name place kvs).2 (resolveFile_of_resolves tree name place _ h)

theorem docComplete (tree : Tree) (parents : List Name) (names : List Name) (dps : List Mapping)
    (h : Expands tree parents names dps) : ∃ f0, ∀ f, f0 ≤ f → docList tree f parents names = some dps := by
  induction h with
  | nil => exact ⟨0, fun f _ => docList_nil tree f _⟩
  | @cons parents name rest place kvs incs names ps qs hn hr hi hm _ _ ih1 ih2 =>
    obtain ⟨f1, h1⟩ := ih1
    obtain ⟨f2, h2⟩ := ih2
    refine ⟨max (f1 + 1) f2, ?_⟩
    intro f hf
    have hf1 : f1 + 1 ≤ f := Nat.le_trans (Nat.le_max_left _ _) hf
    have hf2 : f2 ≤ f := Nat.le_trans (Nat.le_max_right _ _) hf
    obtain ⟨f', rfl⟩ : ∃ f', f = f' + 1 := ⟨f - 1, by omega⟩
    rw [docList_cons_some_iff]
    refine ⟨[(splitAtInclude kvs).1] ++ ps ++ [(splitAtInclude kvs).2.2], qs, ?_, h2 _ hf2, by simp⟩
    rw [docFile_succ_some_iff]
    exact ⟨hn, place, kvs, incs, names, ps, resolves_docResolveFile tree name place kvs hr, hi, hm,
      h1 f' (by omega), rfl⟩

/-! ## model vs executable documentation -/


theorem mapE_resolveRelative_iff (place : Name) (incs names : List Name) :
    mapE (fun i => resolveRelative i place) incs = .ok names ↔
      mapO (fun i => docResolve i place) incs = some names := by
  rw [mapE_ok_iff_mapO]
  have : (fun a => toOpt (resolveRelative a place)) = (fun i => docResolve i place) := by
    funext a; exact resolveRelative_doc a place
  rw [this]

/-- the model and the executable documentation agree at every fuel -/
theorem expandDoc (tree : Tree) (f : Nat) :
    (∀ parents name place node ps, resolveFile tree name = .ok (place, node) →
        expandFile f tree parents name place node = .ok ps →
        ∃ dps, docFile tree f parents name = some dps ∧ ps = nonEmpties dps) ∧
    (∀ parents name dps, docFile tree f parents name = some dps →
        ∃ place node, resolveFile tree name = .ok (place, node) ∧
          expandFile f tree parents name place node = .ok (nonEmpties dps)) ∧
    (∀ parents names ps, expandList f tree parents names = .ok ps →
        ∃ dps, docList tree f parents names = some dps ∧ ps = nonEmpties dps) ∧
    (∀ parents names dps, docList tree f parents names = some dps →
        expandList f tree parents names = .ok (nonEmpties dps)) := by
  induction f with
  | zero =>
    refine ⟨?_, ?_, ?_, ?_⟩
    · intro parents name place node ps _ h; simp [expandFile_zero] at h
    · intro parents name dps h; simp [docFile_zero] at h
    · intro parents names ps h
      cases names with
      | nil => simp [expandList_nil] at h; subst h; exact ⟨[], docList_nil _ _ _, rfl⟩
      | cons n ns =>
        rw [expandList_cons_ok_iff] at h
        obtain ⟨_, _, _, _, _, h2, _, _⟩ := h
        simp [expandFile_zero] at h2
    · intro parents names dps h
      cases names with
      | nil => simp [docList_nil] at h; subst h; exact expandList_nil _ _ _
      | cons n ns =>
        rw [docList_cons_some_iff] at h
        obtain ⟨_, _, h1, _, _⟩ := h
        simp [docFile_zero] at h1
  | succ f ih =>
    obtain ⟨_, _, ihl1, ihl2⟩ := ih
    have hfile1 : ∀ parents name place node ps, resolveFile tree name = .ok (place, node) →
        expandFile (f + 1) tree parents name place node = .ok ps →
        ∃ dps, docFile tree (f + 1) parents name = some dps ∧ ps = nonEmpties dps := by
      intro parents name place node ps hres h
      rw [expandFile_succ_ok_iff] at h
      obtain ⟨hn, kvs, incs, names, mid, rfl, h1, h2, h3, rfl⟩ := h
      obtain ⟨dmid, hd, rfl⟩ := ihl1 _ _ _ h3
      refine ⟨[(splitAtInclude kvs).1] ++ dmid ++ [(splitAtInclude kvs).2.2], ?_, piecesOf_eq _ _ _⟩
      rw [docFile_succ_some_iff]
      exact ⟨hn, place, kvs, incs, names, dmid, (docResolveFile_iff _ _ _ _).2 hres, h1,
        (mapE_resolveRelative_iff _ _ _).1 h2, hd, rfl⟩
    have hfile2 : ∀ parents name dps, docFile tree (f + 1) parents name = some dps →
        ∃ place node, resolveFile tree name = .ok (place, node) ∧
          expandFile (f + 1) tree parents name place node = .ok (nonEmpties dps) := by
      intro parents name dps h
      rw [docFile_succ_some_iff] at h
      obtain ⟨hn, place, kvs, incs, names, mid, h0, h1, h2, h3, rfl⟩ := h
      refine ⟨place, .file (.mapping kvs), (docResolveFile_iff _ _ _ _).1 h0, ?_⟩
      rw [expandFile_succ_ok_iff]
      exact ⟨hn, kvs, incs, names, nonEmpties mid, rfl, h1, (mapE_resolveRelative_iff _ _ _).2 h2,
        ihl2 _ _ _ h3, (piecesOf_eq _ _ _).symm⟩
    refine ⟨hfile1, hfile2, ?_, ?_⟩
    · intro parents names
      induction names with
      | nil => intro ps h; simp [expandList_nil] at h; subst h; exact ⟨[], docList_nil _ _ _, rfl⟩
      | cons n ns ihn =>
        intro ps h
        rw [expandList_cons_ok_iff] at h
        obtain ⟨place, node, p, q, h1, h2, h3, rfl⟩ := h
        obtain ⟨d1, hd1, rfl⟩ := hfile1 _ _ _ _ _ h1 h2
        obtain ⟨d2, hd2, rfl⟩ := ihn _ h3
        refine ⟨d1 ++ d2, ?_, (nonEmpties_append _ _).symm⟩
        rw [docList_cons_some_iff]
        exact ⟨d1, d2, hd1, hd2, rfl⟩
    · intro parents names
      induction names with
      | nil => intro dps h; simp [docList_nil] at h; subst h; exact expandList_nil _ _ _
      | cons n ns ihn =>
        intro dps h
        rw [docList_cons_some_iff] at h
        obtain ⟨d1, d2, h1, h2, rfl⟩ := h
        obtain ⟨place, node, hr, he⟩ := hfile2 _ _ _ h1
        rw [expandList_cons_ok_iff]
        exact ⟨place, node, _, _, hr, he, ihn _ h2, nonEmpties_append _ _⟩


/-! ## equality of observed values is reflexive; key order of merge -/


mutual
theorem Val.beq_refl : ∀ v : Val, Val.beq v v = true
  | .null => rfl
  | .bool b => by simp [Val.beq]
  | .int i => by simp [Val.beq]
  | .str s => by simp [Val.beq]
  | .float r => by simp [Val.beq]
  | .list xs => by simp [Val.beq, Val.beqList_refl xs]
  | .dict kvs => by simp [Val.beq, Val.beqKvs_refl kvs]
  | .set xs => by simp [Val.beq]
  | .opaque r => by simp [Val.beq]
theorem Val.beqList_refl : ∀ xs : List Val, Val.beqList xs xs = true
  | [] => rfl
  | x :: xs => by simp [Val.beqList, Val.beq_refl x, Val.beqList_refl xs]
theorem Val.beqKvs_refl : ∀ kvs : List (String × Val), Val.beqKvs kvs kvs = true
  | [] => rfl
  | (k, v) :: rest => by simp [Val.beqKvs, Val.beq_refl v, Val.beqKvs_refl rest]
end

theorem Mapping.beq_refl (m : Mapping) : Mapping.beq m m = true := Val.beqKvs_refl m

/-! key order of merge -/

theorem mergeEntries_keys (ml ms : Bool) (a b m : Mapping) (h : mergeEntries ml ms a b = some m) :
    m.map (·.1) = a.map (·.1) := by
  induction a generalizing m with
  | nil => simp [mergeEntries] at h; subst h; rfl
  | cons p rest ih =>
    obtain ⟨k, v⟩ := p
    rw [mergeEntries] at h
    cases hl : lookup k b with
    | none =>
      simp only [hl] at h
      cases hr : mergeEntries ml ms rest b with
      | none => simp [hr] at h
      | some r => simp [hr] at h; subst h; simp [ih r hr]
    | some w =>
      simp only [hl] at h
      cases hv : mergeVal ml ms v w with
      | none => simp [hv] at h
      | some v' =>
        simp only [hv] at h
        cases hr : mergeEntries ml ms rest b with
        | none => simp [hr] at h
        | some r => simp [hr] at h; subst h; simp [ih r hr]

theorem merge_keys (ml ms : Bool) (a b m : Mapping) (h : merge ml ms a b = some m) :
    m.map (·.1) = a.map (·.1) ++ (b.filter (fun p => !hasKey p.1 a)).map (·.1) := by
  unfold merge at h
  cases he : mergeEntries ml ms a b with
  | none => simp [he] at h
  | some e => simp [he] at h; subst h; simp [mergeEntries_keys ml ms a b e he]

theorem foldMerge_keys (cfg : Cfg) (acc : Mapping) (ps : List Mapping) (d : Mapping)
    (h : foldMerge cfg acc ps = .ok d) :
    ∀ k, k ∈ d.map (·.1) → k ∈ acc.map (·.1) ∨ ∃ p, p ∈ ps ∧ k ∈ p.map (·.1) := by
  induction ps generalizing acc with
  | nil => simp [foldMerge] at h; subst h; intro k hk; exact Or.inl hk
  | cons p rest ih =>
    rw [foldMerge] at h
    cases hm : merge cfg.mergeLists cfg.mergeSets acc p with
    | none => simp [hm] at h
    | some acc' =>
      simp only [hm] at h
      intro k hk
      cases ih acc' h k hk with
      | inr h2 => obtain ⟨q, hq, hkq⟩ := h2; exact Or.inr ⟨q, List.mem_cons_of_mem _ hq, hkq⟩
      | inl h1 =>
        rw [merge_keys _ _ _ _ _ hm, List.mem_append] at h1
        cases h1 with
        | inl h1 => exact Or.inl h1
        | inr h1 =>
          refine Or.inr ⟨p, List.mem_cons_self, ?_⟩
          rw [List.mem_map] at h1 ⊢
          obtain ⟨x, hx, rfl⟩ := h1
          exact ⟨x, (List.mem_filter.1 hx).1, rfl⟩


/-! ## recursion depth on trees with clean names -/

theorem mapE_ok_mem {α β ε : Type} (g : α → Except ε β) (l : List α) (bs : List β) (h : mapE g l = .ok bs) :
    ∀ b, b ∈ bs → ∃ a, a ∈ l ∧ g a = .ok b := by
  induction l generalizing bs with
  | nil => simp [mapE] at h; subst h; intro b hb; cases hb
  | cons a as ih =>
    rw [mapE_ok_cons_iff] at h
    obtain ⟨b0, bs0, h1, h2, rfl⟩ := h
    intro b hb
    cases List.mem_cons.1 hb with
    | inl e => subst e; exact ⟨a, List.mem_cons_self, h1⟩
    | inr hm =>
      obtain ⟨a', ha', hg⟩ := ih bs0 h2 b hm
      exact ⟨a', List.mem_cons_of_mem _ ha', hg⟩



theorem nodup_subset_length {α : Type} [DecidableEq α] (l s : List α) (hn : l.Nodup)
    (hs : ∀ x, x ∈ l → x ∈ s) : l.length ≤ s.length := by
  induction l generalizing s with
  | nil => simp
  | cons a l' ih =>
    rw [List.nodup_cons] at hn
    have ha : a ∈ s := hs a List.mem_cons_self
    have hsub : ∀ x, x ∈ l' → x ∈ s.erase a := by
      intro x hx
      have hne : x ≠ a := fun e => hn.1 (e ▸ hx)
      exact (List.mem_erase_of_ne hne).2 (hs x (List.mem_cons_of_mem _ hx))
    have := ih (s.erase a) hn.2 hsub
    rw [List.length_erase_of_mem ha] at this
    have hpos : 0 < s.length := List.length_pos_of_mem ha
    simp only [List.length_cons]
    omega

theorem mapE_congr {α β ε : Type} (g1 g2 : α → Except ε β) (l : List α) (h : ∀ a, a ∈ l → g1 a = g2 a) :
    mapE g1 l = mapE g2 l := by
  induction l with
  | nil => rfl
  | cons a as ih =>
    simp only [mapE, h a List.mem_cons_self, ih (fun x hx => h x (List.mem_cons_of_mem _ hx))]

theorem expandAll_congr (g1 g2 : Name → Name → FileNode → Except Err (List Mapping))
    (rs : List (Name × Name × FileNode)) (h : ∀ r, r ∈ rs → g1 r.1 r.2.1 r.2.2 = g2 r.1 r.2.1 r.2.2) :
    expandAll g1 rs = expandAll g2 rs := by
  unfold expandAll
  rw [mapE_congr _ _ rs h]

theorem resolveAll_mem (tree : Tree) (names : List Name) (rs : List (Name × Name × FileNode))
    (h : resolveAll tree names = .ok rs) :
    ∀ r, r ∈ rs → r.1 ∈ names ∧ resolveFile tree r.1 = .ok (r.2.1, r.2.2) := by
  induction names generalizing rs with
  | nil => simp [resolveAll, mapE] at h; subst h; intro r hr; cases hr
  | cons n ns ih =>
    rw [resolveAll_cons_ok_iff] at h
    obtain ⟨place, node, rs', h1, h2, rfl⟩ := h
    intro r hr
    cases List.mem_cons.1 hr with
    | inl heq => subst heq; exact ⟨List.mem_cons_self, h1⟩
    | inr hmem => exact ⟨List.mem_cons_of_mem _ (ih rs' h2 r hmem).1, (ih rs' h2 r hmem).2⟩

/-- a name of the documented syntax: at least one segment, no empty segment -/
def CleanName (n : Name) : Prop := n ≠ [] ∧ "" ∉ n

/-- an include name of the documented syntax: leading dots, then a clean name -/
def CleanInc (i : Name) : Prop := CleanName (i.drop (leadingDots i))

theorem pathOf_clean (n : Name) (h : CleanName n) : pathOf n = n := by
  unfold pathOf
  rw [List.filter_eq_self]
  intro s hs
  simp
  intro e; subst e; exact h.2 hs

theorem cleanName_append (a b : Name) (ha : "" ∉ a) (hb : CleanName b) : CleanName (a ++ b) := by
  refine ⟨?_, ?_⟩
  · intro h; exact hb.1 (List.append_eq_nil_iff.1 h).2
  · intro h; rw [List.mem_append] at h
    cases h with
    | inl h => exact ha h
    | inr h => exact hb.2 h

theorem resolveRelative_clean (i place n : Name) (hi : CleanInc i) (hp : "" ∉ place)
    (h : resolveRelative i place = .ok n) : CleanName n := by
  have hdoc := resolveRelative_doc i place
  rw [h] at hdoc
  simp only [toOpt] at hdoc
  unfold docResolve at hdoc
  simp only at hdoc
  by_cases hk : leadingDots i = 0
  · simp only [hk, if_true, Option.some.injEq] at hdoc
    subst hdoc
    unfold CleanInc at hi
    rw [hk] at hi
    simpa using hi
  · simp only [hk, if_false] at hdoc
    split at hdoc
    · cases hdoc
    · split at hdoc
      · cases hdoc
      · simp only [Option.some.injEq] at hdoc
        subst hdoc
        apply cleanName_append
        · intro hm; exact hp (List.mem_of_mem_take hm)
        · exact hi

/-- a finite tree whose include names all have the documented syntax -/
structure CleanTree (tree : Tree) (files : List Path) : Prop where
  finite : ∀ p, tree p ≠ none → p ∈ files
  incs : ∀ p kvs incs, tree p = some (.file (.mapping kvs)) →
    includeNames (splitAtInclude kvs).2.1 = .ok incs → ∀ i, i ∈ incs → CleanInc i

theorem resolveFile_clean (tree : Tree) (name res : Name) (node : FileNode) (hc : CleanName name)
    (h : resolveFile tree name = .ok (res, node)) :
    (tree name ≠ none ∨ tree (name ++ ["init"]) ≠ none) ∧ "" ∉ res ∧ ∃ p, tree p = some node := by
  unfold resolveFile at h
  rw [pathOf_clean name hc] at h
  have hne : ¬ name = [] := hc.1
  simp only [hne, if_false] at h
  have hinit : "" ∉ name ++ ["init"] := by
    intro hm; rw [List.mem_append] at hm
    cases hm with
    | inl hm => exact hc.2 hm
    | inr hm => simp at hm
  split at h
  · rename_i p hp; cases h; exact ⟨Or.inl (by rw [hp]; simp), hc.2, name, hp⟩
  · rename_i hp; cases h; exact ⟨Or.inl (by rw [hp]; simp), hc.2, name, hp⟩
  · split at h
    · rename_i nd hp; cases h; exact ⟨Or.inr (by rw [hp]; simp), hinit, _, hp⟩
    · cases h




section
variable (tree : Tree) (files : List Path)

/-- every ancestor is the top file or a clean name that resolves; no name occurs twice -/
def Chain (parents : List Name) : Prop :=
  parents.Nodup ∧ ∀ n, n ∈ parents → n = TOPFILE ∨ (CleanName n ∧ (tree n ≠ none ∨ tree (n ++ ["init"]) ≠ none))

def depthBound : Nat := 2 * files.length + 1

theorem chain_length (hct : CleanTree tree files) (parents : List Name) (hc : Chain tree parents) :
    parents.length ≤ depthBound files := by
  have := nodup_subset_length parents (TOPFILE :: (files ++ files.map List.dropLast)) hc.1 (by
    intro n hn
    cases hc.2 n hn with
    | inl h => rw [h]; exact List.mem_cons_self
    | inr h =>
      apply List.mem_cons_of_mem
      rw [List.mem_append]
      cases h.2 with
      | inl h1 => exact Or.inl (hct.finite n h1)
      | inr h1 =>
        refine Or.inr ?_
        rw [List.mem_map]
        exact ⟨n ++ ["init"], hct.finite _ h1, by simp⟩)
  simp only [List.length_cons, List.length_append, List.length_map] at this
  unfold depthBound
  omega

theorem expandFile_fuel_irrelevant (hct : CleanTree tree files) (f : Nat) :
    ∀ (g : Nat) (parents : List Name) (name res : Name) (node : FileNode),
      Chain tree parents → CleanName name → resolveFile tree name = .ok (res, node) →
      depthBound files < f + parents.length → depthBound files < g + parents.length →
      expandFile f tree parents name res node = expandFile g tree parents name res node := by
  induction f with
  | zero =>
    intro g parents name res node hc _ _ hf _
    have := chain_length tree files hct parents hc
    omega
  | succ f ih =>
    intro g parents name res node hc hcn hres hf hg
    cases g with
    | zero =>
      have := chain_length tree files hct parents hc
      omega
    | succ g =>
      rw [expandFile.eq_def, expandFile.eq_def]
      by_cases hmem : name ∈ parents
      · simp [hmem]
      · simp only [hmem, if_false]
        obtain ⟨hresolv, hresclean, p, hp⟩ := resolveFile_clean tree name res node hcn hres
        have hchain' : Chain tree (parents ++ [name]) := by
          refine ⟨?_, ?_⟩
          · rw [List.nodup_append]
            refine ⟨hc.1, by simp, ?_⟩
            intro a ha b hb
            simp at hb; subst hb
            intro e; subst e; exact hmem ha
          · intro n hn
            rw [List.mem_append] at hn
            cases hn with
            | inl h => exact hc.2 n h
            | inr h => simp at h; subst h; exact Or.inr ⟨hcn, hresolv⟩
        cases node with
        | dir => rfl
        | renderError => rfl
        | file pr =>
          cases pr with
          | error => rfl
          | nonMapping => rfl
          | mapping kvs =>
            simp only [processContent_eq_split]
            cases hi : includeNames (splitAtInclude kvs).2.1 with
            | error e => rfl
            | ok incs =>
              simp only [bindE]
              cases hn : mapE (fun i => resolveRelative i res) incs with
              | error e => rfl
              | ok names =>
                simp only []
                cases hr : resolveAll tree names with
                | error e => rfl
                | ok rs =>
                  simp only []
                  have hcong := expandAll_congr
                    (fun n r nd => expandFile f tree (parents ++ [name]) n r nd)
                    (fun n r nd => expandFile g tree (parents ++ [name]) n r nd) rs (by
                      intro r hr'
                      obtain ⟨hmemn, hresr⟩ := resolveAll_mem tree names rs hr r hr'
                      obtain ⟨i, hi', hri⟩ := mapE_ok_mem _ incs names hn r.1 hmemn
                      have hclean := resolveRelative_clean i res r.1 (hct.incs p kvs incs hp hi i hi') hresclean hri
                      apply ih g (parents ++ [name]) r.1 r.2.1 r.2.2 hchain' hclean hresr
                      · simp only [List.length_append, List.length_cons, List.length_nil]; omega
                      · simp only [List.length_append, List.length_cons, List.length_nil]; omega)
                  rw [hcong]

end

end Vinegar.Yaml
