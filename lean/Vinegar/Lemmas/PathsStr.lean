import Vinegar.Spec.Paths
/-
String-level lemmas for the request-path model: `splitOn` / `joinWith` are inverse to each
other, `stripSegs` is list-prefix removal, `hasSub` is `<:+:`, and the first-occurrence
substitution of the specification commutes with the segment decomposition of the model.
-/
namespace Vinegar.Paths
open Vinegar Vinegar.Paths.Spec

/-! ### splitOn / joinWith -/

theorem splitOn_ne_nil (sep : Char) (s : Str) : splitOn sep s ≠ [] := by
  induction s with
  | nil => simp [splitOn]
  | cons c cs ih =>
    unfold splitOn
    split
    · simp
    · split
      · simp
      · simp

theorem splitOn_cons_ne (sep c : Char) (cs : Str) (h : c ≠ sep) :
    ∃ hd tl, splitOn sep cs = hd :: tl ∧ splitOn sep (c :: cs) = (c :: hd) :: tl := by
  cases hs : splitOn sep cs with
  | nil => exact absurd hs (splitOn_ne_nil sep cs)
  | cons hd tl =>
    refine ⟨hd, tl, rfl, ?_⟩
    rw [splitOn, if_neg h, hs]

theorem splitOn_append_sep (sep : Char) (a b : Str) :
    splitOn sep (a ++ sep :: b) = splitOn sep a ++ splitOn sep b := by
  induction a with
  | nil => simp [splitOn]
  | cons c cs ih =>
    by_cases h : c = sep
    · subst h
      simp [splitOn, ih]
    · obtain ⟨hd, tl, h1, h2⟩ := splitOn_cons_ne sep c cs h
      rw [h2]
      obtain ⟨hd', tl', h1', h2'⟩ := splitOn_cons_ne sep c (cs ++ sep :: b) h
      rw [List.cons_append, h2']
      rw [ih, h1] at h1'
      simp at h1'
      obtain ⟨rfl, rfl⟩ := h1'
      simp

theorem splitOn_no_sep (sep : Char) (s : Str) (h : sep ∉ s) : splitOn sep s = [s] := by
  induction s with
  | nil => simp [splitOn]
  | cons c cs ih =>
    have hc : c ≠ sep := fun e => h (by simp [e])
    have hcs : sep ∉ cs := fun m => h (List.mem_cons_of_mem _ m)
    rw [splitOn, if_neg hc, ih hcs]

theorem mem_splitOn_no_sep (sep : Char) (s x : Str) (hx : x ∈ splitOn sep s) : sep ∉ x := by
  induction s generalizing x with
  | nil => simp [splitOn] at hx; subst hx; simp
  | cons c cs ih =>
    by_cases h : c = sep
    · subst h
      simp [splitOn] at hx
      rcases hx with rfl | hx
      · simp
      · exact ih x hx
    · obtain ⟨hd, tl, h1, h2⟩ := splitOn_cons_ne sep c cs h
      rw [h2] at hx
      simp at hx
      rcases hx with rfl | hx
      · have := ih hd (by rw [h1]; simp)
        intro m
        simp at m
        rcases m with m | m
        · exact h m.symm
        · exact this m
      · exact ih x (by rw [h1]; simp [hx])

theorem joinWith_cons_cons (sep a : Str) (b : Str) (t : List Str) :
    joinWith sep (a :: b :: t) = a ++ sep ++ joinWith sep (b :: t) := rfl

theorem joinWith_cons_of_ne_nil (sep a : Str) (l : List Str) (h : l ≠ []) :
    joinWith sep (a :: l) = a ++ sep ++ joinWith sep l := by
  cases l with
  | nil => exact absurd rfl h
  | cons b t => rfl

theorem joinWith_splitOn (sep : Char) (s : Str) : joinWith [sep] (splitOn sep s) = s := by
  induction s with
  | nil => simp [splitOn, joinWith]
  | cons c cs ih =>
    by_cases h : c = sep
    · subst h
      rw [splitOn, if_pos rfl, joinWith_cons_of_ne_nil _ _ _ (splitOn_ne_nil _ _), ih]
      simp
    · obtain ⟨hd, tl, h1, h2⟩ := splitOn_cons_ne sep c cs h
      rw [h2]
      rw [h1] at ih
      cases tl with
      | nil => simp [joinWith] at ih ⊢; exact ih
      | cons b t =>
        rw [joinWith_cons_cons] at ih ⊢
        rw [← ih]; simp

theorem joinWith_append (sep : Str) (A B : List Str) (hA : A ≠ []) (hB : B ≠ []) :
    joinWith sep (A ++ B) = joinWith sep A ++ sep ++ joinWith sep B := by
  induction A with
  | nil => exact absurd rfl hA
  | cons a A' ih =>
    cases A' with
    | nil =>
      simp only [List.cons_append, List.nil_append]
      rw [joinWith_cons_of_ne_nil _ _ _ hB]; simp [joinWith]
    | cons a' A'' =>
      have := ih (by simp)
      simp only [List.cons_append] at this ⊢
      rw [joinWith_cons_cons, this, joinWith_cons_cons]
      simp [List.append_assoc]

theorem splitOn_joinWith (sep : Char) (segs : List Str) (hne : segs ≠ [])
    (hs : ∀ s ∈ segs, sep ∉ s) : splitOn sep (joinWith [sep] segs) = segs := by
  induction segs with
  | nil => exact absurd rfl hne
  | cons a rest ih =>
    cases rest with
    | nil => simp [joinWith]; exact splitOn_no_sep sep a (hs a (by simp))
    | cons b t =>
      rw [joinWith_cons_cons]
      have : a ++ [sep] ++ joinWith [sep] (b :: t) = a ++ sep :: joinWith [sep] (b :: t) := by simp
      rw [this, splitOn_append_sep, splitOn_no_sep sep a (hs a (by simp)), ih (by simp)
        (fun s m => hs s (List.mem_cons_of_mem _ m))]
      simp

/-! ### stripSegs -/

theorem stripSegs_eq_some (P S R : List Str) : stripSegs P S = some R ↔ S = P ++ R := by
  induction P generalizing S with
  | nil => simp [stripSegs, eq_comm]
  | cons e es ih =>
    cases S with
    | nil => simp [stripSegs]
    | cons s ss =>
      simp only [stripSegs, List.cons_append, List.cons.injEq]
      by_cases h : e = s
      · subst h; simp [ih]
      · simp [h]; intro h'; exact absurd h'.symm h

/-! ### substrings -/

theorem hasSub_iff_infix (p s : Str) : hasSub p s = true ↔ p <:+: s := by
  induction s with
  | nil => simp [hasSub, List.isEmpty_iff]
  | cons c cs ih =>
    rw [hasSub, Bool.or_eq_true, List.isPrefixOf_iff_prefix, ih, List.infix_cons_iff]

theorem occursIn_iff_infix (p s : Str) : occursIn p s = true ↔ p <:+: s := by
  unfold occursIn
  induction s with
  | nil => simp [suffixes]
  | cons c cs ih =>
    simp only [suffixes, List.any_cons, Bool.or_eq_true, List.isPrefixOf_iff_prefix] at ih ⊢
    rw [ih, List.infix_cons_iff]

/-- a prefix that does not contain the separator cannot reach across one -/
theorem isPrefixOf_append_sep (sep : Char) (p a t : Str) (hp : sep ∉ p)
    (h : p.isPrefixOf (a ++ sep :: t) = true) : p.isPrefixOf a = true := by
  induction p generalizing a with
  | nil => simp
  | cons c cs ih =>
    cases a with
    | nil =>
      simp [List.isPrefixOf] at h
      exact absurd h.1 (fun e => hp (by simp [e]))
    | cons x xs =>
      simp only [List.cons_append, List.isPrefixOf, Bool.and_eq_true] at h ⊢
      exact ⟨h.1, ih xs (fun m => hp (List.mem_cons_of_mem _ m)) h.2⟩

theorem isPrefixOf_append_right (p a t : Str) (h : p.isPrefixOf a = true) : p.isPrefixOf (a ++ t) = true := by
  rw [List.isPrefixOf_iff_prefix] at h ⊢
  exact List.IsPrefix.trans h (List.prefix_append a t)

/-! ### first-occurrence substitution against the segment structure -/

theorem not_isPrefixOf_slash_cons (ph t : Str) (hne : ph ≠ []) (hsl : '/' ∉ ph) :
    ph.isPrefixOf ('/' :: t) = false := by
  cases ph with
  | nil => exact absurd rfl hne
  | cons c cs =>
    have : c ≠ '/' := fun e => hsl (by simp [e])
    simp [List.isPrefixOf, this]

theorem hasSub_cons_false (ph : Str) (c : Char) (cs : Str) (h : hasSub ph (c :: cs) = false) :
    ph.isPrefixOf (c :: cs) = false ∧ hasSub ph cs = false := by
  rw [hasSub, Bool.or_eq_false_iff] at h; exact h

theorem substFirst_skip (ph v a t : Str) (hne : ph ≠ []) (hsl : '/' ∉ ph) (ha : hasSub ph a = false) :
    substFirst ph v (a ++ '/' :: t) = (substFirst ph v t).map (fun r => a ++ '/' :: r) := by
  induction a with
  | nil =>
    simp only [List.nil_append]
    rw [substFirst, not_isPrefixOf_slash_cons ph t hne hsl]
    simp
  | cons c cs ih =>
    obtain ⟨h1, h2⟩ := hasSub_cons_false ph c cs ha
    have hnp : ph.isPrefixOf (c :: cs ++ '/' :: t) = false := by
      cases hp : ph.isPrefixOf (c :: cs ++ '/' :: t) with
      | false => rfl
      | true =>
        have := isPrefixOf_append_sep '/' ph (c :: cs) t hsl hp
        rw [h1] at this; exact absurd this (by simp)
    rw [List.cons_append, substFirst]
    rw [List.cons_append] at hnp
    rw [hnp, ih h2]
    cases substFirst ph v t <;> simp

theorem substFirst_append_right (ph v s s' rest : Str) (hne : ph ≠ []) (hsl : '/' ∉ ph)
    (hrest : rest = [] ∨ ∃ t, rest = '/' :: t) (h : substFirst ph v s = some s') :
    substFirst ph v (s ++ rest) = some (s' ++ rest) := by
  induction s generalizing s' with
  | nil =>
    have : ph.isEmpty = false := by cases ph <;> simp_all
    simp [substFirst, this] at h
  | cons c cs ih =>
    rw [substFirst] at h
    by_cases hp : ph.isPrefixOf (c :: cs) = true
    · rw [if_pos hp] at h
      have hp' := isPrefixOf_append_right ph (c :: cs) rest hp
      rw [List.cons_append, substFirst]
      rw [List.cons_append] at hp'
      rw [if_pos hp']
      have hlen : ph.length ≤ (c :: cs).length := (List.isPrefixOf_iff_prefix.mp hp).length_le
      simp only [Option.some.injEq] at h ⊢
      rw [← h, ← List.cons_append, List.drop_append_of_le_length hlen]
      simp
    · have hp0 : ph.isPrefixOf (c :: cs) = false := Bool.eq_false_iff.mpr hp
      rw [if_neg hp] at h
      have hnp : ph.isPrefixOf (c :: (cs ++ rest)) = false := by
        rcases hrest with rfl | ⟨t, rfl⟩
        · simpa using hp0
        · cases hq : ph.isPrefixOf (c :: (cs ++ '/' :: t)) with
          | false => rfl
          | true =>
            have := isPrefixOf_append_sep '/' ph (c :: cs) t hsl (by simpa using hq)
            rw [hp0] at this; exact absurd this (by simp)
      rw [List.cons_append, substFirst, hnp]
      cases hs : substFirst ph v cs with
      | none => simp [hs] at h
      | some r =>
        simp [hs] at h
        simp [ih r hs, ← h]

theorem splitOnce_spec (ph seg pre suf : Str) (hne : ph ≠ []) (h : splitOnce ph seg = some (pre, suf)) :
    seg = pre ++ ph ++ suf ∧ ∀ v, substFirst ph v seg = some (pre ++ v ++ suf) := by
  induction seg generalizing pre with
  | nil =>
    have : ph.isEmpty = false := by cases ph <;> simp_all
    simp [splitOnce, this] at h
  | cons c cs ih =>
    rw [splitOnce] at h
    by_cases hp : ph.isPrefixOf (c :: cs) = true
    · rw [if_pos hp] at h
      simp only [Option.some.injEq, Prod.mk.injEq] at h
      obtain ⟨rfl, rfl⟩ := h
      constructor
      · have := List.prefix_iff_eq_append.mp (List.isPrefixOf_iff_prefix.mp hp)
        simpa using this.symm
      · intro v; rw [substFirst, if_pos hp]; simp
    · rw [if_neg hp] at h
      cases hs : splitOnce ph cs with
      | none => simp [hs] at h
      | some ab =>
        obtain ⟨a, b⟩ := ab
        simp [hs] at h
        obtain ⟨rfl, rfl⟩ := h
        obtain ⟨h1, h2⟩ := ih a hs
        constructor
        · simp [h1]
        · intro v; rw [substFirst, if_neg hp, h2 v]; simp

/-- the configured path with the placeholder replaced, in terms of the model's segments -/
theorem substFirst_join (ph v : Str) (A B : List Str) (seg seg' : Str) (hne : ph ≠ []) (hsl : '/' ∉ ph)
    (hA : ∀ s ∈ A, hasSub ph s = false) (hseg : substFirst ph v seg = some seg') :
    substFirst ph v (joinWith ['/'] (A ++ seg :: B)) = some (joinWith ['/'] (A ++ seg' :: B)) := by
  induction A with
  | nil =>
    simp only [List.nil_append]
    cases B with
    | nil => simpa [joinWith] using hseg
    | cons b t =>
      rw [joinWith_cons_cons, joinWith_cons_cons]
      have := substFirst_append_right ph v seg seg' ('/' :: joinWith ['/'] (b :: t)) hne hsl
        (Or.inr ⟨_, rfl⟩) hseg
      simpa using this
  | cons a A' ih =>
    have hne' : A' ++ seg :: B ≠ [] := by simp
    have hne'' : A' ++ seg' :: B ≠ [] := by simp
    rw [List.cons_append, List.cons_append, joinWith_cons_of_ne_nil _ _ _ hne', joinWith_cons_of_ne_nil _ _ _ hne'']
    have h1 : a ++ ['/'] ++ joinWith ['/'] (A' ++ seg :: B) = a ++ '/' :: joinWith ['/'] (A' ++ seg :: B) := by simp
    rw [h1, substFirst_skip ph v a _ hne hsl (hA a (by simp)), ih (fun s m => hA s (List.mem_cons_of_mem _ m))]
    simp

/-! ### the constructor's decomposition of `request_path` -/

theorem placeholderSegs_single (ph : Str) (segs : List Str) (k i : Nat) (h : placeholderSegs ph segs k = [i]) :
    ∃ A seg B, segs = A ++ seg :: B ∧ i = k + A.length ∧ (∀ s ∈ A, hasSub ph s = false) ∧ hasSub ph seg = true := by
  induction segs generalizing k with
  | nil => simp [placeholderSegs] at h
  | cons s rest ih =>
    rw [placeholderSegs] at h
    by_cases hs : hasSub ph s = true
    · rw [if_pos hs] at h
      simp at h
      exact ⟨[], s, rest, by simp, by simp [h.1], by simp, hs⟩
    · rw [if_neg hs] at h
      obtain ⟨A, seg, B, h1, h2, h3, h4⟩ := ih (k + 1) h
      refine ⟨s :: A, seg, B, by simp [h1], by simp [h2]; omega, ?_, h4⟩
      intro x hx
      simp at hx
      rcases hx with rfl | hx
      · simpa using hs
      · exact h3 x hx

end Vinegar.Paths
