import Vinegar.Lemmas.TftpNet
/-
Which datagrams go to the client in each phase.
-/
namespace Vinegar.Tftp
open Vinegar

theorem clientSendsSat_append (q : Bytes → Bool) (a b : List Obs) :
    clientSendsSat q (a ++ b) = (clientSendsSat q a && clientSendsSat q b) := by
  simp [clientSendsSat, List.all_append]

theorem awaitAck_clientSends (q : Bytes → Bool) (expect limit : Nat) :
    ∀ (s : List Ev) (now : Nat), clientSendsSat q (awaitAck expect limit now s).obs = true := by
  intro s
  induction s with
  | nil => intro now; simp [awaitAck, clientSendsSat]
  | cons ev s ih =>
    intro now
    cases ev with
    | silence => simp [awaitAck, clientSendsSat]
    | pkt d cpu src data =>
      unfold awaitAck
      split
      · split
        · split
          · split
            · simp [clientSendsSat]
            · have := ih (now + d + cpu)
              simp only [Res.pre_obs, clientSendsSat_append, this]; simp [clientSendsSat]
          · simp [clientSendsSat]
          · simp [clientSendsSat]
        · rename_i hsrc
          have := ih (now + d + cpu)
          simp only [Res.pre_obs, clientSendsSat_append, this]; simp [clientSendsSat, hsrc]
      · simp [clientSendsSat]

theorem sendWithRetry_clientSends (q : Bytes → Bool) (env : Env) (packet : Bytes) (expect : Nat)
    (hq : q packet = true) :
    ∀ (tries now : Nat) (s : List Ev),
      clientSendsSat q (sendWithRetry env packet expect tries now s).obs = true := by
  intro tries
  induction tries with
  | zero => intro now s; simp [sendWithRetry, clientSendsSat]
  | succ k ih =>
    intro now s
    rw [sendWithRetry_succ]
    have hA := awaitAck_clientSends q expect (now + env.timeout) s now
    generalize awaitAck expect (now + env.timeout) now s = r at hA
    have hs : clientSendsSat q [Obs.send now 0 packet] = true := by simp [clientSendsSat, hq]
    cases hout : r.out <;> simp only [Res.pre_obs]
    · rw [show Obs.send now 0 packet :: r.obs = [Obs.send now 0 packet] ++ r.obs from rfl,
        clientSendsSat_append, hs, hA]; rfl
    · rw [show Obs.send now 0 packet :: r.obs ++ (sendWithRetry env packet expect k r.now r.rest).obs
          = [Obs.send now 0 packet] ++ (r.obs ++ (sendWithRetry env packet expect k r.now r.rest).obs) from rfl,
        clientSendsSat_append, clientSendsSat_append, hs, hA, ih]; rfl
    · rw [show Obs.send now 0 packet :: r.obs = [Obs.send now 0 packet] ++ r.obs from rfl,
        clientSendsSat_append, hs, hA]; rfl
    · rw [show Obs.send now 0 packet :: r.obs = [Obs.send now 0 packet] ++ r.obs from rfl,
        clientSendsSat_append, hs, hA]; rfl

theorem sendData_clientSends (q : Bytes → Bool) (hq : ∀ n b, q (dataPacket n b) = true) (env : Env) :
    ∀ (blocks : List (Option Bytes)) (prev now : Nat) (s : List Ev),
      clientSendsSat q (sendData env blocks prev now s).obs = true := by
  intro blocks
  induction blocks with
  | nil => intro prev now s; simp [sendData, clientSendsSat]
  | cons blk blocks ih =>
    intro prev now s
    cases blk with
    | none => simp [sendData, clientSendsSat]
    | some b =>
      unfold sendData
      split
      · simp [clientSendsSat]
      · rename_i n _
        simp only
        have hS := sendWithRetry_clientSends q env (dataPacket n b) n (hq n b) (env.maxRetries + 1) now s
        generalize sendWithRetry env (dataPacket n b) n (env.maxRetries + 1) now s = r at hS
        cases hout : r.out <;> simp only [Res.pre_obs]
        · rw [clientSendsSat_append, hS, ih]; rfl
        · exact hS
        · exact hS
        · exact hS

end Vinegar.Tftp
