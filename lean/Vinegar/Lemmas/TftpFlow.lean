import Vinegar.Lemmas.TftpPackets
/-
The C02 automaton accepts every trace the transfer model can produce: lemmas per
phase of the model (one try, the retry loop, the block loop).
-/
namespace Vinegar.Tftp
open Vinegar

theorem runSteps_append {σ : Type} (step : σ → Obs → Option σ) (s : σ) (a b : List Obs) :
    runSteps step s (a ++ b) = (runSteps step s a).bind (fun s' => runSteps step s' b) := by
  induction a generalizing s with
  | nil => simp [runSteps]
  | cons o os ih =>
    simp only [List.cons_append, runSteps]
    cases step s o with
    | none => simp
    | some s' => simp [ih]

theorem runSteps_pre {σ α : Type} (step : σ → Obs → Option σ) (s : σ) (os : List Obs) (r : Res α) :
    runSteps step s (r.pre os).obs = (runSteps step s os).bind (fun s' => runSteps step s' r.obs) := by
  simp [Res.pre, runSteps_append]

@[simp] theorem Res.pre_out {α : Type} (os : List Obs) (r : Res α) : (r.pre os).out = r.out := rfl
@[simp] theorem Res.pre_now {α : Type} (os : List Obs) (r : Res α) : (r.pre os).now = r.now := rfl
@[simp] theorem Res.pre_rest {α : Type} (os : List Obs) (r : Res α) : (r.pre os).rest = r.rest := rfl
@[simp] theorem Res.pre_obs {α : Type} (os : List Obs) (r : Res α) : (r.pre os).obs = os ++ r.obs := rfl

/-- what one try leads to (`p e n ts`: packet, expected ACK, transmissions so far, start of the try) -/
def afterAwait (R : Nat) (p : Bytes) (e n ts : Nat) (out : Await) (now : Nat) : Phase :=
  match out with
  | .acked => .flow ⟨p, e, n, ts, now, true, false⟩
  | .timedOut => if n = R + 1 then .ended else .flow ⟨p, e, n, ts, now, false, true⟩
  | .invalid => .ended
  | .peerError => .ended

theorem timeout_time (limit now : Nat) :
    now + remaining limit now = if limit > now then limit else now + 1 := by
  unfold remaining; split <;> omega

theorem awaitAck_run (T R : Nat) (p : Bytes) (e n ts : Nat) :
    ∀ (s : List Ev) (now : Nat) (lw : Bool),
      runSteps (c02Step T R) (.flow ⟨p, e, n, ts, now, false, lw⟩) (awaitAck e (ts + T) now s).obs =
        some (afterAwait R p e n ts (awaitAck e (ts + T) now s).out (awaitAck e (ts + T) now s).now) := by
  intro s
  induction s with
  | nil =>
    intro now lw
    simp only [awaitAck, runSteps, c02Step, afterAwait, timeout_time]
    by_cases h : n = R + 1 <;> simp [h]
  | cons ev s ih =>
    intro now lw
    cases ev with
    | silence =>
      simp only [awaitAck, runSteps, c02Step, afterAwait, timeout_time]
      by_cases h : n = R + 1 <;> simp [h]
    | pkt d cpu src data =>
      unfold awaitAck
      by_cases hd : d < remaining (ts + T) now
      · simp only [hd, if_true]
        by_cases hsrc : src = 0
        · subst hsrc
          simp only [if_true]
          cases hcl : classify (data.take maxReq) with
          | ack k =>
            simp only
            by_cases hn : k = e
            · simp [hn, runSteps, c02Step, hcl, afterAwait]
            · simp only [hn, if_false, Res.pre_obs, Res.pre_out, Res.pre_now, List.cons_append,
                List.nil_append, runSteps, c02Step, hcl, if_true, Bool.false_or, decide_false]
              exact ih (now + d + cpu) false
          | invalid => simp [runSteps, c02Step, hcl, afterAwait]
          | peerError => simp [runSteps, c02Step, hcl, afterAwait]
        · simp only [hsrc, if_false, Res.pre_obs, Res.pre_out, Res.pre_now, List.cons_append,
            List.nil_append, runSteps, c02Step]
          exact ih (now + d + cpu) false
      · simp only [hd, if_false, runSteps, c02Step, afterAwait, timeout_time]
        by_cases h : n = R + 1 <;> simp [h]

/-- state right after the `j`-th transmission of a packet at time `now` -/
def sent (packet : Bytes) (expect j now : Nat) : Cur :=
  ⟨packet, expect, j, now, now, false, false⟩

theorem sendWithRetry_succ (env : Env) (packet : Bytes) (expect k now : Nat) (s : List Ev) :
    sendWithRetry env packet expect (k + 1) now s =
      match (awaitAck expect (now + env.timeout) now s).out with
      | .acked => ⟨.acked, (awaitAck expect (now + env.timeout) now s).now,
          (awaitAck expect (now + env.timeout) now s).rest,
          Obs.send now 0 packet :: (awaitAck expect (now + env.timeout) now s).obs⟩
      | .invalid => ⟨.invalid, (awaitAck expect (now + env.timeout) now s).now,
          (awaitAck expect (now + env.timeout) now s).rest,
          Obs.send now 0 packet :: (awaitAck expect (now + env.timeout) now s).obs⟩
      | .peerError => ⟨.peerError, (awaitAck expect (now + env.timeout) now s).now,
          (awaitAck expect (now + env.timeout) now s).rest,
          Obs.send now 0 packet :: (awaitAck expect (now + env.timeout) now s).obs⟩
      | .timedOut => (sendWithRetry env packet expect k (awaitAck expect (now + env.timeout) now s).now
            (awaitAck expect (now + env.timeout) now s).rest).pre
          (Obs.send now 0 packet :: (awaitAck expect (now + env.timeout) now s).obs) := by
  rw [sendWithRetry]
  rfl

/-- the retry loop: with `k` tries left after `j` transmissions (`j + k = R + 1`), starting from
a phase that accepts the next transmission, the automaton ends in an acknowledged state iff the
model reports `acked`, and in `ended` otherwise -/
theorem sendWithRetry_run (T R : Nat) (env : Env) (hT : env.timeout = T) (packet : Bytes) (expect : Nat)
    (hflow : isFlow packet = true) (hexp : expectOf packet = some expect) :
    ∀ (k j now : Nat) (s : List Ev) (P : Phase), j + k = R + 1 →
      (k = 0 → P = .ended) →
      (k ≠ 0 → c02Step T R P (.send now 0 packet) = some (.flow (sent packet expect (j + 1) now))) →
      ((sendWithRetry env packet expect k now s).out = .acked →
          ∃ c', runSteps (c02Step T R) P (sendWithRetry env packet expect k now s).obs = some (.flow c') ∧
            c'.acked = true ∧ c'.packet = packet) ∧
      ((sendWithRetry env packet expect k now s).out ≠ .acked →
          runSteps (c02Step T R) P (sendWithRetry env packet expect k now s).obs = some .ended) := by
  intro k
  induction k with
  | zero =>
    intro j now s P _ h0 _
    simp [sendWithRetry, runSteps, h0 rfl]
  | succ k ih =>
    intro j now s P hjk _ hstep
    have hstep' := hstep (by omega)
    have hA := awaitAck_run T R packet expect (j + 1) now s now false
    rw [sendWithRetry_succ, hT]
    generalize awaitAck expect (now + T) now s = r at hA
    cases hout : r.out with
    | acked =>
      simp only [hout, afterAwait] at hA
      refine ⟨fun _ => ⟨⟨packet, expect, j + 1, now, r.now, true, false⟩, ?_, rfl, rfl⟩, fun h => absurd rfl h⟩
      simp only [runSteps, hstep', sent, hA]
    | invalid =>
      simp only [hout, afterAwait] at hA
      refine ⟨fun h => (by cases h), fun _ => ?_⟩
      simp only [runSteps, hstep', sent, hA]
    | peerError =>
      simp only [hout, afterAwait] at hA
      refine ⟨fun h => (by cases h), fun _ => ?_⟩
      simp only [runSteps, hstep', sent, hA]
    | timedOut =>
      simp only [hout, afterAwait] at hA
      simp only [Res.pre_out, Res.pre_obs, List.cons_append, runSteps, hstep', sent,
        runSteps_append, hA, Option.bind_some]
      by_cases hk : k = 0
      · subst hk
        have hj : j + 1 = R + 1 := by omega
        simp only [hj, if_true]
        exact ih (j + 1) r.now r.rest .ended (by omega) (fun _ => rfl) (fun h => absurd rfl h)
      · have hj : ¬ (j + 1 = R + 1) := by omega
        simp only [hj, if_false]
        apply ih (j + 1) r.now r.rest _ (by omega) (fun h => absurd h hk)
        intro _
        simp [c02Step, hflow, hexp, sent]
        omega

/-- the wrap value is a usable block number different from the maximum (0, 1 or none in practice) -/
def WrapOK (wrap : Option Nat) : Prop := ∀ w, wrap = some w → w < Generated.MAX_BLOCK_NUMBER

theorem nextBlock_le (wrap : Option Nat) (hw : WrapOK wrap) (prev n : Nat)
    (hp : prev ≤ Generated.MAX_BLOCK_NUMBER) (h : nextBlock wrap prev = some n) :
    n ≤ Generated.MAX_BLOCK_NUMBER ∧ n ≠ prev := by
  unfold nextBlock at h
  split at h
  · rename_i heq
    have := hw n h
    omega
  · rename_i hne
    simp at h
    omega

/-- the automaton is ready for the first transmission of the block after `prev` -/
def Ready (wrap : Option Nat) (prev : Nat) (P : Phase) : Prop :=
  P = .idle ∨ ∃ c, P = .flow c ∧ c.acked = true ∧
    ∀ n b, nextBlock wrap prev = some n → c.packet ≠ dataPacket n b

theorem ready_step (T R : Nat) (wrap : Option Nat) (prev n now : Nat) (b : Bytes) (P : Phase)
    (hn : n < 65536) (hnext : nextBlock wrap prev = some n) (hr : Ready wrap prev P) :
    c02Step T R P (.send now 0 (dataPacket n b)) = some (.flow (sent (dataPacket n b) n (0 + 1) now)) := by
  rcases hr with h | ⟨c, h, hack, hne⟩
  · subst h
    simp [c02Step, isFlow_dataPacket, expectOf_dataPacket n hn, sent]
  · subst h
    have := hne n b hnext
    simp [c02Step, isFlow_dataPacket, expectOf_dataPacket n hn, sent, hack, Ne.symm this]

/-- final automaton states of a data phase that did not abort -/
def Quiet (P : Phase) : Prop := P = .idle ∨ ∃ c, P = .flow c ∧ c.acked = true

theorem sendData_run (T R : Nat) (env : Env) (hT : env.timeout = T) (hR : env.maxRetries = R)
    (hw : WrapOK env.wrap) :
    ∀ (blocks : List (Option Bytes)) (prev now : Nat) (s : List Ev) (P : Phase),
      prev ≤ Generated.MAX_BLOCK_NUMBER → Ready env.wrap prev P →
      ∃ P', runSteps (c02Step T R) P (sendData env blocks prev now s).obs = some P' ∧
        (((sendData env blocks prev now s).out = .gaveUp ∨ (sendData env blocks prev now s).out = .invalid ∨
          (sendData env blocks prev now s).out = .peerError) → P' = .ended) ∧
        (((sendData env blocks prev now s).out = .completed ∨ (sendData env blocks prev now s).out = .overflow ∨
          (sendData env blocks prev now s).out = .readFault) → Quiet P') := by
  intro blocks
  induction blocks with
  | nil =>
    intro prev now s P _ hr
    refine ⟨P, by simp [sendData, runSteps], by simp [sendData], fun _ => ?_⟩
    rcases hr with h | ⟨c, h, hack, _⟩
    · exact Or.inl h
    · exact Or.inr ⟨c, h, hack⟩
  | cons blk blocks ih =>
    intro prev now s P hprev hr
    have hquiet : Quiet P := by
      rcases hr with h | ⟨c, h, hack, _⟩
      · exact Or.inl h
      · exact Or.inr ⟨c, h, hack⟩
    cases blk with
    | none => exact ⟨P, by simp [sendData, runSteps], by simp [sendData], fun _ => hquiet⟩
    | some b =>
      unfold sendData
      cases hnext : nextBlock env.wrap prev with
      | none => exact ⟨P, by simp [runSteps], by simp, fun _ => hquiet⟩
      | some n =>
        simp only
        obtain ⟨hnle, hnne⟩ := nextBlock_le env.wrap hw prev n hprev hnext
        have hn : n < 65536 := by have := maxBlockNumber_val; omega
        have hS := sendWithRetry_run T R env hT (dataPacket n b) n (isFlow_dataPacket n b)
          (expectOf_dataPacket n hn b) (env.maxRetries + 1) 0 now s P (by omega) (by omega)
          (fun _ => ready_step T R env.wrap prev n now b P hn hnext hr)
        generalize sendWithRetry env (dataPacket n b) n (env.maxRetries + 1) now s = r at hS
        cases hout : r.out with
        | acked =>
          simp only [hout]
          obtain ⟨c', hrun, hack, hpk⟩ := hS.1 hout
          have hr' : Ready env.wrap n (.flow c') := by
            refine Or.inr ⟨c', rfl, hack, ?_⟩
            intro m b' hm
            rw [hpk]
            obtain ⟨hmle, hmne⟩ := nextBlock_le env.wrap hw n m hnle hm
            intro heq
            have hm' : m < 65536 := by have := maxBlockNumber_val; omega
            exact hmne (dataPacket_inj_number n m b b' hn hm' heq).symm
          obtain ⟨P', h1, h2, h3⟩ := ih n r.now r.rest (.flow c') hnle hr'
          exact ⟨P', by simp only [Res.pre_obs, runSteps_append, hrun, Option.bind_some, h1],
            by simpa using h2, by simpa using h3⟩
        | gaveUp =>
          simp only [hout]
          exact ⟨.ended, hS.2 (by simp [hout]), fun _ => rfl, by simp⟩
        | invalid =>
          simp only [hout]
          exact ⟨.ended, hS.2 (by simp [hout]), fun _ => rfl, by simp⟩
        | peerError =>
          simp only [hout]
          exact ⟨.ended, hS.2 (by simp [hout]), fun _ => rfl, by simp⟩

end Vinegar.Tftp
