import Vinegar.Lemmas.Yaml
/-
Recursion depth of the include expansion on ARBITRARY finite trees and ARBITRARY names (C11).

The cycle check of `_process_data_file` compares NAMES (`file_name in parent_files`), not
paths, and a file has infinitely many names (`a.b`, `a..b`, `a.b.`, `.a.b` in a top list …:
joining an empty segment is the identity in `pathlib`). So the chain of ancestors is NOT
bounded by the number of files. It is bounded all the same, by a pushdown argument:

* a name in the chain is `take k t ++ b₁ ++ … ++ bⱼ` where `t` is a name of the top file and
  every block `bᵢ` is a non-empty prefix of the pushed part (the name without its leading
  dots) of an include name that occurs in the tree (`Reach`): a relative include replaces a
  suffix of the including file's name by its pushed part, an absolute one replaces all of it;
* a block starts with a non-empty segment, so `j ≤ |pathOf name|`, and a name that resolves
  has a path of at most `D` components, `D` = the longest path of the tree;
* hence every ancestor lies in the finite list `cands`, of at most
  `(Σ_t (|t|+1)) · (S+1)^D` names, `S` = the number of segments of all include names of the
  tree; the ancestors are pairwise distinct (that IS the cycle check), so the chain is at most
  that long, plus one for the top file.
-/
namespace Vinegar.Yaml

/-! ## the quantities of the bound -/

/-- the include names of the file at path `p` (none for anything but a mapping with a
well-formed include list) -/
def incsAt (tree : Tree) (p : Path) : List Name :=
  match tree p with
  | some (.file (.mapping kvs)) =>
    match includeNames (splitAtInclude kvs).2.1 with
    | .ok incs => incs
    | .error _ => []
  | _ => []

/-- all include names that occur in the files of the tree -/
def treeIncs (tree : Tree) (files : List Path) : List Name := files.flatMap (incsAt tree)

/-- total number of segments of a list of names -/
def totalLen : List Name → Nat
  | [] => 0
  | n :: ns => n.length + totalLen ns

/-- number of components of the longest path -/
def maxLen : List Path → Nat
  | [] => 0
  | p :: ps => max p.length (maxLen ps)

/-- **The recursion budget that is always enough**: `T · (S+1)^D + 1` with
`T = Σ (|t|+1)` over the names `t` listed by the top file, `S` the number of segments of all
include names in the tree and `D` the number of components of the longest path. -/
def fuelBound (tree : Tree) (files : List Path) (tops : List Name) : Nat :=
  (totalLen tops + tops.length) * (totalLen (treeIncs tree files) + 1) ^ maxLen files + 1

theorem length_le_maxLen (files : List Path) (p : Path) (h : p ∈ files) : p.length ≤ maxLen files := by
  induction files with
  | nil => cases h
  | cons q qs ih =>
    simp only [maxLen]
    cases List.mem_cons.1 h with
    | inl e => subst e; exact Nat.le_max_left _ _
    | inr hm => exact Nat.le_trans (ih hm) (Nat.le_max_right _ _)

/-! ## blocks: the non-empty prefixes of the pushed parts -/

/-- the part of an include name that is pushed onto the (shortened) name of the including
file: the name without its leading dots -/
def suffixOf (i : Name) : Name := i.drop (leadingDots i)

/-- the non-empty prefixes of a name -/
def prefixes1 (l : Name) : List Name := (List.range l.length).map (fun j => l.take (j + 1))

def blocks (tree : Tree) (files : List Path) : List Name :=
  (treeIncs tree files).flatMap (fun i => prefixes1 (suffixOf i))

theorem suffixOf_head (i : Name) : ∀ s rest, suffixOf i = s :: rest → s ≠ "" := by
  induction i with
  | nil => intro s rest h; simp [suffixOf, leadingDots] at h
  | cons a t ih =>
    intro s rest h
    by_cases ha : a = ""
    · subst ha
      have : suffixOf ("" :: t) = suffixOf t := by simp [suffixOf, leadingDots]
      rw [this] at h
      exact ih s rest h
    · simp only [suffixOf, leadingDots_cons_ne t ha, List.drop_zero] at h
      injection h with h1 _
      subst h1; exact ha

theorem pathOf_append (a b : Name) : pathOf (a ++ b) = pathOf a ++ pathOf b := by
  unfold pathOf; exact List.filter_append _ _

theorem pathOf_cons_ne (s : String) (r : Name) (hs : s ≠ "") : pathOf (s :: r) = s :: pathOf r := by
  unfold pathOf; simp [hs]

/-- what the argument needs of the set of blocks: every block has a non-empty segment, and the
set is closed under non-empty prefixes -/
structure BlockSet (B : List Name) : Prop where
  pos : ∀ b, b ∈ B → 1 ≤ (pathOf b).length
  pre : ∀ b, b ∈ B → ∀ m, 0 < m → b.take m ∈ B

theorem mem_prefixes1 (l b : Name) : b ∈ prefixes1 l ↔ ∃ j, j < l.length ∧ b = l.take (j + 1) := by
  unfold prefixes1
  rw [List.mem_map]
  constructor
  · rintro ⟨j, hj, rfl⟩; exact ⟨j, List.mem_range.1 hj, rfl⟩
  · rintro ⟨j, hj, rfl⟩; exact ⟨j, List.mem_range.2 hj, rfl⟩

theorem mem_blocks (tree : Tree) (files : List Path) (b : Name) :
    b ∈ blocks tree files ↔ ∃ i, i ∈ treeIncs tree files ∧ ∃ j, j < (suffixOf i).length ∧ b = (suffixOf i).take (j + 1) := by
  unfold blocks
  rw [List.mem_flatMap]
  constructor
  · rintro ⟨i, hi, hb⟩; exact ⟨i, hi, (mem_prefixes1 _ _).1 hb⟩
  · rintro ⟨i, hi, hb⟩; exact ⟨i, hi, (mem_prefixes1 _ _).2 hb⟩

theorem blocks_blockSet (tree : Tree) (files : List Path) : BlockSet (blocks tree files) := by
  refine ⟨?_, ?_⟩
  · intro b hb
    obtain ⟨i, _, j, hj, rfl⟩ := (mem_blocks tree files b).1 hb
    cases hs : suffixOf i with
    | nil => rw [hs] at hj; simp at hj
    | cons s rest =>
      have hne := suffixOf_head i s rest hs
      rw [List.take_succ_cons, pathOf_cons_ne _ _ hne]
      simp
  · intro b hb m hm
    obtain ⟨i, hi, j, hj, rfl⟩ := (mem_blocks tree files b).1 hb
    rw [mem_blocks]
    refine ⟨i, hi, min m (j + 1) - 1, ?_, ?_⟩
    · have : min m (j + 1) ≤ j + 1 := Nat.min_le_right _ _
      omega
    · rw [List.take_take]
      congr 1
      have : 0 < min m (j + 1) := by
        rw [Nat.lt_min]; exact ⟨hm, Nat.succ_pos _⟩
      omega

/-- a non-empty pushed part is a block -/
theorem suffixOf_mem_blocks (tree : Tree) (files : List Path) (i : Name) (hi : i ∈ treeIncs tree files)
    (hne : suffixOf i ≠ []) : suffixOf i ∈ blocks tree files := by
  rw [mem_blocks]
  have hpos : 0 < (suffixOf i).length := List.length_pos_iff.2 hne
  refine ⟨i, hi, (suffixOf i).length - 1, by omega, ?_⟩
  have : (suffixOf i).length - 1 + 1 = (suffixOf i).length := by omega
  rw [this, List.take_length]

theorem length_le_pathOf_flatten (B : List Name) (hB : BlockSet B) (bs : List Name) (hbs : ∀ b, b ∈ bs → b ∈ B) :
    bs.length ≤ (pathOf bs.flatten).length := by
  induction bs with
  | nil => simp
  | cons b rest ih =>
    rw [List.flatten_cons, pathOf_append, List.length_append, List.length_cons]
    have h1 := hB.pos b (hbs b List.mem_cons_self)
    have h2 := ih (fun x hx => hbs x (List.mem_cons_of_mem _ hx))
    omega

theorem take_flatten_blocks (B : List Name) (hB : BlockSet B) (bs : List Name) (hbs : ∀ b, b ∈ bs → b ∈ B) (m : Nat) :
    ∃ bs' : List Name, (∀ b, b ∈ bs' → b ∈ B) ∧ bs.flatten.take m = bs'.flatten := by
  induction bs generalizing m with
  | nil => exact ⟨[], by simp, by simp⟩
  | cons b rest ih =>
    by_cases hm : m = 0
    · subst hm; exact ⟨[], by simp, by simp⟩
    · obtain ⟨rs, hrs, he⟩ := ih (fun x hx => hbs x (List.mem_cons_of_mem _ hx)) (m - b.length)
      refine ⟨b.take m :: rs, ?_, ?_⟩
      · intro x hx
        cases List.mem_cons.1 hx with
        | inl e => subst e; exact hB.pre b (hbs b List.mem_cons_self) m (Nat.pos_of_ne_zero hm)
        | inr h => exact hrs x h
      · rw [List.flatten_cons, List.take_append, he, List.flatten_cons]

/-! ## the names that can stand in an ancestor chain -/

/-- `take k t ++ b₁ ++ … ++ bⱼ`: a prefix of a top-file name followed by blocks -/
def Reach (tops B : List Name) (n : Name) : Prop :=
  ∃ (t : Name) (k : Nat) (bs : List Name), t ∈ tops ∧ (∀ b, b ∈ bs → b ∈ B) ∧ n = t.take k ++ bs.flatten

theorem Reach.top {tops B : List Name} {t : Name} (h : t ∈ tops) : Reach tops B t :=
  ⟨t, t.length, [], h, by simp, by simp⟩

theorem Reach.take {tops B : List Name} (hB : BlockSet B) {n : Name} (h : Reach tops B n) (m : Nat) :
    Reach tops B (n.take m) := by
  obtain ⟨t, k, bs, ht, hbs, rfl⟩ := h
  obtain ⟨bs', hbs', he⟩ := take_flatten_blocks B hB bs hbs (m - (t.take k).length)
  exact ⟨t, min m k, bs', ht, hbs', by rw [List.take_append, List.take_take, he]⟩

theorem Reach.push {tops B : List Name} {n : Name} (h : Reach tops B n) (b : Name) (hb : b ∈ B) :
    Reach tops B (n ++ b) := by
  obtain ⟨t, k, bs, ht, hbs, rfl⟩ := h
  refine ⟨t, k, bs ++ [b], ht, ?_, by simp [List.flatten_append]⟩
  intro x hx
  rw [List.mem_append] at hx
  cases hx with
  | inl h => exact hbs x h
  | inr h => simp at h; subst h; exact hb

/-- one include step keeps the shape: the name of an included file, as resolved from the
place of the including file, is again a top prefix followed by blocks -/
theorem Reach.step (tree : Tree) (files : List Path) (tops : List Name) (name res i n : Name)
    (hr : Reach tops (blocks tree files) name) (hres : res = name ∨ res = name ++ ["init"])
    (hi : i ∈ treeIncs tree files) (hn : resolveRelative i res = .ok n) (hne : n ≠ []) :
    Reach tops (blocks tree files) n := by
  have hdoc := resolveRelative_doc i res
  rw [hn] at hdoc
  simp only [toOpt] at hdoc
  unfold docResolve at hdoc
  simp only at hdoc
  by_cases hk : leadingDots i = 0
  · -- absolute: the whole name is replaced
    simp only [hk, if_true, Option.some.injEq] at hdoc
    subst hdoc
    have hs : suffixOf n = n := by simp [suffixOf, hk]
    have := suffixOf_mem_blocks tree files n hi (by rw [hs]; exact hne)
    rw [hs] at this
    obtain ⟨t, _, _, ht, _, _⟩ := hr
    exact ⟨t, 0, [n], ht, by simpa using this, by simp⟩
  · simp only [hk, if_false] at hdoc
    split at hdoc
    · cases hdoc
    · rename_i hdrop
      split at hdoc
      · cases hdoc
      · rename_i hle
        simp only [Option.some.injEq] at hdoc
        subst hdoc
        have htake : res.take (res.length - leadingDots i) = name.take (res.length - leadingDots i) := by
          cases hres with
          | inl e => rw [e]
          | inr e =>
            rw [e]
            apply List.take_append_of_le_length
            simp only [List.length_append, List.length_cons, List.length_nil]
            omega
        rw [htake]
        exact Reach.push (Reach.take (blocks_blockSet tree files) hr _) _
          (suffixOf_mem_blocks tree files i hi hdrop)

/-! ## the finite list of candidates -/

/-- concatenations of at most `j` blocks -/
def wordsUpTo (B : List Name) : Nat → List Name
  | 0 => [[]]
  | j + 1 => [] :: B.flatMap (fun b => (wordsUpTo B j).map (fun w => b ++ w))

def topPrefixes (tops : List Name) : List Name :=
  tops.flatMap (fun t => (List.range (t.length + 1)).map (fun k => t.take k))

def cands (tops B : List Name) (D : Nat) : List Name :=
  (topPrefixes tops).flatMap (fun p => (wordsUpTo B D).map (fun w => p ++ w))

theorem flatten_mem_wordsUpTo (B : List Name) (j : Nat) (bs : List Name) (hbs : ∀ b, b ∈ bs → b ∈ B)
    (hl : bs.length ≤ j) : bs.flatten ∈ wordsUpTo B j := by
  induction j generalizing bs with
  | zero =>
    have : bs = [] := List.eq_nil_of_length_eq_zero (by omega)
    subst this; simp [wordsUpTo]
  | succ j ih =>
    cases bs with
    | nil => simp [wordsUpTo]
    | cons b rest =>
      simp only [wordsUpTo, List.flatten_cons]
      apply List.mem_cons_of_mem
      rw [List.mem_flatMap]
      refine ⟨b, hbs b List.mem_cons_self, ?_⟩
      rw [List.mem_map]
      refine ⟨rest.flatten, ih rest (fun x hx => hbs x (List.mem_cons_of_mem _ hx)) ?_, rfl⟩
      simp only [List.length_cons] at hl
      omega

theorem take_mem_topPrefixes (tops : List Name) (t : Name) (ht : t ∈ tops) (k : Nat) :
    t.take k ∈ topPrefixes tops := by
  unfold topPrefixes
  rw [List.mem_flatMap]
  refine ⟨t, ht, ?_⟩
  rw [List.mem_map]
  refine ⟨min k t.length, ?_, List.take_eq_take_min.symm⟩
  rw [List.mem_range]
  have : min k t.length ≤ t.length := Nat.min_le_right _ _
  omega

/-- a reachable name with a path of at most `D` components is a candidate -/
theorem Reach.mem_cands {tops B : List Name} (hB : BlockSet B) {n : Name} (h : Reach tops B n) (D : Nat)
    (hD : (pathOf n).length ≤ D) : n ∈ cands tops B D := by
  obtain ⟨t, k, bs, ht, hbs, rfl⟩ := h
  unfold cands
  rw [List.mem_flatMap]
  refine ⟨t.take k, take_mem_topPrefixes tops t ht k, ?_⟩
  rw [List.mem_map]
  refine ⟨bs.flatten, flatten_mem_wordsUpTo B D bs hbs ?_, rfl⟩
  have h1 := length_le_pathOf_flatten B hB bs hbs
  rw [pathOf_append, List.length_append] at hD
  omega

/-! counting -/

theorem length_flatMap_le {α β : Type} (l : List α) (f : α → List β) (c : Nat) (h : ∀ a, a ∈ l → (f a).length ≤ c) :
    (l.flatMap f).length ≤ l.length * c := by
  induction l with
  | nil => simp
  | cons a as ih =>
    rw [List.flatMap_cons, List.length_append, List.length_cons, Nat.succ_mul]
    have h1 := h a List.mem_cons_self
    have h2 := ih (fun x hx => h x (List.mem_cons_of_mem _ hx))
    omega

theorem length_wordsUpTo (B : List Name) (j : Nat) : (wordsUpTo B j).length ≤ (B.length + 1) ^ j := by
  induction j with
  | zero => simp [wordsUpTo]
  | succ j ih =>
    simp only [wordsUpTo, List.length_cons]
    have h1 := length_flatMap_le B (fun b => (wordsUpTo B j).map (fun w => b ++ w)) ((B.length + 1) ^ j)
      (fun a _ => by simpa using ih)
    have hpos : 1 ≤ (B.length + 1) ^ j := Nat.one_le_pow _ _ (Nat.succ_pos _)
    rw [Nat.pow_succ, Nat.mul_succ]
    have : (B.length + 1) ^ j * B.length = B.length * (B.length + 1) ^ j := Nat.mul_comm _ _
    omega

theorem length_topPrefixes (tops : List Name) : (topPrefixes tops).length = totalLen tops + tops.length := by
  induction tops with
  | nil => rfl
  | cons t ts ih =>
    simp only [topPrefixes, List.flatMap_cons, List.length_append, List.length_map, List.length_range,
      totalLen, List.length_cons] at ih ⊢
    omega

theorem length_suffixOf_le (i : Name) : (suffixOf i).length ≤ i.length := by
  simp [suffixOf]

theorem length_blocks_le (tree : Tree) (files : List Path) :
    (blocks tree files).length ≤ totalLen (treeIncs tree files) := by
  unfold blocks
  generalize treeIncs tree files = l
  induction l with
  | nil => simp [totalLen]
  | cons i is ih =>
    simp only [List.flatMap_cons, List.length_append, totalLen]
    have : (prefixes1 (suffixOf i)).length = (suffixOf i).length := by simp [prefixes1]
    have := length_suffixOf_le i
    omega

theorem length_cands_le (tops B : List Name) (D : Nat) :
    (cands tops B D).length ≤ (totalLen tops + tops.length) * (B.length + 1) ^ D := by
  unfold cands
  have := length_flatMap_le (topPrefixes tops) (fun p => (wordsUpTo B D).map (fun w => p ++ w))
    ((B.length + 1) ^ D) (fun a _ => by simpa using length_wordsUpTo B D)
  rw [length_topPrefixes] at this
  exact this

/-- the number of candidates is within the closed form of `fuelBound` -/
theorem length_cands_lt_fuelBound (tree : Tree) (files : List Path) (tops : List Name) :
    (cands tops (blocks tree files) (maxLen files)).length + 1 ≤ fuelBound tree files tops := by
  unfold fuelBound
  have h1 := length_cands_le tops (blocks tree files) (maxLen files)
  have h2 : (totalLen tops + tops.length) * ((blocks tree files).length + 1) ^ maxLen files ≤
      (totalLen tops + tops.length) * (totalLen (treeIncs tree files) + 1) ^ maxLen files :=
    Nat.mul_le_mul (Nat.le_refl _)
      (Nat.pow_le_pow_left (Nat.succ_le_succ (length_blocks_le tree files)) _)
  omega

/-! ## the chain of ancestors and the main induction -/

theorem resolveFile_ok_cases (tree : Tree) (name res : Name) (node : FileNode)
    (h : resolveFile tree name = .ok (res, node)) :
    pathOf name ≠ [] ∧ ((res = name ∧ tree (pathOf name) = some node) ∨
      (res = name ++ ["init"] ∧ tree (pathOf name ++ ["init"]) = some node)) := by
  unfold resolveFile at h
  by_cases hp : pathOf name = []
  · simp [hp] at h
  · simp only [hp, if_false] at h
    refine ⟨hp, ?_⟩
    split at h
    · rename_i p hp'; cases h; exact Or.inl ⟨rfl, hp'⟩
    · rename_i hp'; cases h; exact Or.inl ⟨rfl, hp'⟩
    · split at h
      · rename_i nd hp'; cases h; exact Or.inr ⟨rfl, hp'⟩
      · cases h

theorem mem_treeIncs (tree : Tree) (files : List Path) (p : Path) (kvs : Mapping) (incs : List Name) (i : Name)
    (hp : p ∈ files) (ht : tree p = some (.file (.mapping kvs)))
    (hincs : includeNames (splitAtInclude kvs).2.1 = .ok incs) (hi : i ∈ incs) : i ∈ treeIncs tree files := by
  unfold treeIncs
  rw [List.mem_flatMap]
  refine ⟨p, hp, ?_⟩
  unfold incsAt
  simp only [ht, hincs]
  exact hi

section
variable (tree : Tree) (files : List Path) (tops : List Name)

/-- the ancestors are pairwise distinct, and each is the top file or a candidate -/
def FChain (parents : List Name) : Prop :=
  parents.Nodup ∧ ∀ n, n ∈ parents → n = TOPFILE ∨ n ∈ cands tops (blocks tree files) (maxLen files)

theorem fchain_length (parents : List Name) (hc : FChain tree files tops parents) :
    parents.length ≤ (cands tops (blocks tree files) (maxLen files)).length + 1 := by
  have := nodup_subset_length parents (TOPFILE :: cands tops (blocks tree files) (maxLen files)) hc.1 (by
    intro n hn
    cases hc.2 n hn with
    | inl h => rw [h]; exact List.mem_cons_self
    | inr h => exact List.mem_cons_of_mem _ h)
  simpa using this

/-- a reachable name that resolves in a finite tree is a candidate -/
theorem reach_resolves_mem_cands (hfin : ∀ p, tree p ≠ none → p ∈ files) (name res : Name) (node : FileNode)
    (hr : Reach tops (blocks tree files) name) (hres : resolveFile tree name = .ok (res, node)) :
    name ∈ cands tops (blocks tree files) (maxLen files) := by
  apply Reach.mem_cands (blocks_blockSet tree files) hr
  obtain ⟨_, hcase⟩ := resolveFile_ok_cases tree name res node hres
  cases hcase with
  | inl h =>
    exact length_le_maxLen files _ (hfin _ (by rw [h.2]; simp))
  | inr h =>
    have := length_le_maxLen files _ (hfin _ (by rw [h.2]; simp))
    simp only [List.length_append, List.length_cons, List.length_nil] at this
    omega

/-- with more budget than there are candidates left, the budget does not matter -/
theorem expandFile_fuel_irrelevant_all (hfin : ∀ p, tree p ≠ none → p ∈ files) (f : Nat) :
    ∀ (g : Nat) (parents : List Name) (name res : Name) (node : FileNode),
      FChain tree files tops parents → Reach tops (blocks tree files) name →
      resolveFile tree name = .ok (res, node) →
      (cands tops (blocks tree files) (maxLen files)).length + 1 < f + parents.length →
      (cands tops (blocks tree files) (maxLen files)).length + 1 < g + parents.length →
      expandFile f tree parents name res node = expandFile g tree parents name res node := by
  induction f with
  | zero =>
    intro g parents name res node hc _ _ hf _
    have := fchain_length tree files tops parents hc
    omega
  | succ f ih =>
    intro g parents name res node hc hreach hres hf hg
    cases g with
    | zero =>
      have := fchain_length tree files tops parents hc
      omega
    | succ g =>
      rw [expandFile.eq_def, expandFile.eq_def]
      by_cases hmem : name ∈ parents
      · simp [hmem]
      · simp only [hmem, if_false]
        have hcand := reach_resolves_mem_cands tree files tops hfin name res node hreach hres
        obtain ⟨_, hcase⟩ := resolveFile_ok_cases tree name res node hres
        have hchain' : FChain tree files tops (parents ++ [name]) := by
          refine ⟨?_, ?_⟩
          · rw [List.nodup_append]
            refine ⟨hc.1, by simp, ?_⟩
            intro a ha b hb
            simp at hb; subst hb
            intro e; subst e; exact hmem ha
          · intro n hn
            rw [List.mem_append] at hn
            cases hn with
            | inl h => exact hc.2 n h
            | inr h => simp at h; subst h; exact Or.inr hcand
        have hresor : res = name ∨ res = name ++ ["init"] := by
          cases hcase with
          | inl h => exact Or.inl h.1
          | inr h => exact Or.inr h.1
        have hnode : ∃ p, p ∈ files ∧ tree p = some node := by
          cases hcase with
          | inl h => exact ⟨_, hfin _ (by rw [h.2]; simp), h.2⟩
          | inr h => exact ⟨_, hfin _ (by rw [h.2]; simp), h.2⟩
        obtain ⟨p, hpf, hp⟩ := hnode
        cases node with
        | dir => rfl
        | renderError => rfl
        | file pr =>
          cases pr with
          | error => rfl
          | nonMapping => rfl
          | mapping kvs =>
            simp only [processContent_eq_split]
            cases hi : includeNames (splitAtInclude kvs).2.1 with
            | error e => rfl
            | ok incs =>
              simp only [bindE]
              cases hn : mapE (fun i => resolveRelative i res) incs with
              | error e => rfl
              | ok names =>
                simp only []
                cases hr : resolveAll tree names with
                | error e => rfl
                | ok rs =>
                  simp only []
                  have hcong := expandAll_congr
                    (fun n r nd => expandFile f tree (parents ++ [name]) n r nd)
                    (fun n r nd => expandFile g tree (parents ++ [name]) n r nd) rs (by
                      intro r hr'
                      obtain ⟨hmemn, hresr⟩ := resolveAll_mem tree names rs hr r hr'
                      obtain ⟨i, hi', hri⟩ := mapE_ok_mem _ incs names hn r.1 hmemn
                      have hne : r.1 ≠ [] := by
                        intro e
                        have := (resolveFile_ok_cases tree r.1 r.2.1 r.2.2 hresr).1
                        rw [e] at this
                        exact this rfl
                      have hreach' := Reach.step tree files tops name res i r.1 hreach hresor
                        (mem_treeIncs tree files p kvs incs i hpf hp hi hi') hri hne
                      apply ih g (parents ++ [name]) r.1 r.2.1 r.2.2 hchain' hreach' hresr
                      · simp only [List.length_append, List.length_cons, List.length_nil]; omega
                      · simp only [List.length_append, List.length_cons, List.length_nil]; omega)
                  rw [hcong]

end

/-! ## no budget error above the bound -/

theorem mapE_error_mem {α β ε : Type} (g : α → Except ε β) (l : List α) (e : ε) (h : mapE g l = .error e) :
    ∃ a, a ∈ l ∧ g a = .error e := by
  induction l with
  | nil => simp [mapE] at h
  | cons a as ih =>
    rw [mapE] at h
    cases ha : g a with
    | error e' =>
      rw [ha] at h; simp only at h
      cases h; exact ⟨a, List.mem_cons_self, ha⟩
    | ok b =>
      rw [ha] at h; simp only at h
      cases hm : mapE g as with
      | error e' =>
        rw [hm] at h; simp only at h
        cases h
        obtain ⟨x, hx, hg⟩ := ih hm
        exact ⟨x, List.mem_cons_of_mem _ hx, hg⟩
      | ok bs => rw [hm] at h; cases h

theorem includeNames_error_ne_fuel (o : Option Val) (e : Err) (h : includeNames o = .error e) : e ≠ .fuel := by
  unfold includeNames at h
  split at h
  all_goals first
    | (cases h; done)
    | (cases h; intro h'; cases h'; done)
    | (split at h <;> first | (cases h; done) | (cases h; intro h'; cases h'))

theorem resolveFile_error_ne_fuel (tree : Tree) (n : Name) (e : Err) (h : resolveFile tree n = .error e) :
    e ≠ .fuel := by
  unfold resolveFile at h
  split at h
  · cases h; intro h'; cases h'
  · split at h
    · cases h
    · cases h
    · split at h
      · cases h
      · cases h; intro h'; cases h'

theorem resolveAll_error_ne_fuel (tree : Tree) (names : List Name) (e : Err) (h : resolveAll tree names = .error e) :
    e ≠ .fuel := by
  obtain ⟨n, _, hn⟩ := mapE_error_mem _ names e h
  cases hr : resolveFile tree n with
  | error e' =>
    rw [hr] at hn; simp only [bindE] at hn
    cases hn; exact resolveFile_error_ne_fuel tree n e hr
  | ok r => rw [hr] at hn; simp [bindE] at hn

theorem resolveRelative_error_ne_fuel (inc place : Name) (e : Err) (h : resolveRelative inc place = .error e) :
    e ≠ .fuel := by
  unfold resolveRelative at h
  split at h
  · cases h; intro h'; cases h'
  · split at h
    · rw [stripDots_spec] at h
      rename_i tl _
      by_cases hle : leadingDots ("" :: tl) ≤ place.length
      · simp only [hle, if_true] at h
        split at h
        · rename_i heq; cases heq
        · cases h; intro h'; cases h'
        · cases h
      · simp only [hle, if_false] at h
        cases h; intro h'; cases h'
    · cases h

section
variable (tree : Tree) (files : List Path) (tops : List Name)

/-- with more budget than there are candidates left, the budget is never exhausted -/
theorem expandFile_no_fuel_error (hfin : ∀ p, tree p ≠ none → p ∈ files) (f : Nat) :
    ∀ (parents : List Name) (name res : Name) (node : FileNode),
      FChain tree files tops parents → Reach tops (blocks tree files) name →
      resolveFile tree name = .ok (res, node) →
      (cands tops (blocks tree files) (maxLen files)).length + 1 < f + parents.length →
      expandFile f tree parents name res node ≠ .error .fuel := by
  induction f with
  | zero =>
    intro parents name res node hc _ _ hf
    have := fchain_length tree files tops parents hc
    omega
  | succ f ih =>
    intro parents name res node hc hreach hres hf
    rw [expandFile.eq_def]
    by_cases hmem : name ∈ parents
    · simp [hmem]
    · simp only [hmem, if_false]
      have hcand := reach_resolves_mem_cands tree files tops hfin name res node hreach hres
      obtain ⟨_, hcase⟩ := resolveFile_ok_cases tree name res node hres
      have hchain' : FChain tree files tops (parents ++ [name]) := by
        refine ⟨?_, ?_⟩
        · rw [List.nodup_append]
          refine ⟨hc.1, by simp, ?_⟩
          intro a ha b hb
          simp at hb; subst hb
          intro e; subst e; exact hmem ha
        · intro n hn
          rw [List.mem_append] at hn
          cases hn with
          | inl h => exact hc.2 n h
          | inr h => simp at h; subst h; exact Or.inr hcand
      have hresor : res = name ∨ res = name ++ ["init"] := by
        cases hcase with
        | inl h => exact Or.inl h.1
        | inr h => exact Or.inr h.1
      have hnode : ∃ p, p ∈ files ∧ tree p = some node := by
        cases hcase with
        | inl h => exact ⟨_, hfin _ (by rw [h.2]; simp), h.2⟩
        | inr h => exact ⟨_, hfin _ (by rw [h.2]; simp), h.2⟩
      obtain ⟨p, hpf, hp⟩ := hnode
      cases node with
      | dir => simp
      | renderError => simp
      | file pr =>
        cases pr with
        | error => simp
        | nonMapping => simp
        | mapping kvs =>
          simp only [processContent_eq_split]
          cases hi : includeNames (splitAtInclude kvs).2.1 with
          | error e =>
            simp only [bindE]
            intro h; cases h
            exact includeNames_error_ne_fuel _ _ hi rfl
          | ok incs =>
            simp only [bindE]
            cases hn : mapE (fun i => resolveRelative i res) incs with
            | error e =>
              simp only []
              intro h; cases h
              obtain ⟨i, _, hie⟩ := mapE_error_mem _ incs _ hn
              exact resolveRelative_error_ne_fuel i res _ hie rfl
            | ok names =>
              simp only []
              cases hr : resolveAll tree names with
              | error e =>
                simp only []
                intro h; cases h
                exact resolveAll_error_ne_fuel tree names _ hr rfl
              | ok rs =>
                simp only []
                cases hx : expandAll (fun n r nd => expandFile f tree (parents ++ [name]) n r nd) rs with
                | ok mid => simp
                | error e =>
                  simp only []
                  intro h; cases h
                  unfold expandAll at hx
                  cases hm : mapE (fun r => (fun n r nd => expandFile f tree (parents ++ [name]) n r nd) r.1 r.2.1 r.2.2) rs with
                  | ok pss => rw [hm] at hx; simp [bindE] at hx
                  | error e' =>
                    rw [hm] at hx; simp only [bindE] at hx
                    cases hx
                    obtain ⟨r, hr', hre⟩ := mapE_error_mem _ rs _ hm
                    obtain ⟨hmemn, hresr⟩ := resolveAll_mem tree names rs hr r hr'
                    obtain ⟨i, hi', hri⟩ := mapE_ok_mem _ incs names hn r.1 hmemn
                    have hne : r.1 ≠ [] := by
                      intro e
                      have := (resolveFile_ok_cases tree r.1 r.2.1 r.2.2 hresr).1
                      rw [e] at this
                      exact this rfl
                    have hreach' := Reach.step tree files tops name res i r.1 hreach hresor
                      (mem_treeIncs tree files p kvs incs i hpf hp hi hi') hri hne
                    refine ih (parents ++ [name]) r.1 r.2.1 r.2.2 hchain' hreach' hresr ?_ hre
                    simp only [List.length_append, List.length_cons, List.length_nil]; omega

end

/-! ## the whole compilation -/

/-- the budget that is always enough for `compile`: `fuelBound` for the names the top file
selects (nothing is expanded when the top file fails or selects nothing) -/
def compileBound (cfg : Cfg) (top : TopView) (tree : Tree) (files : List Path) : Nat :=
  match processTop cfg.allowEmptyTop top with
  | .ok (some ns) => fuelBound tree files ns
  | _ => 0

theorem topNames_error_ne_fuel (es : List (MatchRes × TopList)) (e : Err) (h : topNames es = .error e) :
    e ≠ .fuel := by
  induction es with
  | nil => simp [topNames] at h
  | cons x rest ih =>
    obtain ⟨m, l⟩ := x
    cases l with
    | notSeq => simp [topNames] at h; subst h; intro h'; cases h'
    | str => simp [topNames] at h; subst h; intro h'; cases h'
    | unsupported => simp [topNames] at h; subst h; intro h'; cases h'
    | names ns =>
      simp only [topNames] at h
      split at h
      · cases h; intro h'; cases h'
      · cases m with
        | error c => simp only at h; cases h; intro h'; cases h'
        | no => exact ih h
        | yes =>
          simp only at h
          cases hr : topNames rest with
          | error e' => rw [hr] at h; simp only at h; cases h; exact ih hr
          | ok r => rw [hr] at h; cases h

theorem processTop_error_ne_fuel (a : Bool) (top : TopView) (e : Err) (h : processTop a top = .error e) :
    e ≠ .fuel := by
  cases top with
  | missing => simp [processTop] at h; subst h; intro h'; cases h'
  | renderError => simp [processTop] at h; subst h; intro h'; cases h'
  | parsed p =>
    cases p with
    | error => simp [processTop, topOutcome] at h; subst h; intro h'; cases h'
    | nonMapping => simp [processTop, topOutcome] at h; subst h; intro h'; cases h'
    | null =>
      simp only [processTop, topOutcome] at h
      split at h
      · cases h
      · cases h; intro h'; cases h'
    | entries es =>
      simp only [processTop, topOutcome] at h
      cases ht : topNames es with
      | error e' => rw [ht] at h; simp only at h; cases h; exact topNames_error_ne_fuel es e ht
      | ok ns => rw [ht] at h; cases h

theorem foldMerge_error_ne_fuel (cfg : Cfg) (acc : Mapping) (ps : List Mapping) (e : Err)
    (h : foldMerge cfg acc ps = .error e) : e ≠ .fuel := by
  induction ps generalizing acc with
  | nil => simp [foldMerge] at h
  | cons p rest ih =>
    simp only [foldMerge] at h
    split at h
    · cases h; intro h'; cases h'
    · exact ih _ h

end Vinegar.Yaml
