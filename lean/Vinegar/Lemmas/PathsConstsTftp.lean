import Vinegar.Model.Paths
/-
`TftpFileRequestHandler._rewrite_filename_if_needed` leaves a name alone exactly when it
starts with one of these literals; the model (`tftpRewrite`) and the parity theorem
`Vinegar.C06.tftp_parity` are about the single literal "/". On a tree that still contains
D10 (`"%2f"` in the list) this obligation does not hold.
-/
namespace Vinegar.Paths
open Vinegar

theorem tftp_keep_prefixes_val : Generated.PATHS_TFTP_KEEP_PREFIXES = ["/"] := by decide

end Vinegar.Paths
