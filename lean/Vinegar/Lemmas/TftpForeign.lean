import Vinegar.Lemmas.TftpFlow
/-
Foreign datagrams (src ≠ 0) do not interfere with a transfer: the run on a script and the run on
the script from which every foreign datagram was removed (`dropForeign`) are in simulation
(`Sim`): same outcome, same clock, corresponding rests of the script, and the same events once
those that concern a foreign peer are projected away (`clientView`). Lemmas per phase of the
model: one try (`awaitAck_sim`), the retry loop, the block loop, the request.
-/
namespace Vinegar.Tftp
open Vinegar

/-! ### the two projections -/

/-- the next datagram arrives `e` ticks later (nothing to postpone before `silence` or at the end:
both mean "nothing until the deadline") -/
def addDelay (e : Nat) : List Ev → List Ev
  | [] => []
  | .silence :: s => .silence :: s
  | .pkt d cpu src data :: s => .pkt (e + d) cpu src data :: s

/-- the script in which the foreign datagrams never existed: each one is removed and the time it
took to arrive is added to the delay of the datagram that follows it -/
def dropForeign : List Ev → List Ev
  | [] => []
  | .silence :: s => .silence :: dropForeign s
  | .pkt d cpu src data :: s =>
    if src = 0 then .pkt d cpu src data :: dropForeign s else addDelay d (dropForeign s)

def startsSilent : List Ev → Bool
  | .silence :: _ => true
  | _ => false

/-- side condition on the script (on the script alone, no reference to deadlines): every foreign
datagram is handled in no time, and a foreign datagram with a non-zero delay is not followed -
directly or through further foreign datagrams - by `silence`.

`silence` means "nothing arrives before the deadline of the try that is current when the event is
reached". A foreign datagram that misses a deadline is carried into the next try; a `silence`
behind it then refers to a LATER try than in the script without the datagram, so deleting the
datagram is not a local operation on such a script (`C09.foreign_noninterference_needs_side_condition`).
Nothing is lost by the restriction: `silence` is expressible by a delay (`awaitAck_silence_as_delay`),
so every arrival pattern can be scripted with the late datagram written as `pkt (rest of try + d') …`. -/
def foreignOK : List Ev → Bool
  | [] => true
  | .silence :: s => foreignOK s
  | .pkt d cpu src _ :: s =>
    (src == 0 || (cpu == 0 && (d == 0 || !startsSilent (dropForeign s)))) && foreignOK s

/-- events that do not concern a foreign peer -/
def isClientObs : Obs → Bool
  | .send _ dst _ => dst == 0
  | .recv _ _ src _ => src == 0
  | _ => true

/-- the trace without the datagrams from and to foreign peers; order and time stamps kept -/
def clientView (obs : List Obs) : List Obs := obs.filter isClientObs

@[simp] theorem clientView_nil : clientView [] = [] := rfl

theorem clientView_append (a b : List Obs) : clientView (a ++ b) = clientView a ++ clientView b := by
  simp [clientView]

theorem clientView_idem (a : List Obs) : clientView (clientView a) = clientView a := by
  simp [clientView]

theorem clientView_cons_send0 (t : Nat) (p : Bytes) (a : List Obs) :
    clientView (Obs.send t 0 p :: a) = Obs.send t 0 p :: clientView a := by
  simp [clientView, isClientObs]

theorem addDelay_zero (s : List Ev) : addDelay 0 s = s := by
  cases s with
  | nil => rfl
  | cons ev s => cases ev <;> simp [addDelay]

theorem addDelay_addDelay (e d : Nat) (s : List Ev) : addDelay e (addDelay d s) = addDelay (e + d) s := by
  cases s with
  | nil => rfl
  | cons ev s => cases ev <;> simp [addDelay, Nat.add_assoc]

/-! ### deadline arithmetic -/

theorem remaining_pos (limit now : Nat) : 0 < remaining limit now := by
  unfold remaining; split <;> omega

/-- the deadline is where it was after `e` ticks within the try -/
theorem remaining_end (limit now e : Nat) (he : e < remaining limit now) :
    now + e + remaining limit (now + e) = now + remaining limit now := by
  unfold remaining at *
  split at he <;> split <;> omega

theorem remaining_lt_shift (limit now e : Nat) (he : e < remaining limit now) (d : Nat) :
    d < remaining limit (now + e) ↔ e + d < remaining limit now := by
  unfold remaining at *
  split at he <;> split <;> omega

/-- what is left of the delay of a datagram that misses the deadline -/
theorem remaining_carry (limit now e : Nat) (he : e < remaining limit now) (d : Nat)
    (hd : ¬ d < remaining limit (now + e)) :
    d - remaining limit (now + e) = e + d - remaining limit now := by
  unfold remaining at *
  split at he <;> split at hd <;> split <;> omega

/-- `silence` is a datagram that arrives a full rest-of-try later: both end the try by its timeout
and leave the datagram with its delay `d'` for the next try -/
theorem awaitAck_silence_as_delay (expect limit now d' cpu src : Nat) (data : Bytes) (s : List Ev) :
    awaitAck expect limit now (.silence :: .pkt d' cpu src data :: s) =
      awaitAck expect limit now (.pkt (remaining limit now + d') cpu src data :: s) := by
  rw [awaitAck, awaitAck]
  have h : ¬ (remaining limit now + d' < remaining limit now) := by omega
  simp [h]

/-! ### simulation -/

/-- `A`: a phase run on a script, `B`: the same phase run on the script without its foreign datagrams -/
structure Sim {α : Type} (A B : Res α) : Prop where
  out : A.out = B.out
  now : A.now = B.now
  ok : foreignOK A.rest = true
  rest : dropForeign A.rest = B.rest
  obs : clientView A.obs = B.obs

theorem Sim.pre {α : Type} {A B : Res α} (h : Sim A B) (o1 o2 : List Obs) (ho : clientView o1 = o2) :
    Sim (A.pre o1) (B.pre o2) :=
  ⟨h.out, h.now, h.ok, h.rest, by simp [clientView_append, ho, h.obs]⟩

theorem Sim.pre_left {α : Type} {A B : Res α} (h : Sim A B) (o1 : List Obs) (ho : clientView o1 = []) :
    Sim (A.pre o1) B :=
  ⟨h.out, h.now, h.ok, h.rest, by simp [clientView_append, ho, h.obs]⟩

/-- **one try**. `e`: time already spent in this try on foreign datagrams (the run on the full
script is `e` ticks ahead, the other run has `e` added to the delay of its next datagram). Holds
whether or not the datagrams arrive before the try's deadline. -/
theorem awaitAck_sim (expect limit : Nat) :
    ∀ (s : List Ev) (now e : Nat), e < remaining limit now → foreignOK s = true →
      Sim (awaitAck expect limit (now + e) s) (awaitAck expect limit now (addDelay e (dropForeign s))) := by
  intro s
  induction s with
  | nil =>
    intro now e he _
    have hend := remaining_end limit now e he
    simp only [dropForeign, addDelay, awaitAck]
    exact ⟨rfl, hend, rfl, rfl, by simp [clientView, isClientObs, hend]⟩
  | cons ev s ih =>
    intro now e he hok
    have hend := remaining_end limit now e he
    cases ev with
    | silence =>
      have hok' : foreignOK s = true := by simpa [foreignOK] using hok
      simp only [dropForeign, addDelay, awaitAck]
      exact ⟨rfl, hend, hok', rfl, by simp [clientView, isClientObs, hend]⟩
    | pkt d cpu src data =>
      have hshift := remaining_lt_shift limit now e he d
      by_cases hsrc : src = 0
      · -- a datagram from the client: present in both scripts, `e` ticks later in the second
        subst hsrc
        have hok' : foreignOK s = true := by simpa [foreignOK] using hok
        have e1 : now + (e + d) = now + e + d := by omega
        simp only [dropForeign, if_true, addDelay]
        by_cases hin : d < remaining limit (now + e)
        · have hin' : e + d < remaining limit now := hshift.mp hin
          rw [awaitAck, awaitAck]
          simp only [hin, hin', if_true, e1]
          cases hc : classify (List.take maxReq data) with
          | ack n =>
            by_cases hn : n = expect
            · simp only [hn, if_true]
              exact ⟨rfl, rfl, hok', rfl, by simp [clientView, isClientObs]⟩
            · simp only [hn, if_false]
              have h0 := ih (now + e + d + cpu) 0 (remaining_pos _ _) hok'
              simp only [Nat.add_zero, addDelay_zero] at h0
              exact h0.pre _ _ (by simp [clientView, isClientObs])
          | invalid => exact ⟨rfl, rfl, hok', rfl, by simp [clientView, isClientObs]⟩
          | peerError => exact ⟨rfl, rfl, hok', rfl, by simp [clientView, isClientObs]⟩
        · have hin' : ¬ e + d < remaining limit now := fun h => hin (hshift.mpr h)
          have hcarry := remaining_carry limit now e he d hin
          rw [awaitAck, awaitAck]
          simp only [hin, hin', if_false]
          refine ⟨rfl, hend, ?_, ?_, by simp [clientView, isClientObs, hend]⟩
          · simpa [foreignOK] using hok'
          · simp [dropForeign, hcarry]
      · -- a foreign datagram: absent from the second script
        have hok3 : cpu = 0 ∧ (d = 0 ∨ startsSilent (dropForeign s) = false) ∧ foreignOK s = true := by
          simpa [foreignOK, hsrc, and_assoc] using hok
        obtain ⟨hcpu, hsil, hok'⟩ := hok3
        subst hcpu
        have hdrop : addDelay e (dropForeign (.pkt d 0 src data :: s)) = addDelay (e + d) (dropForeign s) := by
          simp [dropForeign, hsrc, addDelay_addDelay]
        rw [hdrop]
        by_cases hin : d < remaining limit (now + e)
        · -- in time: answered with ERROR 5, the try goes on with the same deadline
          have hin' : e + d < remaining limit now := hshift.mp hin
          have hA : awaitAck expect limit (now + e) (.pkt d 0 src data :: s) =
              (awaitAck expect limit (now + (e + d)) s).pre
                [.recv (now + e + d) (now + e + d) src (data.take maxReq), .send (now + e + d) src err5] := by
            rw [awaitAck]
            have e2 : now + e + d = now + (e + d) := by omega
            simp [hin, hsrc, e2]
          rw [hA]
          exact (ih now (e + d) hin' hok').pre_left _ (by simp [clientView, isClientObs, hsrc])
        · -- after the deadline: the try times out in both runs, the datagram is carried over
          have hin' : ¬ e + d < remaining limit now := fun h => hin (hshift.mpr h)
          have hcarry := remaining_carry limit now e he d hin
          have hA : awaitAck expect limit (now + e) (.pkt d 0 src data :: s) =
              ⟨.timedOut, now + e + remaining limit (now + e),
               .pkt (d - remaining limit (now + e)) 0 src data :: s,
               [.timeout (now + e + remaining limit (now + e))]⟩ := by
            rw [awaitAck]; simp [hin]
          rw [hA]
          have hd0 : d ≠ 0 := by
            intro h0; subst h0; exact hin (remaining_pos _ _)
          have hsil' : startsSilent (dropForeign s) = false := by
            cases hsil with
            | inl h => exact absurd h hd0
            | inr h => exact h
          have hokA : foreignOK (.pkt (d - remaining limit (now + e)) 0 src data :: s) = true := by
            simp [foreignOK, hsil', hok']
          cases hds : dropForeign s with
          | nil =>
            simp only [addDelay, awaitAck]
            exact ⟨rfl, hend, hokA, by simp [dropForeign, hsrc, hds, addDelay],
              by simp [clientView, isClientObs, hend]⟩
          | cons ev' u =>
            cases ev' with
            | silence => simp [hds, startsSilent] at hsil'
            | pkt d' cpu' src' data' =>
              have hlate : ¬ e + d + d' < remaining limit now := by omega
              simp only [addDelay]
              rw [awaitAck]
              simp only [hlate, if_false]
              refine ⟨rfl, hend, hokA, ?_, by simp [clientView, isClientObs, hend]⟩
              simp only [dropForeign, hsrc, if_false, hds, addDelay]
              have : d - remaining limit (now + e) + d' = e + d + d' - remaining limit now := by omega
              rw [this]

/-- **the retry loop** -/
theorem sendWithRetry_sim (env : Env) (packet : Bytes) (expect : Nat) :
    ∀ (tries now : Nat) (s : List Ev), foreignOK s = true →
      Sim (sendWithRetry env packet expect tries now s)
        (sendWithRetry env packet expect tries now (dropForeign s)) := by
  intro tries
  induction tries with
  | zero => intro now s hok; simp only [sendWithRetry]; exact ⟨rfl, rfl, hok, rfl, rfl⟩
  | succ k ih =>
    intro now s hok
    rw [sendWithRetry_succ, sendWithRetry_succ]
    have hA := awaitAck_sim expect (now + env.timeout) s now 0 (remaining_pos _ _) hok
    simp only [Nat.add_zero, addDelay_zero] at hA
    generalize awaitAck expect (now + env.timeout) now s = A at hA
    generalize awaitAck expect (now + env.timeout) now (dropForeign s) = B at hA
    obtain ⟨ho, hn, hk, hr, hobs⟩ := hA
    rw [← ho]
    cases hout : A.out with
    | acked => exact ⟨rfl, hn, hk, hr, by simp [clientView_cons_send0, hobs]⟩
    | invalid => exact ⟨rfl, hn, hk, hr, by simp [clientView_cons_send0, hobs]⟩
    | peerError => exact ⟨rfl, hn, hk, hr, by simp [clientView_cons_send0, hobs]⟩
    | timedOut =>
      simp only
      rw [← hn, ← hr]
      exact (ih A.now A.rest hk).pre _ _ (by simp [clientView_cons_send0, hobs])

/-- **the block loop** -/
theorem sendData_sim (env : Env) :
    ∀ (blocks : List (Option Bytes)) (prev now : Nat) (s : List Ev), foreignOK s = true →
      Sim (sendData env blocks prev now s) (sendData env blocks prev now (dropForeign s)) := by
  intro blocks
  induction blocks with
  | nil => intro prev now s hok; simp only [sendData]; exact ⟨rfl, rfl, hok, rfl, rfl⟩
  | cons blk blocks ih =>
    intro prev now s hok
    cases blk with
    | none => simp only [sendData]; exact ⟨rfl, rfl, hok, rfl, rfl⟩
    | some b =>
      unfold sendData
      cases hnb : nextBlock env.wrap prev with
      | none => exact ⟨rfl, rfl, hok, rfl, rfl⟩
      | some n =>
        simp only
        have hS := sendWithRetry_sim env (dataPacket n b) n (env.maxRetries + 1) now s hok
        generalize sendWithRetry env (dataPacket n b) n (env.maxRetries + 1) now s = A at hS
        generalize sendWithRetry env (dataPacket n b) n (env.maxRetries + 1) now (dropForeign s) = B at hS
        obtain ⟨ho, hn, hk, hr, hobs⟩ := hS
        rw [← ho]
        cases hout : A.out with
        | acked =>
          simp only
          rw [← hn, ← hr]
          exact (ih n A.now A.rest hk).pre _ _ hobs
        | gaveUp => exact ⟨rfl, hn, hk, hr, hobs⟩
        | invalid => exact ⟨rfl, hn, hk, hr, hobs⟩
        | peerError => exact ⟨rfl, hn, hk, hr, hobs⟩

/-- **the request**: OACK phase and data phase -/
theorem processRequest_sim (env : Env) (oack : Opts) (blocks : List (Option Bytes)) (now : Nat) (s : List Ev)
    (hok : foreignOK s = true) :
    Sim (processRequest env oack blocks now s) (processRequest env oack blocks now (dropForeign s)) := by
  unfold processRequest
  split
  · exact sendData_sim env blocks 0 now s hok
  · simp only
    have hS := sendWithRetry_sim env (oackPacket oack) 0 (env.maxRetries + 1) now s hok
    generalize sendWithRetry env (oackPacket oack) 0 (env.maxRetries + 1) now s = A at hS
    generalize sendWithRetry env (oackPacket oack) 0 (env.maxRetries + 1) now (dropForeign s) = B at hS
    obtain ⟨ho, hn, hk, hr, hobs⟩ := hS
    rw [← ho]
    cases hout : A.out with
    | acked =>
      simp only
      rw [← hn, ← hr]
      exact (sendData_sim env blocks 0 A.now A.rest hk).pre _ _ hobs
    | gaveUp => exact ⟨rfl, hn, hk, hr, hobs⟩
    | invalid => exact ⟨rfl, hn, hk, hr, hobs⟩
    | peerError => exact ⟨rfl, hn, hk, hr, hobs⟩

theorem clientView_finish (e : End) (now : Nat) : clientView (finish e now) = finish e now := by
  cases e <;> simp [finish, clientView, isClientObs]

end Vinegar.Tftp
