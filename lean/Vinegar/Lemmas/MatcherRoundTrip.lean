import Vinegar.Lemmas.Matcher
/-
Helper lemmas for C18, part 2: every legal rendering of a concrete syntax tree is parsed back
to the tree it was printed from (`parse_renderTop`). The proof follows the three grammar levels
of the recursive-descent parser: `UStmt` (a unary expression followed by any continuation
`k`), `AStmt` ("parsing c and then continuing the and-loop = continuing the and-loop with the
tree of c"), `OStmt` (the same for the or-loop), by induction over the concrete syntax tree.
-/
namespace Vinegar.Matcher

/-! ### facts about renderings -/

def PrevOK (p : Option Char) : Prop := p = none ∨ ∃ c, p = some c ∧ (isSpace c = true ∨ c = '(')

/-- what follows a rendered sub-expression: nothing, whitespace or a closing parenthesis
    (irrelevant when the sub-expression itself ends with a parenthesis) -/
def FollowOK (c : Cst) (k : Str) : Prop :=
  endsParen c = true ∨ k = [] ∨ ∃ d k', k = d :: k' ∧ (isSpace d = true ∨ d = ')')

/-- a rendering that ends with a bare keyword term (`(and)` family) must be followed by `)` -/
def KwOK (c : Cst) (k : Str) : Prop := endsKeyword c = true → ∃ k', k = ')' :: k'

def NoSpaceHead (k : Str) : Prop := ∀ c r, k = c :: r → isSpace c = false

/-- the input after leading whitespace -/
def dropWs (k : Str) : Str := (skipWsAux none k).rest

theorem skipWsAux_rest (p q : Option Char) (k : Str) : (skipWsAux p k).rest = (skipWsAux q k).rest := by
  induction k generalizing p q with
  | nil => rfl
  | cons c cs ih =>
    by_cases h : isSpace c = true
    · simp only [skipWsAux, h, if_true]
    · simp [skipWsAux, h]

theorem skipWs_rest (p : Option Char) (k : Str) : (skipWs ⟨p, k⟩).rest = dropWs k := skipWsAux_rest _ _ _

theorem dropWs_append (ws k : Str) (hws : allSpace ws = true) (hk : NoSpaceHead k) : dropWs (ws ++ k) = k := by
  unfold dropWs; rw [skipWsAux_append none ws k hws hk]

theorem keywordAt_of_letters (kw p k : Str) (hkw : ∀ a ∈ kw, isSpace a = false ∧ a ≠ ')')
    (hp : ∀ c ∈ p, isStopPattern c = false)
    (hk : k = [] ∨ ∃ d k', k = d :: k' ∧ (isSpace d = true ∨ d = ')'))
    (h : keywordAt kw (p ++ k) = true) : p = kw := by
  induction kw generalizing p with
  | nil =>
    cases p with
    | nil => rfl
    | cons c p' =>
      have hc := hp c (by simp)
      have hn : ¬ (isSpace c = true ∨ c = '@' ∨ c = '(' ∨ c = ')') := by
        intro hh; rw [(isStopPattern_iff c).2 hh] at hc; cases hc
      simp [keywordAt, dropPrefix?, kwFollow_eq] at h
      rcases h with h | h
      · exact absurd (Or.inr (Or.inr (Or.inl h))) hn
      · exact absurd (Or.inl h) hn
  | cons a kw' ih =>
    cases p with
    | nil =>
      rcases hk with rfl | ⟨d, k', rfl, hd⟩
      · simp [keywordAt, dropPrefix?] at h
      · have ha := hkw a (by simp)
        by_cases e : a = d
        · subst e
          rcases hd with hd | hd
          · rw [ha.1] at hd; cases hd
          · exact absurd hd ha.2
        · simp [keywordAt, dropPrefix?, e] at h
    | cons c p' =>
      by_cases e : a = c
      · subst e
        have : keywordAt kw' (p' ++ k) = true := by
          simpa [keywordAt, dropPrefix?] using h
        rw [ih p' (fun x hx => hkw x (by simp [hx])) (fun x hx => hp x (by simp [hx])) this]
      · simp [keywordAt, dropPrefix?, e] at h

theorem keyword_letters : ∀ kw ∈ keywords, ∀ a ∈ kw, isSpace a = false ∧ a ≠ ')' := by decide

theorem findKeyword_none_of_head (c : Char) (r : Str) (h : c ≠ 'a' ∧ c ≠ 'n' ∧ c ≠ 'o') :
    findKeyword keywords (c :: r) = none := by
  rw [keywords_eq]
  simp [findKeyword, keywordAt, dropPrefix?, kwAnd, kwNot, kwOr, Ne.symm h.1, Ne.symm h.2.1, Ne.symm h.2.2]

theorem findKeyword_none_unquoted (p k : Str) (hp : ∀ c ∈ p, isStopPattern c = false)
    (hk : k = [] ∨ ∃ d k', k = d :: k' ∧ (isSpace d = true ∨ d = ')')) (hn : keywords.contains p = false) :
    findKeyword keywords (p ++ k) = none := by
  unfold findKeyword
  rw [List.find?_eq_none]
  intro kw hkw hat
  have := keywordAt_of_letters kw p k (keyword_letters kw hkw) hp hk (by simpa using hat)
  subst this
  simp at hn
  exact hn hkw

theorem renderAtom_cons (a : AtomSyn) (hl : legalAtom a = true) :
    ∃ c r, renderAtom a = c :: r ∧ c ≠ '(' ∧ isSpace c = false := by
  obtain ⟨⟨key, kind, pat, cs⟩, sh, slash, keyQ, patQ⟩ := a
  cases sh with
  | true =>
    simp only [legalAtom, Bool.and_eq_true] at hl
    have h3 := hl.2
    obtain ⟨c, r, hr, _, h2, h3'⟩ := renderStr_head_ne_at patQ pat [] (fun hq => by simp [hq] at h3; exact h3)
    exact ⟨c, r, by simpa [renderAtom, renderPrefix] using hr, h2, h3'⟩
  | false =>
    cases key with
    | some k0 => exact ⟨'@', _, by simp [renderAtom, renderPrefix]; rfl, by decide, by decide⟩
    | none => exact ⟨'@', _, by simp [renderAtom, renderPrefix]; rfl, by decide, by decide⟩

theorem keywordAt_self (kw rest : Str) :
    keywordAt kw (kw ++ rest) = true ↔ (rest = [] ∨ ∃ d t, rest = d :: t ∧ (d = '(' ∨ isSpace d = true)) := by
  unfold keywordAt
  rw [dropPrefix?_append]
  cases rest with
  | nil => simp
  | cons d t => simp [kwFollow_eq]

theorem findKeyword_none_bare (p k' : Str) (hp : ∀ c ∈ p, isStopPattern c = false) :
    findKeyword keywords (p ++ ')' :: k') = none := by
  unfold findKeyword
  rw [List.find?_eq_none]
  intro kw hkw hat
  have := keywordAt_of_letters kw p (')' :: k') (keyword_letters kw hkw) hp
    (Or.inr ⟨')', k', rfl, Or.inr rfl⟩) (by simpa using hat)
  subst this
  have h2 : keywordAt p (p ++ ')' :: k') = true := by simpa using hat
  rw [keywordAt_self] at h2
  rcases h2 with h2 | ⟨d, t, h2, h3⟩
  · cases h2
  · simp at h2
    rw [← h2.1] at h3
    revert h3; decide

theorem findKeyword_renderAtom (a : AtomSyn) (hl : legalAtom a = true) (k : Str)
    (hk : k = [] ∨ ∃ d k', k = d :: k' ∧ (isSpace d = true ∨ d = ')'))
    (hkw : bareKeyword a = true → ∃ k', k = ')' :: k') :
    findKeyword keywords (renderAtom a ++ k) = none := by
  obtain ⟨⟨key, kind, pat, cs⟩, sh, slash, keyQ, patQ⟩ := a
  cases sh with
  | false =>
    cases key with
    | some k0 =>
      have : ∃ t, renderAtom ⟨⟨some k0, kind, pat, cs⟩, false, slash, keyQ, patQ⟩ ++ k = '@' :: t :=
        ⟨_, by simp [renderAtom, renderPrefix]; rfl⟩
      obtain ⟨t, ht⟩ := this
      rw [ht]; exact findKeyword_none_of_head _ _ (by decide)
    | none =>
      have : ∃ t, renderAtom ⟨⟨none, kind, pat, cs⟩, false, slash, keyQ, patQ⟩ ++ k = '@' :: t :=
        ⟨_, by simp [renderAtom, renderPrefix]; rfl⟩
      obtain ⟨t, ht⟩ := this
      rw [ht]; exact findKeyword_none_of_head _ _ (by decide)
  | true =>
    simp only [legalAtom, Bool.and_eq_true] at hl
    have h3 := hl.2
    by_cases hq : patQ = .none
    · subst hq
      simp at h3
      obtain ⟨c, cs', hs, _, hall⟩ := unquotedOk_cases h3
      have : renderAtom ⟨⟨key, kind, pat, cs⟩, true, slash, keyQ, .none⟩ ++ k = pat ++ k := by
        simp [renderAtom, renderPrefix, renderStr]
      rw [this]
      cases hc : keywords.contains pat with
      | false => exact findKeyword_none_unquoted pat k (by rw [hs]; exact hall) hk hc
      | true =>
        obtain ⟨k', rfl⟩ := hkw (by simpa [bareKeyword] using hc)
        exact findKeyword_none_bare pat k' (by rw [hs]; exact hall)
    · have : ∃ t, renderAtom ⟨⟨key, kind, pat, cs⟩, true, slash, keyQ, patQ⟩ ++ k = patQ.char :: t :=
        ⟨_, by simp [renderAtom, renderPrefix, renderStr_quoted patQ hq]; rfl⟩
      obtain ⟨t, ht⟩ := this
      rw [ht]; exact findKeyword_none_of_head _ _ (by cases patQ <;> decide)

theorem render_cons (c : Cst) (hl : legal c = true) :
    ∃ d r, render c = d :: r ∧ isSpace d = false ∧ (startsParen c = true → d = '(') ∧
      (startsParen c = false → d ≠ '(') := by
  induction c with
  | atom a =>
    obtain ⟨d, r, h1, h2, h3⟩ := renderAtom_cons a (by simpa [legal] using hl)
    exact ⟨d, r, by simpa [render] using h1, h3, by simp [startsParen], fun _ => h2⟩
  | not ws c ih => exact ⟨'n', _, by simp [render, kwNot]; rfl, by decide, by simp [startsParen], fun _ => by decide⟩
  | paren ws1 c ws2 ih => exact ⟨'(', _, by simp [render]; rfl, by decide, fun _ => rfl, by simp [startsParen]⟩
  | and l ws1 ws2 r ihl ihr =>
    simp only [legal, Bool.and_eq_true] at hl
    obtain ⟨d, t, h1, h2, h3, h4⟩ := ihl hl.1.1.2
    exact ⟨d, t ++ _, by simp [render, h1]; rfl, h2, by simpa [startsParen] using h3, by simpa [startsParen] using h4⟩
  | or l ws1 ws2 r ihl ihr =>
    simp only [legal, Bool.and_eq_true] at hl
    obtain ⟨d, t, h1, h2, h3, h4⟩ := ihl hl.1.1.2
    exact ⟨d, t ++ _, by simp [render, h1]; rfl, h2, by simpa [startsParen] using h3, by simpa [startsParen] using h4⟩

theorem render_getLast (c : Cst) (h : endsParen c = true) : (render c).getLast? = some ')' := by
  induction c with
  | atom a => simp [endsParen] at h
  | not ws c ih =>
    have := ih (by simpa [endsParen] using h)
    simp only [render]
    rw [← List.append_assoc, List.getLast?_append, this]; rfl
  | paren ws1 c ws2 ih =>
    simp only [render]
    have : '(' :: (ws1 ++ (render c ++ (ws2 ++ [')']))) = ('(' :: (ws1 ++ (render c ++ ws2))) ++ [')'] := by simp
    rw [this, List.getLast?_append]; rfl
  | and l ws1 ws2 r ihl ihr =>
    have := ihr (by simpa [endsParen] using h)
    simp only [render]
    rw [← List.append_assoc, ← List.append_assoc, ← List.append_assoc, List.getLast?_append, this]; rfl
  | or l ws1 ws2 r ihl ihr =>
    have := ihr (by simpa [endsParen] using h)
    simp only [render]
    rw [← List.append_assoc, ← List.append_assoc, ← List.append_assoc, List.getLast?_append, this]; rfl

theorem startsParen_not_startsNot (c : Cst) (h : startsParen c = true) : startsNot c = false := by
  induction c with
  | atom a => rfl
  | not ws c ih => simp [startsParen] at h
  | paren ws1 c ws2 ih => rfl
  | and l ws1 ws2 r ihl ihr => exact ihl (by simpa [startsParen] using h)
  | or l ws1 ws2 r ihl ihr => exact ihl (by simpa [startsParen] using h)

/-! ### one loop iteration, loop exit -/

theorem loop_fuel' (kw : Str) (hkw : kw ≠ []) (sub : St → Res) (mk : Expr → Expr → Expr) (m : Nat) (hsub : Good m sub) :
    ∀ (f1 f2 : Nat) (left : Expr) (st : St), st.rest.length < m → st.rest.length < f1 → st.rest.length < f2 →
      loop kw sub mk f1 left st = loop kw sub mk f2 left st := by
  intro f1
  induction f1 with
  | zero => intro f2 left st _ h; omega
  | succ f1 ih =>
    intro f2 left st hm h1 h2
    cases f2 with
    | zero => omega
    | succ f2 =>
      rw [loop, loop]
      split
      · rfl
      · cases ha : acceptKeyword [kw] st with
        | error e => rfl
        | ok o =>
          cases o with
          | none => rfl
          | some st1 =>
            have hlt := acceptKeyword_shrinks hkw ha
            have h4 := skipWs_length st1
            dsimp only
            cases hs : sub (skipWs st1) with
            | error e => rfl
            | ok q =>
              obtain ⟨right, st2⟩ := q
              have h3 := (hsub (skipWs st1) (by omega)).2 _ _ hs
              have h5 := skipWs_length st2
              exact ih f2 _ _ (by omega) (by omega) (by omega)

theorem loop_exit (kw : Str) (sub : St → Res) (mk : Expr → Expr → Expr) (f : Nat) (acc : Expr) (st : St)
    (hf : 0 < f) (h : keywordAt kw st.rest = false) : loop kw sub mk f acc st = .ok (acc, st) := by
  cases f with
  | zero => omega
  | succ f =>
    rw [loop]
    split
    · rfl
    · have : acceptKeyword [kw] st = .ok none := by
        unfold acceptKeyword peekKeyword
        rw [findKeyword_single, h]; rfl
      rw [this]

def LookBehindOK (p : Option Char) : Prop :=
  p = none ∨ ∃ c, p = some c ∧ (isSpace c = true ∨ c = '(' ∨ c = ')')

theorem lookBehind_cond {c : Char} (h : isSpace c = true ∨ c = '(' ∨ c = ')') :
    (isSpace c || kwPrecede.contains [c]) = true := by
  rw [kwPrecede_eq]
  rcases h with h | h | h <;> simp [h]

theorem peekKeyword_hit (kws : List Str) (kw : Str) (p : Option Char) (rest : Str)
    (hf : findKeyword kws rest = some kw) (hp : LookBehindOK p) : peekKeyword kws ⟨p, rest⟩ = .ok (some kw) := by
  unfold peekKeyword
  simp only [hf]
  rcases hp with rfl | ⟨c, rfl, hc⟩
  · rfl
  · simp only [lookBehind_cond hc, if_true]

theorem acceptKeyword_hit (kw : Str) (p : Option Char) (rest' : Str) (hat : keywordAt kw (kw ++ rest') = true)
    (hp : LookBehindOK p) : acceptKeyword [kw] ⟨p, kw ++ rest'⟩ = .ok (some ⟨lastOr p kw, rest'⟩) := by
  unfold acceptKeyword
  rw [peekKeyword_hit [kw] kw p _ (by rw [findKeyword_single, hat]; rfl) hp]
  simp only [consume_append]

theorem lastOr_space (p : Option Char) (ws : Str) (hne : ws ≠ []) (hws : allSpace ws = true) :
    ∃ c, lastOr p ws = some c ∧ isSpace c = true := by
  rw [lastOr_ne_nil p ws hne]
  have := List.getLast?_eq_some_getLast hne
  refine ⟨ws.getLast hne, this, ?_⟩
  have hmem := List.getLast_mem hne
  simp [allSpace] at hws
  exact hws _ hmem

theorem noSpaceHead_cons (c : Char) (r : Str) (h : isSpace c = false) : NoSpaceHead (c :: r) := by
  intro c' r' e; simp at e; rw [← e.1]; exact h

theorem loop_step (kw : Str) (sub : St → Res) (mk : Expr → Expr → Expr) (f : Nat) (acc : Expr) (p : Option Char)
    (ws2 rest' : Str) (right : Expr) (st2 : St)
    (hkw : ∃ a t, kw = a :: t ∧ isSpace a = false) (hp : LookBehindOK p) (hws : allSpace ws2 = true) (hr : NoSpaceHead rest')
    (hsep : ws2 ≠ [] ∨ ∃ t, rest' = '(' :: t)
    (hs : sub ⟨lastOr (lastOr p kw) ws2, rest'⟩ = .ok (right, st2)) :
    loop kw sub mk (f + 1) acc ⟨p, kw ++ (ws2 ++ rest')⟩ = loop kw sub mk f (mk acc right) (skipWs st2) := by
  obtain ⟨a, t, hkw', ha⟩ := hkw
  have hat : keywordAt kw (kw ++ (ws2 ++ rest')) = true := by
    rw [keywordAt_self]
    right
    cases ws2 with
    | nil =>
      rcases hsep with h | ⟨t', ht'⟩
      · exact absurd rfl h
      · exact ⟨'(', t', by simpa using ht', Or.inl rfl⟩
    | cons w ws => exact ⟨w, ws ++ rest', rfl, Or.inr (by simp [allSpace] at hws; exact hws.1)⟩
  rw [loop]
  have hne : (kw ++ (ws2 ++ rest')).isEmpty = false := by rw [hkw']; rfl
  simp only [hne]
  rw [acceptKeyword_hit kw p _ hat hp]
  simp only [skipWs_append _ ws2 rest' hws hr, hs]
  rfl

/-! ### the round trip, level by level -/

def UStmt (c : Cst) : Prop :=
  ∀ (n : Nat) (p : Option Char) (k : Str), (render c ++ k).length < n → (startsNot c = true → PrevOK p) → FollowOK c k →
    KwOK c k →
    unary n ⟨p, render c ++ k⟩ = .ok (abstract c, ⟨(render c).getLast?, k⟩)

def AStmt (c : Cst) : Prop :=
  ∀ (n : Nat) (p : Option Char) (k : Str) (f : Nat), (render c ++ k).length < n → (startsNot c = true → PrevOK p) →
    FollowOK c k → KwOK c k → k.length < f →
    andLevel (unary n) ⟨p, render c ++ k⟩ =
      loop kwAnd (unary n) Expr.and f (abstract c) (skipWs ⟨(render c).getLast?, k⟩)

def OStmt (c : Cst) : Prop :=
  ∀ (n : Nat) (p : Option Char) (k : Str) (f : Nat), (render c ++ k).length < n → (startsNot c = true → PrevOK p) →
    FollowOK c k → KwOK c k → keywordAt kwAnd (dropWs k) = false → k.length < f →
    orLevel (unary n) ⟨p, render c ++ k⟩ =
      loop kwOr (andLevel (unary n)) Expr.or f (abstract c) (skipWs ⟨(render c).getLast?, k⟩)

theorem good_andLevel (n : Nat) : Good n (andLevel (unary n)) :=
  good_generic kwAnd kwAnd_ne _ _ n (good_unary n)

theorem skipWs_render (c : Cst) (hl : legal c = true) (p : Option Char) (k : Str) :
    skipWs ⟨p, render c ++ k⟩ = ⟨p, render c ++ k⟩ := by
  obtain ⟨d, r, h1, h2, _, _⟩ := render_cons c hl
  rw [h1]
  exact skipWs_nospace p _ (noSpaceHead_cons d _ h2)

theorem A_of_U (c : Cst) (hl : legal c = true) (hU : UStmt c) : AStmt c := by
  intro n p k f hn hp hfo hkw hf
  unfold andLevel generic
  rw [skipWs_render c hl, hU n p k hn hp hfo hkw]
  dsimp only
  have h1 := skipWs_length ⟨(render c).getLast?, k⟩
  simp only at h1
  exact loop_fuel' kwAnd kwAnd_ne _ _ n (good_unary n) _ _ _ _ (by simp at hn; omega) (by omega) (by omega)

/-- the `and` level stops where no `and` follows -/
theorem A_exit (c : Cst) (hA : AStmt c) (n : Nat) (p : Option Char) (k : Str) (hn : (render c ++ k).length < n)
    (hp : startsNot c = true → PrevOK p) (hfo : FollowOK c k) (hkw : KwOK c k)
    (hk : keywordAt kwAnd (dropWs k) = false) :
    andLevel (unary n) ⟨p, render c ++ k⟩ = .ok (abstract c, skipWs ⟨(render c).getLast?, k⟩) := by
  rw [hA n p k (k.length + 1) hn hp hfo hkw (Nat.lt_succ_self _)]
  exact loop_exit _ _ _ _ _ _ (Nat.succ_pos _) (by rw [skipWs_rest]; exact hk)

theorem O_of_A (c : Cst) (hl : legal c = true) (hA : AStmt c) : OStmt c := by
  intro n p k f hn hp hfo hkw hk hf
  unfold orLevel generic
  rw [skipWs_render c hl]
  rw [A_exit c hA n p k hn hp hfo hkw hk]
  dsimp only
  rw [skipWs_idem]
  have h1 := skipWs_length ⟨(render c).getLast?, k⟩
  simp only at h1
  exact loop_fuel' kwOr kwOr_ne _ _ n (good_andLevel n) _ _ _ _ (by simp at hn; omega) (by omega) (by omega)

theorem O_exit (c : Cst) (hO : OStmt c) (n : Nat) (p : Option Char) (k : Str) (hn : (render c ++ k).length < n)
    (hp : startsNot c = true → PrevOK p) (hfo : FollowOK c k) (hkw : KwOK c k)
    (hk : keywordAt kwAnd (dropWs k) = false)
    (hk' : keywordAt kwOr (dropWs k) = false) :
    orLevel (unary n) ⟨p, render c ++ k⟩ = .ok (abstract c, skipWs ⟨(render c).getLast?, k⟩) := by
  rw [hO n p k (k.length + 1) hn hp hfo hkw hk (Nat.lt_succ_self _)]
  exact loop_exit _ _ _ _ _ _ (Nat.succ_pos _) (by rw [skipWs_rest]; exact hk')

theorem unary_succ_nonparen (n : Nat) (p : Option Char) (d : Char) (r : Str) (hd : d ≠ '(') :
    unary (n + 1) ⟨p, d :: r⟩ = unaryRest (unary n) ⟨p, d :: r⟩ := by
  rw [unary]; simp [hd]

theorem unary_succ_paren (n : Nat) (p : Option Char) (r : Str) :
    unary (n + 1) ⟨p, '(' :: r⟩ = parenBody (orLevel (unary n)) r := by
  rw [unary]; simp

theorem U_atom (a : AtomSyn) (hl : legalAtom a = true) : UStmt (.atom a) := by
  intro n p k hn _ hfo hkw
  cases n with
  | zero => omega
  | succ n =>
    obtain ⟨d, r, hr, hd, _⟩ := renderAtom_cons a hl
    have hk : k = [] ∨ ∃ d k', k = d :: k' ∧ (isSpace d = true ∨ d = ')') := by
      rcases hfo with h | h
      · simp [endsParen] at h
      · exact h
    have hstop : a.patQ = .none → StopP k := by
      intro _
      rcases hk with h | ⟨d', k', h1, h2⟩
      · exact Or.inl h
      · refine Or.inr ⟨d', k', h1, (isStopPattern_iff d').2 ?_⟩
        rcases h2 with h2 | h2
        · exact Or.inl h2
        · exact Or.inr (Or.inr (Or.inr h2))
    have hne : renderAtom a ≠ [] := by rw [hr]; simp
    show unary (n + 1) ⟨p, renderAtom a ++ k⟩ = .ok (.atom a.atom, ⟨(renderAtom a).getLast?, k⟩)
    have e1 : renderAtom a ++ k = d :: (r ++ k) := by rw [hr]; rfl
    rw [e1, unary_succ_nonparen n p d _ hd, ← e1]
    unfold unaryRest peekKeyword
    simp only [findKeyword_renderAtom a hl k hk (by simpa [KwOK, endsKeyword] using hkw)]
    unfold simpleExpr
    simp only [simple_render a k hl hstop]
    have : (renderAtom a ++ k).length - k.length = (renderAtom a).length := by simp
    rw [this, consume_append, lastOr_ne_nil _ _ hne]

theorem findKeyword_not (rest : Str) (h : keywordAt kwNot (kwNot ++ rest) = true) :
    findKeyword keywords (kwNot ++ rest) = some kwNot := by
  rw [keywords_eq]
  have h1 : keywordAt kwAnd (kwNot ++ rest) = false := by simp [keywordAt, dropPrefix?, kwAnd, kwNot]
  simp [findKeyword, List.find?, h1, h]

theorem prevOK_lookBehind {p : Option Char} (h : PrevOK p) : LookBehindOK p := by
  rcases h with h | ⟨c, h1, h2⟩
  · exact Or.inl h
  · exact Or.inr ⟨c, h1, h2.imp id Or.inl⟩

theorem getLast?_append_ne (a b : Str) (hb : b ≠ []) : (a ++ b).getLast? = b.getLast? := by
  rw [List.getLast?_append]
  cases h : b.getLast? with
  | none => simp [List.getLast?_eq_none_iff] at h; exact absurd h hb
  | some c => rfl

theorem render_ne_nil (c : Cst) (hl : legal c = true) : render c ≠ [] := by
  obtain ⟨d, r, h, _⟩ := render_cons c hl
  rw [h]; simp

theorem U_not (ws : Str) (c : Cst) (hl : legal (.not ws c) = true) (hU : UStmt c) : UStmt (.not ws c) := by
  intro n p k hn hp hfo hkw
  simp only [legal, Bool.and_eq_true] at hl
  obtain ⟨⟨⟨hws, hsep⟩, hlev⟩, hlc⟩ := hl
  cases n with
  | zero => omega
  | succ n =>
    obtain ⟨d, r, hr, hd, hsp, hnsp⟩ := render_cons c hlc
    have hat : keywordAt kwNot (kwNot ++ (ws ++ (render c ++ k))) = true := by
      rw [keywordAt_self]
      right
      cases ws with
      | nil =>
        have : startsParen c = true := by simpa using hsep
        exact ⟨'(', r ++ k, by rw [hr, hsp this]; rfl, Or.inl rfl⟩
      | cons w ws' => exact ⟨w, ws' ++ (render c ++ k), rfl, Or.inr (by simp [allSpace] at hws; exact hws.1)⟩
    have hrender : render (.not ws c) ++ k = kwNot ++ (ws ++ (render c ++ k)) := by simp [render]
    have hlen : (render c ++ k).length < n := by
      rw [hrender] at hn; simp [kwNot] at hn ⊢; omega
    rw [hrender]
    have e1 : kwNot ++ (ws ++ (render c ++ k)) = 'n' :: (['o', 't'] ++ (ws ++ (render c ++ k))) := rfl
    rw [e1, unary_succ_nonparen n p 'n' _ (by decide), ← e1]
    unfold unaryRest
    rw [peekKeyword_hit keywords kwNot p _ (findKeyword_not _ hat) (prevOK_lookBehind (hp rfl))]
    simp only [if_true, consume_append]
    rw [skipWs_append _ ws (render c ++ k) hws (by rw [hr]; exact noSpaceHead_cons d _ hd)]
    have hp' : startsNot c = true → PrevOK (lastOr (lastOr p kwNot) ws) := by
      intro hsn
      cases ws with
      | nil =>
        have : startsParen c = true := by simpa using hsep
        rw [startsParen_not_startsNot c this] at hsn; cases hsn
      | cons w ws' =>
        obtain ⟨x, hx1, hx2⟩ := lastOr_space (lastOr p kwNot) (w :: ws') (by simp) hws
        exact Or.inr ⟨x, hx1, Or.inl hx2⟩
    have hfo' : FollowOK c k := by simpa [FollowOK, endsParen] using hfo
    rw [hU n _ k hlen hp' hfo' (by simpa [KwOK, endsKeyword] using hkw)]
    simp only [abstract]
    congr 2
    simp only [render]
    rw [← List.append_assoc, getLast?_append_ne _ _ (render_ne_nil c hlc)]

theorem generic_skipWs (kw : Str) (sub : St → Res) (mk : Expr → Expr → Expr) (st : St) :
    generic kw sub mk (skipWs st) = generic kw sub mk st := by
  unfold generic; rw [skipWs_idem]

theorem keywordAt_paren (kw : Str) (hkw : ∃ a t, kw = a :: t ∧ a ≠ ')') (k : Str) : keywordAt kw (')' :: k) = false := by
  obtain ⟨a, t, rfl, ha⟩ := hkw
  simp [keywordAt, dropPrefix?, ha]

theorem keywordAt_nil (kw : Str) (hkw : kw ≠ []) : keywordAt kw [] = false := by
  cases kw with
  | nil => exact absurd rfl hkw
  | cons a t => simp [keywordAt, dropPrefix?]

theorem U_paren (ws1 : Str) (c : Cst) (ws2 : Str) (hl : legal (.paren ws1 c ws2) = true) (hO : OStmt c) :
    UStmt (.paren ws1 c ws2) := by
  intro n p k hn _ _ _
  simp only [legal, Bool.and_eq_true] at hl
  obtain ⟨⟨⟨hws1, hws2⟩, hlc⟩, hnk⟩ := hl
  cases n with
  | zero => omega
  | succ n =>
    obtain ⟨d, r, hr, hd, _, _⟩ := render_cons c hlc
    have hrender : render (.paren ws1 c ws2) ++ k = '(' :: (ws1 ++ (render c ++ (ws2 ++ (')' :: k)))) := by
      simp [render]
    have hlen : (render c ++ (ws2 ++ (')' :: k))).length < n := by
      rw [hrender] at hn; simp at hn ⊢; omega
    rw [hrender, unary_succ_paren]
    unfold parenBody
    have hsk : skipWs ⟨some '(', ws1 ++ (render c ++ (ws2 ++ (')' :: k)))⟩ =
        ⟨lastOr (some '(') ws1, render c ++ (ws2 ++ (')' :: k))⟩ :=
      skipWs_append _ ws1 _ hws1 (by rw [hr]; exact noSpaceHead_cons d _ hd)
    have hor : orLevel (unary n) ⟨some '(', ws1 ++ (render c ++ (ws2 ++ (')' :: k)))⟩ =
        orLevel (unary n) ⟨lastOr (some '(') ws1, render c ++ (ws2 ++ (')' :: k))⟩ := by
      unfold orLevel
      rw [← generic_skipWs, hsk]
    have hp' : startsNot c = true → PrevOK (lastOr (some '(') ws1) := by
      intro _
      cases ws1 with
      | nil => exact Or.inr ⟨'(', rfl, Or.inr rfl⟩
      | cons w ws' =>
        obtain ⟨x, hx1, hx2⟩ := lastOr_space (some '(') (w :: ws') (by simp) hws1
        exact Or.inr ⟨x, hx1, Or.inl hx2⟩
    have hfo' : FollowOK c (ws2 ++ (')' :: k)) := by
      right; right
      cases ws2 with
      | nil => exact ⟨')', k, rfl, Or.inr rfl⟩
      | cons w ws' => exact ⟨w, ws' ++ (')' :: k), rfl, Or.inl (by simp [allSpace] at hws2; exact hws2.1)⟩
    have hdw : dropWs (ws2 ++ (')' :: k)) = ')' :: k :=
      dropWs_append ws2 _ hws2 (noSpaceHead_cons ')' k (by decide))
    have hkw' : KwOK c (ws2 ++ (')' :: k)) := by
      intro hek
      cases ws2 with
      | nil => exact ⟨k, rfl⟩
      | cons w ws' => simp [hek] at hnk
    rw [hor, O_exit c hO n _ _ hlen hp' hfo' hkw' (by rw [hdw]; exact keywordAt_paren kwAnd ⟨'a', _, rfl, by decide⟩ k)
      (by rw [hdw]; exact keywordAt_paren kwOr ⟨'o', _, rfl, by decide⟩ k)]
    rw [skipWs_append _ ws2 (')' :: k) hws2 (noSpaceHead_cons ')' k (by decide))]
    simp only [if_true, abstract]
    congr 2
    simp only [render]
    have : '(' :: (ws1 ++ (render c ++ (ws2 ++ [')']))) = ('(' :: (ws1 ++ (render c ++ ws2))) ++ [')'] := by simp
    rw [this, List.getLast?_append]; rfl

theorem lookBehind_after (l : Cst) (ws1 : Str) (hws1 : allSpace ws1 = true)
    (hsep : (!ws1.isEmpty || endsParen l) = true) : LookBehindOK (lastOr (render l).getLast? ws1) := by
  cases ws1 with
  | nil =>
    have : endsParen l = true := by simpa using hsep
    rw [lastOr_nil, render_getLast l this]
    exact Or.inr ⟨')', rfl, Or.inr (Or.inr rfl)⟩
  | cons w ws' =>
    obtain ⟨x, hx1, hx2⟩ := lastOr_space (render l).getLast? (w :: ws') (by simp) hws1
    exact Or.inr ⟨x, hx1, Or.inl hx2⟩

theorem followOK_inner (l : Cst) (ws1 rest : Str) (hws1 : allSpace ws1 = true)
    (hsep : (!ws1.isEmpty || endsParen l) = true) : FollowOK l (ws1 ++ rest) := by
  cases ws1 with
  | nil => exact Or.inl (by simpa using hsep)
  | cons w ws' => exact Or.inr (Or.inr ⟨w, ws' ++ rest, rfl, Or.inl (by simp [allSpace] at hws1; exact hws1.1)⟩)

theorem prevOK_operand (q : Option Char) (r : Cst) (ws2 : Str) (hws2 : allSpace ws2 = true)
    (hsep : (!ws2.isEmpty || startsParen r) = true) : startsNot r = true → PrevOK (lastOr q ws2) := by
  intro hsn
  cases ws2 with
  | nil =>
    have : startsParen r = true := by simpa using hsep
    rw [startsParen_not_startsNot r this] at hsn; cases hsn
  | cons w ws' =>
    obtain ⟨x, hx1, hx2⟩ := lastOr_space q (w :: ws') (by simp) hws2
    exact Or.inr ⟨x, hx1, Or.inl hx2⟩

theorem sep_operand (r : Cst) (hlr : legal r = true) (ws2 k : Str)
    (hsep : (!ws2.isEmpty || startsParen r) = true) : ws2 ≠ [] ∨ ∃ t, render r ++ k = '(' :: t := by
  cases ws2 with
  | nil =>
    have : startsParen r = true := by simpa using hsep
    obtain ⟨d, t, h1, _, h3, _⟩ := render_cons r hlr
    exact Or.inr ⟨t ++ k, by rw [h1, h3 this]; rfl⟩
  | cons w ws' => exact Or.inl (by simp)

theorem A_and (l : Cst) (ws1 ws2 : Str) (r : Cst) (hl : legal (.and l ws1 ws2 r) = true) (hA : AStmt l) (hU : UStmt r) :
    AStmt (.and l ws1 ws2 r) := by
  intro n p k f hn hp hfo hkw hf
  simp only [legal, Bool.and_eq_true] at hl
  obtain ⟨⟨⟨⟨⟨⟨⟨⟨hws1, hws2⟩, hsep1⟩, hsep2⟩, _⟩, _⟩, hll⟩, hlr⟩, hnk⟩ := hl
  have hkwl : ∀ k', KwOK l k' := fun k' h => by simp [h] at hnk
  obtain ⟨d, t, hr, hd, _, _⟩ := render_cons r hlr
  have hrender : render (.and l ws1 ws2 r) ++ k = render l ++ (ws1 ++ (kwAnd ++ (ws2 ++ (render r ++ k)))) := by
    simp [render]
  have hlast : (render (.and l ws1 ws2 r)).getLast? = (render r).getLast? := by
    simp only [render]
    rw [← List.append_assoc, ← List.append_assoc, ← List.append_assoc, getLast?_append_ne _ _ (render_ne_nil r hlr)]
  rw [hrender] at hn ⊢
  rw [hlast]
  have hlenr : (render r ++ k).length < n := by simp at hn ⊢; omega
  have hk' : (ws1 ++ (kwAnd ++ (ws2 ++ (render r ++ k)))).length = ws1.length + 3 + ws2.length + (render r ++ k).length := by
    simp [kwAnd]; omega
  rw [hA n p _ ((ws1 ++ (kwAnd ++ (ws2 ++ (render r ++ k)))).length + 1) hn (by simpa [startsNot] using hp)
    (followOK_inner l ws1 _ hws1 hsep1) (hkwl _) (Nat.lt_succ_self _)]
  rw [skipWs_append _ ws1 (kwAnd ++ (ws2 ++ (render r ++ k))) hws1 (noSpaceHead_cons 'a' _ (by decide))]
  have hs := hU n (lastOr (lastOr (lastOr (render l).getLast? ws1) kwAnd) ws2) k hlenr
    (prevOK_operand _ r ws2 hws2 hsep2) (by simpa [FollowOK, endsParen] using hfo)
    (by simpa [KwOK, endsKeyword] using hkw)
  rw [loop_step kwAnd (unary n) Expr.and _ (abstract l) _ ws2 (render r ++ k) (abstract r) _ ⟨'a', _, rfl, by decide⟩
    (lookBehind_after l ws1 hws1 hsep1) hws2 (by rw [hr]; exact noSpaceHead_cons d _ hd)
    (sep_operand r hlr ws2 k hsep2) hs]
  have h1 := skipWs_length ⟨(render r).getLast?, k⟩
  simp only at h1
  simp only [abstract]
  exact loop_fuel' kwAnd kwAnd_ne _ _ n (good_unary n) _ _ _ _ (by simp at hlenr; omega)
    (by rw [hk']; simp; omega) (by omega)

theorem keywordAt_and_or (rest : Str) : keywordAt kwAnd (kwOr ++ rest) = false := by
  simp [keywordAt, dropPrefix?, kwAnd, kwOr]

theorem O_or (l : Cst) (ws1 ws2 : Str) (r : Cst) (hl : legal (.or l ws1 ws2 r) = true) (hO : OStmt l) (hA : AStmt r) :
    OStmt (.or l ws1 ws2 r) := by
  intro n p k f hn hp hfo hkw hkand hf
  simp only [legal, Bool.and_eq_true] at hl
  obtain ⟨⟨⟨⟨⟨⟨⟨hws1, hws2⟩, hsep1⟩, hsep2⟩, _⟩, hll⟩, hlr⟩, hnk⟩ := hl
  have hkwl : ∀ k', KwOK l k' := fun k' h => by simp [h] at hnk
  obtain ⟨d, t, hr, hd, _, _⟩ := render_cons r hlr
  have hrender : render (.or l ws1 ws2 r) ++ k = render l ++ (ws1 ++ (kwOr ++ (ws2 ++ (render r ++ k)))) := by
    simp [render]
  have hlast : (render (.or l ws1 ws2 r)).getLast? = (render r).getLast? := by
    simp only [render]
    rw [← List.append_assoc, ← List.append_assoc, ← List.append_assoc, getLast?_append_ne _ _ (render_ne_nil r hlr)]
  rw [hrender] at hn ⊢
  rw [hlast]
  have hlenr : (render r ++ k).length < n := by simp at hn ⊢; omega
  have hk' : (ws1 ++ (kwOr ++ (ws2 ++ (render r ++ k)))).length = ws1.length + 2 + ws2.length + (render r ++ k).length := by
    simp [kwOr]; omega
  have hdw : dropWs (ws1 ++ (kwOr ++ (ws2 ++ (render r ++ k)))) = kwOr ++ (ws2 ++ (render r ++ k)) :=
    dropWs_append ws1 (kwOr ++ (ws2 ++ (render r ++ k))) hws1 (noSpaceHead_cons 'o' _ (by decide))
  rw [hO n p _ ((ws1 ++ (kwOr ++ (ws2 ++ (render r ++ k)))).length + 1) hn (by simpa [startsNot] using hp)
    (followOK_inner l ws1 _ hws1 hsep1) (hkwl _) (by rw [hdw]; exact keywordAt_and_or _) (Nat.lt_succ_self _)]
  rw [skipWs_append _ ws1 (kwOr ++ (ws2 ++ (render r ++ k))) hws1 (noSpaceHead_cons 'o' _ (by decide))]
  have hs := A_exit r hA n (lastOr (lastOr (lastOr (render l).getLast? ws1) kwOr) ws2) k hlenr
    (prevOK_operand _ r ws2 hws2 hsep2) (by simpa [FollowOK, endsParen] using hfo)
    (by simpa [KwOK, endsKeyword] using hkw) hkand
  rw [loop_step kwOr (andLevel (unary n)) Expr.or _ (abstract l) _ ws2 (render r ++ k) (abstract r) _ ⟨'o', _, rfl, by decide⟩
    (lookBehind_after l ws1 hws1 hsep1) hws2 (by rw [hr]; exact noSpaceHead_cons d _ hd)
    (sep_operand r hlr ws2 k hsep2) hs]
  rw [skipWs_idem]
  have h1 := skipWs_length ⟨(render r).getLast?, k⟩
  simp only at h1
  simp only [abstract]
  exact loop_fuel' kwOr kwOr_ne _ _ n (good_andLevel n) _ _ _ _ (by simp at hlenr; omega)
    (by rw [hk']; simp; omega) (by omega)

/-- all three levels for every legal concrete syntax tree -/
theorem levels (c : Cst) (hl : legal c = true) :
    (level c = 3 → UStmt c) ∧ (2 ≤ level c → AStmt c) ∧ OStmt c := by
  induction c with
  | atom a =>
    have hU := U_atom a (by simpa [legal] using hl)
    have hA := A_of_U _ hl hU
    exact ⟨fun _ => hU, fun _ => hA, O_of_A _ hl hA⟩
  | not ws c ih =>
    have hl' := hl
    simp only [legal, Bool.and_eq_true] at hl'
    have hU := U_not ws c hl ((ih hl'.2).1 (by simpa using hl'.1.2))
    have hA := A_of_U _ hl hU
    exact ⟨fun _ => hU, fun _ => hA, O_of_A _ hl hA⟩
  | paren ws1 c ws2 ih =>
    have hl' := hl
    simp only [legal, Bool.and_eq_true] at hl'
    have hU := U_paren ws1 c ws2 hl (ih hl'.1.2).2.2
    have hA := A_of_U _ hl hU
    exact ⟨fun _ => hU, fun _ => hA, O_of_A _ hl hA⟩
  | and l ws1 ws2 r ihl ihr =>
    have hl' := hl
    simp only [legal, Bool.and_eq_true] at hl'
    obtain ⟨⟨⟨⟨⟨_, hlevl⟩, hlevr⟩, hll⟩, hlr⟩, _⟩ := hl'
    have hA := A_and l ws1 ws2 r hl ((ihl hll).2.1 (by simpa using hlevl)) ((ihr hlr).1 (by simpa using hlevr))
    exact ⟨fun h => by simp [level] at h, fun _ => hA, O_of_A _ hl hA⟩
  | or l ws1 ws2 r ihl ihr =>
    have hl' := hl
    simp only [legal, Bool.and_eq_true] at hl'
    obtain ⟨⟨⟨⟨_, hlevr⟩, hll⟩, hlr⟩, _⟩ := hl'
    have hO := O_or l ws1 ws2 r hl (ihl hll).2.2 ((ihr hlr).2.1 (by simpa using hlevr))
    exact ⟨fun h => by simp [level] at h, fun h => by simp [level] at h, hO⟩

/-- every legal rendering parses to the tree it was printed from -/
theorem parse_renderTop (lead : Str) (c : Cst) (trail : Str) (hl : legalTop lead c trail = true) :
    parse (renderTop lead c trail) = .ok (abstract c) := by
  simp only [legalTop, Bool.and_eq_true] at hl
  obtain ⟨⟨⟨hlead, htrail⟩, hlc⟩, hnk⟩ := hl
  obtain ⟨d, r, hr, hd, _, _⟩ := render_cons c hlc
  have hkw : KwOK c trail := fun h => by simp [h] at hnk
  unfold parse renderTop
  have hsk : skipWs ⟨none, lead ++ (render c ++ trail)⟩ = ⟨lastOr none lead, render c ++ trail⟩ :=
    skipWs_append _ lead _ hlead (by rw [hr]; exact noSpaceHead_cons d _ hd)
  have hp : startsNot c = true → PrevOK (lastOr none lead) := by
    intro _
    cases lead with
    | nil => exact Or.inl rfl
    | cons w ws' =>
      obtain ⟨x, hx1, hx2⟩ := lastOr_space none (w :: ws') (by simp) hlead
      exact Or.inr ⟨x, hx1, Or.inl hx2⟩
  have hfo : FollowOK c trail := by
    cases trail with
    | nil => exact Or.inr (Or.inl rfl)
    | cons w ws' => exact Or.inr (Or.inr ⟨w, ws', rfl, Or.inl (by simp [allSpace] at htrail; exact htrail.1)⟩)
  have hdw : dropWs trail = [] := by simpa using dropWs_append trail [] htrail (fun _ _ h => by cases h)
  have hor : orLevel (unary ((lead ++ (render c ++ trail)).length + 1)) ⟨none, lead ++ (render c ++ trail)⟩ =
      orLevel (unary ((lead ++ (render c ++ trail)).length + 1)) ⟨lastOr none lead, render c ++ trail⟩ := by
    unfold orLevel
    rw [← generic_skipWs, hsk]
  rw [hor, O_exit c (levels c hlc).2.2 _ _ trail (by simp; omega) hp hfo hkw
    (by rw [hdw]; exact keywordAt_nil _ kwAnd_ne) (by rw [hdw]; exact keywordAt_nil _ kwOr_ne)]
  have : (skipWs ⟨(render c).getLast?, trail⟩).rest = [] := by rw [skipWs_rest, hdw]
  simp [this]

end Vinegar.Matcher
