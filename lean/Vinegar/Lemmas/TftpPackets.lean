import Vinegar.Spec.Tftp
/-
Facts about the generated protocol constants and the packet encoders that the
trace proofs need. The `*_val` lemmas are the proof obligations that break when the
corresponding constant in vinegar/tftp/protocol.py changes.
-/
namespace Vinegar.Tftp
open Vinegar

theorem opRRQ_val : opRRQ = 1 := by decide
theorem opWRQ_val : opWRQ = 2 := by decide
theorem opDATA_val : opDATA = 3 := by decide
theorem opACK_val : opACK = 4 := by decide
theorem opERROR_val : opERROR = 5 := by decide
theorem opOACK_val : opOACK = 6 := by decide
theorem maxBlockNumber_val : Generated.MAX_BLOCK_NUMBER = 65535 := by decide
theorem minBlockSize_pos : 0 < Generated.MIN_BLOCK_SIZE := by decide
theorem minBlockSize_le_default : Generated.MIN_BLOCK_SIZE ≤ Generated.DEFAULT_BLOCK_SIZE := by decide
theorem default_le_maxBlockSize : Generated.DEFAULT_BLOCK_SIZE ≤ Generated.MAX_BLOCK_SIZE := by decide
/-- a DATA packet of maximal size still fits a UDP datagram -/
theorem maxBlockSize_fits_udp : Generated.MAX_BLOCK_SIZE + 4 ≤ 65507 := by decide
theorem regexp_positive_int : Generated.REGEXP_POSITIVE_INT = "[1-9][0-9]*" := by decide
theorem netascii_cr_lf : Generated.NETASCII_CR = CR.toNat ∧ Generated.NETASCII_LF = LF.toNat := by decide
theorem option_names : Generated.OPTION_BLOCK_SIZE = "blksize" ∧ Generated.OPTION_TIMEOUT = "timeout"
    ∧ Generated.OPTION_TRANSFER_SIZE = "tsize" := by decide
theorem mode_names : Generated.MODE_NETASCII = "netascii" ∧ Generated.MODE_OCTET = "octet"
    ∧ Generated.MODE_MAIL = "mail" := by decide
theorem opcode_count : Generated.OPCODE_COUNT = 6 := by decide
theorem error_codes : Generated.ERROR_NOT_DEFINED = 0 ∧ Generated.ERROR_FILE_NOT_FOUND = 1 ∧
    Generated.ERROR_ACCESS_VIOLATION = 2 ∧ Generated.ERROR_ILLEGAL_OPERATION = 4 ∧
    Generated.ERROR_UNKNOWN_TRANSFER_ID = 5 ∧ Generated.ERROR_TRANSFER_ABORTED = 8 ∧
    Generated.ERROR_COUNT = 9 := by decide

theorem opcodeOf_be16 (n : Nat) (h : n < 65536) (rest : Bytes) : opcodeOf (be16 n ++ rest) = some n := by
  simp only [be16, List.cons_append, List.nil_append, opcodeOf, unbe16_be16 n h]

theorem opcodeOf_dataPacket (n : Nat) (b : Bytes) : opcodeOf (dataPacket n b) = some opDATA := by
  unfold dataPacket; rw [List.append_assoc]; exact opcodeOf_be16 _ (by decide) _

theorem opcodeOf_oackPacket (o : Opts) : opcodeOf (oackPacket o) = some opOACK := by
  unfold oackPacket; exact opcodeOf_be16 _ (by decide) _

theorem opcodeOf_errorPacket (c : Nat) (m : Bytes) : opcodeOf (errorPacket c m) = some opERROR := by
  unfold errorPacket; rw [List.append_assoc, List.append_assoc]; exact opcodeOf_be16 _ (by decide) _

theorem isFlow_dataPacket (n : Nat) (b : Bytes) : isFlow (dataPacket n b) = true := by
  simp [isFlow, opcodeOf_dataPacket]

theorem isFlow_oackPacket (o : Opts) : isFlow (oackPacket o) = true := by
  simp [isFlow, opcodeOf_oackPacket]

theorem isFlow_errorPacket (c : Nat) (m : Bytes) : isFlow (errorPacket c m) = false := by
  simp [isFlow, opcodeOf_errorPacket, opERROR_val, opDATA_val, opOACK_val]

theorem expectOf_dataPacket (n : Nat) (h : n < 65536) (b : Bytes) : expectOf (dataPacket n b) = some n := by
  simp only [dataPacket, be16, List.cons_append, List.nil_append, expectOf]
  rw [unbe16_be16 opDATA (by decide), unbe16_be16 n h]
  simp [opDATA_val, opOACK_val]

theorem expectOf_oackPacket (o : Opts) : expectOf (oackPacket o) = some 0 := by
  simp only [oackPacket, be16, List.cons_append, List.nil_append, expectOf]
  rw [unbe16_be16 opOACK (by decide)]
  simp

theorem dataPacket_ne_oackPacket (n : Nat) (b : Bytes) (o : Opts) : dataPacket n b ≠ oackPacket o := by
  intro h
  have h1 := opcodeOf_dataPacket n b
  rw [h, opcodeOf_oackPacket] at h1
  simp [opDATA_val, opOACK_val] at h1

theorem be16_inj (a b : Nat) (ha : a < 65536) (hb : b < 65536) (h : be16 a = be16 b) : a = b := by
  have h1 := unbe16_be16 a ha
  have h2 := unbe16_be16 b hb
  simp only [be16, List.cons.injEq, and_true] at h
  rw [h.1, h.2] at h1
  omega

theorem dataPacket_inj_number (n m : Nat) (b c : Bytes) (hn : n < 65536) (hm : m < 65536)
    (h : dataPacket n b = dataPacket m c) : n = m := by
  have h1 := expectOf_dataPacket n hn b
  rw [h, expectOf_dataPacket m hm c] at h1
  simpa using h1.symm

end Vinegar.Tftp
