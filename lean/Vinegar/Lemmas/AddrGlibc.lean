import Vinegar.Lemmas.Addr
/-
C16 — the port of glibc's `inet_pton6` / `inet_ntop6` (`Vinegar.Addr.Glibc`, the instance the
driver runs) satisfies `InetLaw`:

  * `pton6 (ntop6 b) = some b` for EVERY 16-byte `b` (structural: hexadecimal groups, the
    zero run chosen by `bestRun`, the `::` re-expansion, the embedded IPv4 forms),
  * `pton6 s = some b → b.length = 16`,
  * `pton6 s = some b → ':' ∈ s ∧ '/' ∉ s`.
-/
namespace Vinegar.Addr.Glibc
open Vinegar Vinegar.Addr

/-! ### hexadecimal groups: `"%x"` and the digit loop of `inet_pton6` -/

theorem isHex_digitChar : ∀ k, k < 16 → isHex (Nat.digitChar k) = true := by decide
theorem hexVal_digitChar : ∀ k, k < 16 → hexVal (Nat.digitChar k) = k := by decide

/-- the value accumulated by the digit loop, starting from `v` -/
def hexFold (v : Nat) (ds : Str) : Nat := ds.foldl (fun acc c => acc * 16 + hexVal c) v

@[simp] theorem hexFold_nil (v : Nat) : hexFold v [] = v := rfl
@[simp] theorem hexFold_cons (v : Nat) (c : Char) (ds : Str) :
    hexFold v (c :: ds) = hexFold (v * 16 + hexVal c) ds := rfl
theorem hexFold_append (v : Nat) (a b : Str) : hexFold v (a ++ b) = hexFold (hexFold v a) b := by
  simp [hexFold]

theorem hexFold_ge (ds : Str) : ∀ v, v ≤ hexFold v ds := by
  induction ds with
  | nil => intro v; simp
  | cons c ds ih =>
    intro v
    have := ih (v * 16 + hexVal c)
    simp only [hexFold_cons]; omega

theorem hexFold_lt (ds : Str) (h : ∀ c ∈ ds, isHex c = true) : ∀ v, hexFold v ds < (v + 1) * 16 ^ ds.length := by
  induction ds with
  | nil => intro v; simp
  | cons c ds ih =>
    intro v
    have hc := hexVal_lt (h c (by simp))
    have := ih (fun c hc => h c (by simp [hc])) (v * 16 + hexVal c)
    simp only [hexFold_cons, List.length_cons, Nat.pow_succ]
    calc hexFold (v * 16 + hexVal c) ds < (v * 16 + hexVal c + 1) * 16 ^ ds.length := this
      _ ≤ ((v + 1) * 16) * 16 ^ ds.length := Nat.mul_le_mul_right _ (by omega)
      _ = (v + 1) * (16 ^ ds.length * 16) := by rw [Nat.mul_assoc, Nat.mul_comm 16]

theorem hexStr_ne_nil (w : Nat) : hexStr w ≠ [] := Nat.toDigits_ne_nil

theorem isHex_of_mem_hexStr (w : Nat) : ∀ c ∈ hexStr w, isHex c = true := by
  unfold hexStr
  induction w using Nat.base_induction 16 (by decide) with
  | single m hm =>
    intro c hc
    rw [Nat.toDigits_of_lt_base hm] at hc
    simp only [List.mem_singleton] at hc
    subst hc; exact isHex_digitChar m hm
  | digit m k hk hm ih =>
    intro c hc
    rw [← Nat.toDigits_append_toDigits (by decide) hm hk, Nat.toDigits_of_lt_base hk] at hc
    simp only [List.mem_append, List.mem_singleton] at hc
    rcases hc with hc | hc
    · exact ih c hc
    · subst hc; exact isHex_digitChar k hk

theorem hexFold_hexStr (w : Nat) : hexFold 0 (hexStr w) = w := by
  unfold hexStr
  induction w using Nat.base_induction 16 (by decide) with
  | single m hm =>
    rw [Nat.toDigits_of_lt_base hm]
    simp [hexVal_digitChar m hm]
  | digit m k hk hm ih =>
    rw [← Nat.toDigits_append_toDigits (by decide) hm hk, hexFold_append, ih, Nat.toDigits_of_lt_base hk]
    simp [hexVal_digitChar k hk]; omega

theorem hexStr_len {w : Nat} (h : w < 65536) : (hexStr w).length ≤ 4 :=
  (Nat.length_toDigits_le_iff (by decide) (by decide)).mpr h

theorem isHex_colon : isHex ':' = false := by decide
theorem isHex_dot : isHex '.' = false := by decide
theorem isHex_slash : isHex '/' = false := by decide

theorem hexStr_head (w : Nat) : ∃ c cs, hexStr w = c :: cs ∧ c ≠ ':' := by
  cases h : hexStr w with
  | nil => exact absurd h (hexStr_ne_nil w)
  | cons c cs =>
    refine ⟨c, cs, rfl, ?_⟩
    intro e
    have := isHex_of_mem_hexStr w c (by simp [h])
    rw [e, isHex_colon] at this
    cases this

/-! ### sixteen bytes ↔ eight 16-bit words -/

/-- the two bytes `inet_pton6` stores for one group -/
def bytes2 (w : Nat) : List UInt8 := [UInt8.ofNat (w >>> 8 &&& 255), UInt8.ofNat (w &&& 255)]

def bytesOf : List Nat → List UInt8
  | [] => []
  | w :: r => bytes2 w ++ bytesOf r

theorem bytes2_word (a b : UInt8) : bytes2 (a.toNat * 256 + b.toNat) = [a, b] := by
  have ha := a.toNat_lt
  have hb := b.toNat_lt
  unfold bytes2
  rw [and255, and255, Nat.shiftRight_eq_div_pow]
  have h1 : (a.toNat * 256 + b.toNat) / 2 ^ 8 % 256 = a.toNat := by omega
  have h2 : (a.toNat * 256 + b.toNat) % 256 = b.toNat := by omega
  rw [h1, h2, UInt8.ofNat_toNat, UInt8.ofNat_toNat]

theorem bytesOf_words : ∀ (b : List UInt8), b.length % 2 = 0 → bytesOf (words b) = b
  | [], _ => rfl
  | [_], h => by simp at h
  | x :: y :: r, h => by
    have ih := bytesOf_words r (by simp at h ⊢; omega)
    simp [words, bytesOf, bytes2_word, ih]

theorem words_lt : ∀ (b : List UInt8), ∀ w ∈ words b, w < 65536
  | [], w, h => by simp [words] at h
  | [_], w, h => by simp [words] at h
  | x :: y :: r, w, h => by
    have hx := x.toNat_lt
    have hy := y.toNat_lt
    simp only [words, List.mem_cons] at h
    rcases h with h | h
    · omega
    · exact words_lt r w h

theorem words_length : ∀ (b : List UInt8), (words b).length = b.length / 2
  | [] => rfl
  | [_] => by simp [words]
  | x :: y :: r => by
    have := words_length r
    simp only [words, List.length_cons, this]; omega

theorem bytesOf_length : ∀ (ws : List Nat), (bytesOf ws).length = 2 * ws.length
  | [] => rfl
  | w :: r => by simp [bytesOf, bytes2, bytesOf_length r]; omega

theorem bytesOf_append (a b : List Nat) : bytesOf (a ++ b) = bytesOf a ++ bytesOf b := by
  induction a with
  | nil => rfl
  | cons w r ih => simp [bytesOf, ih]

theorem bytesOf_replicate_zero (n : Nat) : bytesOf (List.replicate n 0) = List.replicate (2 * n) 0 := by
  induction n with
  | zero => rfl
  | succ n ih =>
    rw [List.replicate_succ, bytesOf, ih, show 2 * (n + 1) = 2 * n + 1 + 1 by omega,
      List.replicate_succ, List.replicate_succ]
    rfl

/-! ### the main loop of `inet_pton6` on printed groups -/

theorem loop_nil (st : St) : loop [] st = some st := by simp [loop]

/-- hexadecimal digits of one group are accumulated -/
theorem loop_hex (rest : Str) (o : List UInt8) (cp : Option Nat) (ct : Str) :
    ∀ (ds : Str) (xd v : Nat), (∀ c ∈ ds, isHex c = true) → xd + ds.length ≤ 4 → hexFold v ds ≤ 0xffff →
      loop (ds ++ rest) ⟨o, cp, ct, xd, v⟩ = loop rest ⟨o, cp, ct, xd + ds.length, hexFold v ds⟩ := by
  intro ds
  induction ds with
  | nil => intro xd v _ _ _; simp
  | cons c ds ih =>
    intro xd v hh hl hv
    have hc : isHex c = true := hh c (by simp)
    have hge := hexFold_ge ds (v * 16 + hexVal c)
    simp only [List.length_cons] at hl
    simp only [hexFold_cons] at hv
    have h4 : xd ≠ 4 := by omega
    have hv' : ¬ (v * 16 + hexVal c > 0xffff) := by omega
    rw [List.cons_append, loop]
    simp only [hc, if_true, h4, if_false, hv']
    rw [ih (xd + 1) (v * 16 + hexVal c) (fun c hc => hh c (by simp [hc])) (by omega) hv]
    simp only [hexFold_cons, List.length_cons]
    congr 2; omega

/-- one group followed by a colon and more text -/
theorem loop_group (w : Nat) (hw : w < 65536) (rest : Str) (hr : rest ≠ []) (o : List UInt8) (ho : o.length + 2 ≤ 16)
    (cp : Option Nat) (ct : Str) :
    loop (hexStr w ++ ':' :: rest) ⟨o, cp, ct, 0, 0⟩ = loop rest ⟨o ++ bytes2 w, cp, rest, 0, 0⟩ := by
  have hl := hexStr_len hw
  rw [loop_hex _ o cp ct (hexStr w) 0 0 (isHex_of_mem_hexStr w) (by omega) (by rw [hexFold_hexStr]; omega),
    hexFold_hexStr, loop]
  have hne : 0 + (hexStr w).length ≠ 0 := by
    have := List.length_pos_iff.mpr (hexStr_ne_nil w); omega
  have ho' : ¬ (o.length + 2 > 16) := by omega
  simp only [isHex_colon, Bool.false_eq_true, if_false, if_true, hne, hr, ho', push]
  rfl

/-- the last group of the text -/
theorem loop_last (w : Nat) (hw : w < 65536) (o : List UInt8) (cp : Option Nat) (ct : Str) :
    loop (hexStr w) ⟨o, cp, ct, 0, 0⟩ = some ⟨o, cp, ct, (hexStr w).length, w⟩ := by
  have hl := hexStr_len hw
  have := loop_hex [] o cp ct (hexStr w) 0 0 (isHex_of_mem_hexStr w) (by omega) (by rw [hexFold_hexStr]; omega)
  rw [List.append_nil, hexFold_hexStr, loop_nil] at this
  simpa using this

/-- `h:h:…:` — every group followed by a colon -/
def colonAfter : List Nat → Str
  | [] => []
  | w :: r => hexStr w ++ ':' :: colonAfter r

/-- `:h:h…` — every group preceded by a colon -/
def colonBefore : List Nat → Str
  | [] => []
  | w :: r => ':' :: (hexStr w ++ colonBefore r)

theorem colon_shift : ∀ (r : List Nat) (w : Nat), hexStr w ++ colonBefore r ++ [':'] = colonAfter (w :: r)
  | [], w => by simp [colonBefore, colonAfter]
  | x :: r, w => by
    have ih := colon_shift r x
    simp only [colonAfter] at ih
    simp only [colonBefore, colonAfter, List.append_assoc, List.cons_append]
    rw [← ih]; simp

theorem loop_groups (rest : Str) (hr : rest ≠ []) (cp : Option Nat) :
    ∀ (gs : List Nat) (o : List UInt8), (∀ g ∈ gs, g < 65536) → o.length + 2 * gs.length ≤ 16 →
      loop (colonAfter gs ++ rest) ⟨o, cp, colonAfter gs ++ rest, 0, 0⟩ = loop rest ⟨o ++ bytesOf gs, cp, rest, 0, 0⟩ := by
  intro gs
  induction gs with
  | nil => intro o _ _; simp [colonAfter, bytesOf]
  | cons g gs ih =>
    intro o hg ho
    simp only [List.length_cons] at ho
    simp only [colonAfter, List.append_assoc, List.cons_append]
    rw [loop_group g (hg g (by simp)) (colonAfter gs ++ rest) (by simp [hr]) o (by omega),
      ih (o ++ bytes2 g) (fun x hx => hg x (by simp [hx])) (by simp [bytes2]; omega)]
    simp [bytesOf]

/-! ### `finish`: the pending group and the `::` expansion -/

/-- what `inet_pton6` returns after the loop once a pending group has been stored -/
def fin (o : List UInt8) (cp : Option Nat) : Option (List UInt8) :=
  match cp with
  | some k => if o.length = 16 then none else some (o.take k ++ List.replicate (16 - o.length) 0 ++ o.drop k)
  | none => if o.length = 16 then some o else none

theorem finish_zero (o : List UInt8) (cp : Option Nat) (ct : Str) (v : Nat) : finish ⟨o, cp, ct, 0, v⟩ = fin o cp := by
  unfold finish fin
  cases cp <;> simp

theorem finish_pending (o : List UInt8) (cp : Option Nat) (ct : Str) (xd v : Nat) (hx : 0 < xd) (ho : o.length + 2 ≤ 16) :
    finish ⟨o, cp, ct, xd, v⟩ = fin (o ++ bytes2 v) cp := by
  have ho' : ¬ (o.length + 2 > 16) := by omega
  unfold finish fin
  simp only [hx, if_true, ho', if_false, push]
  cases cp <;> rfl

/-- `h:h:…:h` to the end of the text -/
theorem parse_tail (cp : Option Nat) :
    ∀ (qs : List Nat) (q : Nat) (o : List UInt8), q < 65536 → (∀ x ∈ qs, x < 65536) → o.length + 2 * (qs.length + 1) ≤ 16 →
      (loop (hexStr q ++ colonBefore qs) ⟨o, cp, hexStr q ++ colonBefore qs, 0, 0⟩).bind finish
        = fin (o ++ bytesOf (q :: qs)) cp := by
  intro qs
  induction qs with
  | nil =>
    intro q o hq _ ho
    have hpos := List.length_pos_iff.mpr (hexStr_ne_nil q)
    simp only [colonBefore, List.append_nil, loop_last q hq, Option.bind_some]
    rw [finish_pending _ _ _ _ _ hpos (by simp at ho; omega)]
    simp [bytesOf]
  | cons x qs ih =>
    intro q o hq hx ho
    simp only [List.length_cons] at ho
    simp only [colonBefore]
    have hne : hexStr x ++ colonBefore qs ≠ [] := by simp [hexStr_ne_nil]
    rw [loop_group q hq _ hne o (by omega), ih x (o ++ bytes2 q) (hx x (by simp)) (fun y hy => hx y (by simp [hy]))
      (by simp [bytes2]; omega)]
    simp [bytesOf]

/-- the text after a `::`: nothing, or `h:h:…:h` -/
def tailStr : List Nat → Str
  | [] => []
  | q :: qs => hexStr q ++ colonBefore qs

theorem colonBefore_trailing (post : List Nat) :
    colonBefore post ++ (if post = [] then [':'] else []) = ':' :: tailStr post := by
  cases post <;> simp [colonBefore, tailStr]

/-- from a token boundary: the second colon of `::`, then the remaining groups -/
theorem parse_dc (post : List Nat) (hp : ∀ x ∈ post, x < 65536) (o : List UInt8) (ho : o.length + 2 * post.length < 16) :
    (loop (':' :: tailStr post) ⟨o, none, ':' :: tailStr post, 0, 0⟩).bind finish
      = some (o ++ List.replicate (16 - (o.length + 2 * post.length)) 0 ++ bytesOf post) := by
  rw [loop]
  simp only [isHex_colon, Bool.false_eq_true, if_false, if_true]
  cases post with
  | nil =>
    simp only [tailStr, loop_nil, Option.bind_some, finish_zero, fin]
    simp at ho
    have : o.length ≠ 16 := by omega
    simp [this, bytesOf]
  | cons q qs =>
    simp only [List.length_cons] at ho
    simp only [tailStr]
    rw [parse_tail _ qs q o (hp q (by simp)) (fun y hy => hp y (by simp [hy])) (by omega)]
    have hl := bytesOf_length (q :: qs)
    simp only [List.length_cons] at hl
    simp [fin, hl]
    omega

/-! ### the zero run chosen by `inet_ntop6` -/

/-- `ws` has `p.2` zero words from position `p.1` on -/
def ZeroRun (ws : List Nat) (p : Nat × Nat) : Prop :=
  ∃ pre post, ws = pre ++ List.replicate p.2 0 ++ post ∧ pre.length = p.1

theorem better_good {ws : List Nat} {cur best : Option (Nat × Nat)}
    (hc : ∀ p, cur = some p → ZeroRun ws p) (hb : ∀ p, best = some p → ZeroRun ws p) :
    ∀ p, better cur best = some p → ZeroRun ws p := by
  intro p h
  unfold better at h
  split at h
  · cases h; exact hc _ rfl
  · split at h
    · cases h; exact hc _ rfl
    · cases h; exact hb _ rfl
  · exact hb p h

theorem scanRuns_good (ws : List Nat) :
    ∀ (l : List Nat) (i : Nat) (pfx : List Nat) (cur best : Option (Nat × Nat)),
      ws = pfx ++ l → pfx.length = i →
      (∀ p, cur = some p → ∃ pre, pfx = pre ++ List.replicate p.2 0 ∧ pre.length = p.1) →
      (∀ p, best = some p → ZeroRun ws p) →
      ∀ p, scanRuns i l cur best = some p → ZeroRun ws p := by
  intro l
  induction l with
  | nil =>
    intro i pfx cur best hws hi hc hb p h
    simp only [scanRuns] at h
    refine better_good ?_ hb p h
    intro c hcc
    obtain ⟨pre, hp, hl⟩ := hc c hcc
    exact ⟨pre, [], by simp [hws, hp], hl⟩
  | cons w r ih =>
    intro i pfx cur best hws hi hc hb p h
    simp only [scanRuns] at h
    have hws' : ws = (pfx ++ [w]) ++ r := by simp [hws]
    have hi' : (pfx ++ [w]).length = i + 1 := by simp [hi]
    have hcur : ∀ c, cur = some c → ZeroRun ws c := by
      intro c hcc
      obtain ⟨pre, hp, hl⟩ := hc c hcc
      exact ⟨pre, w :: r, by simp [hws, hp], hl⟩
    split at h
    · rename_i hw
      subst hw
      split at h
      · refine ih (i + 1) (pfx ++ [0]) _ best hws' hi' ?_ hb p h
        intro c hcc; cases hcc
        exact ⟨pfx, by simp, hi⟩
      · rename_i c
        refine ih (i + 1) (pfx ++ [0]) _ best hws' hi' ?_ hb p h
        intro c' hcc; cases hcc
        obtain ⟨pre, hp, hl⟩ := hc c rfl
        exact ⟨pre, by simp [hp, List.replicate_succ'], hl⟩
    · exact ih (i + 1) (pfx ++ [w]) none (better cur best) hws' hi' (by intro c hcc; cases hcc)
        (better_good hcur hb) p h

theorem bestRun_spec {ws : List Nat} {bb bl : Nat} (h : bestRun ws = some (bb, bl)) :
    ZeroRun ws (bb, bl) ∧ 2 ≤ bl := by
  unfold bestRun at h
  split at h
  · rename_i b l hs
    split at h
    · cases h
    · cases h
      exact ⟨scanRuns_good ws ws 0 [] none none rfl rfl (by intro p hp; cases hp) (by intro p hp; cases hp) _ hs,
        by omega⟩
  · cases h

/-! ### what `inet_ntop6` prints -/

theorem go_none (b : List UInt8) (ws : List Nat) :
    ∀ (l : List Nat) (i : Nat), i ≠ 0 → ntopGo b ws none i l = colonBefore l := by
  intro l
  induction l with
  | nil => intro i _; simp [ntopGo, colonBefore]
  | cons w r ih =>
    intro i hi
    rw [ntopGo]
    simp [hi, ih (i + 1) (by omega), colonBefore]

section run
variable (b : List UInt8) (ws : List Nat) (bb bl : Nat) (hv : v4Embedded ws bb bl = false)
include hv

theorem go_after : ∀ (l : List Nat) (i : Nat), bb + bl ≤ i → i ≠ 0 →
    ntopGo b ws (some (bb, bl)) i l = colonBefore l := by
  intro l
  induction l with
  | nil => intro i _ _; simp [ntopGo, colonBefore]
  | cons w r ih =>
    intro i h1 hi
    have hn : ¬ (bb ≤ i ∧ i < bb + bl) := by omega
    rw [ntopGo]
    simp [hn, hi, hv, ih (i + 1) (by omega) (by omega), colonBefore]

theorem go_in (post : List Nat) : ∀ (zs : List Nat) (i : Nat), bb < i → i + zs.length = bb + bl →
    ntopGo b ws (some (bb, bl)) i (zs ++ post) = colonBefore post := by
  intro zs
  induction zs with
  | nil => intro i h1 h2; simp at h2; exact go_after b ws bb bl hv post i (by omega) (by omega)
  | cons z zs ih =>
    intro i h1 h2
    simp only [List.length_cons] at h2
    have hn : bb ≤ i ∧ i < bb + bl := by omega
    have hne : i ≠ bb := by omega
    rw [List.cons_append, ntopGo]
    simp [hn, hne, ih (i + 1) (by omega) (by omega)]

theorem go_at (post : List Nat) (z : Nat) (zs : List Nat) (hl : zs.length + 1 = bl) :
    ntopGo b ws (some (bb, bl)) bb (z :: (zs ++ post)) = ':' :: colonBefore post := by
  have hn : bb ≤ bb ∧ bb < bb + bl := by omega
  rw [ntopGo]
  simp [hn, go_in b ws bb bl hv post zs (bb + 1) (by omega) (by omega)]

theorem go_before (post : List Nat) (z : Nat) (zs : List Nat) (hl : zs.length + 1 = bl) :
    ∀ (pre : List Nat) (i : Nat), i ≠ 0 → i + pre.length = bb →
      ntopGo b ws (some (bb, bl)) i (pre ++ z :: (zs ++ post)) = colonBefore pre ++ ':' :: colonBefore post := by
  intro pre
  induction pre with
  | nil =>
    intro i _ h
    simp at h; subst h
    simpa [colonBefore] using go_at b ws i bl hv post z zs hl
  | cons p pre ih =>
    intro i hi h
    simp only [List.length_cons] at h
    have hn : ¬ (bb ≤ i ∧ i < bb + bl) := by omega
    rw [List.cons_append, ntopGo]
    simp [hn, hi, hv, ih (i + 1) (by omega) (by omega), colonBefore]

omit hv in
/-- the text printed by the loop around a compressed run -/
def goOut (pre post : List Nat) : Str :=
  match pre with
  | [] => ':' :: colonBefore post
  | p :: pre' => hexStr p ++ colonBefore pre' ++ ':' :: colonBefore post

/-- the whole loop, from word 0 -/
theorem go_zero (pre post : List Nat) (hp : pre.length = bb) (hbl : 1 ≤ bl) :
    ntopGo b ws (some (bb, bl)) 0 (pre ++ List.replicate bl 0 ++ post) = goOut pre post := by
  unfold goOut
  obtain ⟨k, rfl⟩ : ∃ k, bl = k + 1 := ⟨bl - 1, by omega⟩
  rw [List.replicate_succ, List.append_assoc]
  cases pre with
  | nil =>
    simp only [List.length_nil] at hp; subst hp
    simpa using go_at b ws 0 (k + 1) hv post 0 (List.replicate k 0) (by simp)
  | cons p pre' =>
    simp only [List.length_cons] at hp
    have hn : bb ≠ 0 := by omega
    rw [List.cons_append, ntopGo]
    simp [hn, hv, go_before b ws bb (k + 1) hv post 0 (List.replicate k 0) (by simp) pre' 1 (by omega) (by omega)]

end run

/-! ### the embedded IPv4 text: `inet_pton4` reads what `"%u.%u.%u.%u"` prints -/

theorem splitOnChar_noSep (sep : Char) : ∀ (x : Str), sep ∉ x → splitOnChar sep x = [x]
  | [], _ => rfl
  | c :: cs, h => by
    have hc : c ≠ sep := fun e => h (by simp [e])
    have ih := splitOnChar_noSep sep cs (fun hm => h (by simp [hm]))
    simp [splitOnChar, hc, ih]

theorem splitOnChar_append (sep : Char) (r : Str) : ∀ (x : Str), sep ∉ x →
    splitOnChar sep (x ++ sep :: r) = x :: splitOnChar sep r
  | [], _ => by simp [splitOnChar]
  | c :: cs, h => by
    have hc : c ≠ sep := fun e => h (by simp [e])
    have ih := splitOnChar_append sep r cs (fun hm => h (by simp [hm]))
    simp [splitOnChar, hc, ih]

theorem dec_head_ne_zero : ∀ (n : Nat), 0 < n → ∀ c cs, dec n = c :: cs → c ≠ '0' := by
  intro n
  induction n using Nat.strongRecOn with
  | _ n ih =>
    intro hn c cs h
    unfold dec at h
    rw [Nat.toDigits_eq_if (by decide)] at h
    split at h
    · simp only [List.cons.injEq] at h
      obtain ⟨rfl, _⟩ := h
      simp; omega
    · cases hd : Nat.toDigits 10 (n / 10) with
      | nil => exact absurd hd Nat.toDigits_ne_nil
      | cons c' cs' =>
        rw [hd] at h
        simp only [List.cons_append, List.cons.injEq] at h
        obtain ⟨rfl, _⟩ := h
        exact ih (n / 10) (by omega) (by omega) c' cs' hd

theorem octet_dec {n : Nat} (h : n < 256) : octet (dec n) = some (UInt8.ofNat n) := by
  cases hd : dec n with
  | nil => exact absurd hd (dec_ne_nil n)
  | cons c cs =>
    have hall : (c :: cs).all Char.isDigit = true := by
      rw [← hd, List.all_eq_true]; exact fun c hc => isDigit_of_mem_dec hc
    have hlen : (c :: cs).length ≤ 3 := by rw [← hd]; exact dec_len_le (by omega)
    have hz : c ≠ '0' ∨ cs = [] := by
      by_cases h0 : n = 0
      · subst h0
        right
        simp [dec] at hd
        exact hd.2
      · left; exact dec_head_ne_zero n (by omega) c cs hd
    have hval : Nat.ofDigitChars 10 (c :: cs) 0 = n := by rw [← hd]; simp [dec]
    unfold octet
    simp only [hall, hlen, hz, and_self, if_true, hval]
    rw [if_pos (by omega)]

theorem dot_not_mem_dec (n : Nat) : '.' ∉ dec n := by
  intro h
  have := isDigit_of_mem_dec h
  revert this; decide

theorem pton4_fmtQuad {a b c d : Nat} (ha : a < 256) (hb : b < 256) (hc : c < 256) (hd : d < 256) :
    pton4 (fmtQuad a b c d) = some [UInt8.ofNat a, UInt8.ofNat b, UInt8.ofNat c, UInt8.ofNat d] := by
  unfold pton4 fmtQuad
  rw [splitOnChar_append _ _ _ (dot_not_mem_dec a), splitOnChar_append _ _ _ (dot_not_mem_dec b),
    splitOnChar_append _ _ _ (dot_not_mem_dec c), splitOnChar_noSep _ _ (dot_not_mem_dec d)]
  simp [octet_dec ha, octet_dec hb, octet_dec hc, octet_dec hd]

theorem pton4_ntop4 (x y z t : UInt8) : pton4 (ntop4 [x, y, z, t]) = some [x, y, z, t] := by
  simp [ntop4, pton4_fmtQuad x.toNat_lt y.toNat_lt z.toNat_lt t.toNat_lt]

theorem isHex_of_isDigit {c : Char} (h : c.isDigit = true) : isHex c = true := by simp [isHex, h]

/-- the first decimal field is (harmlessly) accumulated as hexadecimal digits; at the dot
`inet_pton4` reads the whole current token -/
theorem loop_v4_aux (ds R ct : Str) (q o : List UInt8) (cp : Option Nat)
    (hd : ∀ c ∈ ds, c.isDigit = true) (hl : ds.length ≤ 3) (hq : pton4 ct = some q) (ho : o.length + 4 ≤ 16) :
    loop (ds ++ '.' :: R) ⟨o, cp, ct, 0, 0⟩ = some ⟨o ++ q, cp, [], 0, hexFold 0 ds⟩ := by
  have hh : ∀ c ∈ ds, isHex c = true := fun c hc => isHex_of_isDigit (hd c hc)
  have hlt := hexFold_lt ds hh 0
  have hpow : 16 ^ ds.length ≤ 16 ^ 3 := Nat.pow_le_pow_right (by decide) hl
  rw [loop_hex _ o cp ct ds 0 0 hh (by omega) (by omega), loop]
  have h1 : ¬ ('.' : Char) = ':' := by decide
  simp [isHex_dot, h1, ho, hq]

theorem loop_v4 (x y z t : UInt8) (o : List UInt8) (ho : o.length + 4 ≤ 16) (cp : Option Nat) :
    ∃ v, loop (ntop4 [x, y, z, t]) ⟨o, cp, ntop4 [x, y, z, t], 0, 0⟩ = some ⟨o ++ [x, y, z, t], cp, [], 0, v⟩ :=
  ⟨_, loop_v4_aux (dec x.toNat) _ (ntop4 [x, y, z, t]) [x, y, z, t] o cp (fun _ h => isDigit_of_mem_dec h)
    (dec_len_le (by have := x.toNat_lt; omega)) (pton4_ntop4 x y z t) ho⟩

theorem ntop4_ne_nil (x y z t : UInt8) : ntop4 [x, y, z, t] ≠ [] := by
  simp [ntop4, fmtQuad]

/-! ### round trip: `inet_pton6 (inet_ntop6 b) = b` for every sixteen bytes -/

theorem pton6_of_ne_colon {c : Char} {r : Str} (hc : c ≠ ':') :
    pton6 (c :: r) = (loop (c :: r) ⟨[], none, c :: r, 0, 0⟩).bind finish := by
  unfold pton6
  simp only [hc, if_false]
  cases loop (c :: r) ⟨[], none, c :: r, 0, 0⟩ <;> rfl

theorem pton6_dc (r : Str) :
    pton6 (':' :: ':' :: r) = (loop (':' :: r) ⟨[], none, ':' :: r, 0, 0⟩).bind finish := by
  unfold pton6
  simp only [if_true]
  cases loop (':' :: r) ⟨[], none, ':' :: r, 0, 0⟩ <;> rfl

theorem pton6_hexStr_start (w : Nat) (rest : Str) :
    pton6 (hexStr w ++ rest) = (loop (hexStr w ++ rest) ⟨[], none, hexStr w ++ rest, 0, 0⟩).bind finish := by
  obtain ⟨c, cs, hc, hcc⟩ := hexStr_head w
  rw [hc]
  exact pton6_of_ne_colon hcc

theorem pton6_colonAfter_start (p : Nat) (pre : List Nat) (rest : Str) :
    pton6 (colonAfter (p :: pre) ++ rest)
      = (loop (colonAfter (p :: pre) ++ rest) ⟨[], none, colonAfter (p :: pre) ++ rest, 0, 0⟩).bind finish := by
  simp only [colonAfter, List.append_assoc]
  exact pton6_hexStr_start _ _

/-- the second colon of a `::` -/
theorem loop_colon2 (rest : Str) (o : List UInt8) (ct : Str) (v : Nat) :
    loop (':' :: rest) ⟨o, none, ct, 0, v⟩ = loop rest ⟨o, some o.length, rest, 0, v⟩ := by
  rw [loop]; simp [isHex_colon]

/-- what `inet_ntop6` prints when a zero run is compressed and the address is not printed with
an embedded IPv4 part -/
theorem ntop6_compressed (b : List UInt8) (bb bl : Nat) (pre post : List Nat)
    (hbest : bestRun (words b) = some (bb, bl)) (hv : v4Embedded (words b) bb bl = false)
    (hws : words b = pre ++ List.replicate bl 0 ++ post) (hpre : pre.length = bb) (hbl : 1 ≤ bl)
    (hlen : bb + bl + post.length = 8) :
    ntop6 b = match pre with
      | [] => ':' :: ':' :: tailStr post
      | p :: pre' => colonAfter (p :: pre') ++ ':' :: tailStr post := by
  have hgo : ∀ l, l = pre ++ List.replicate bl 0 ++ post →
      ntopGo b (words b) (some (bb, bl)) 0 l = goOut pre post :=
    fun l hl => by rw [hl]; exact go_zero b (words b) bb bl hv pre post hpre hbl
  have htr : ∀ X : Str, (if bb + bl = 8 then X ++ [':'] else X) = X ++ (if post = [] then [':'] else []) := by
    intro X
    cases post with
    | nil => simp at hlen; simp [hlen]
    | cons q qs => simp at hlen; have : ¬ (bb + bl = 8) := by omega
                   simp [this]
  unfold ntop6
  simp only [hbest, htr, hgo (words b) hws]
  cases pre with
  | nil => simp only [goOut, List.cons_append]; rw [colonBefore_trailing]
  | cons p pre' =>
    simp only [goOut, List.append_assoc, List.cons_append]
    rw [colonBefore_trailing, ← colon_shift]
    simp

theorem roundtrip (b : List UInt8) (hb : b.length = 16) : pton6 (ntop6 b) = some b := by
  have hbw : bytesOf (words b) = b := bytesOf_words b (by omega)
  have hlt := words_lt b
  have hlen : (words b).length = 8 := by rw [words_length, hb]
  cases hbest : bestRun (words b) with
  | none =>
    -- no run of two or more zero groups: the full form
    cases hws : words b with
    | nil => rw [hws] at hlen; simp at hlen
    | cons w0 r =>
      rw [hws] at hlt hlen hbw hbest
      have hs : ntop6 b = hexStr w0 ++ colonBefore r := by
        unfold ntop6
        simp only [hbest, hws]
        simp only [ntopGo]
        simp [go_none b (w0 :: r) r 1 (by omega)]
      simp only [List.length_cons] at hlen
      rw [hs, pton6_hexStr_start, parse_tail none r w0 [] (hlt w0 (by simp)) (fun x hx => hlt x (by simp [hx]))
        (by simp; omega)]
      simp [fin, hbw, hb]
  | some p =>
    obtain ⟨bb, bl⟩ := p
    obtain ⟨⟨pre, post, hws, hpre⟩, hbl⟩ := bestRun_spec hbest
    simp only at hws hpre
    have hlen' : bb + bl + post.length = 8 := by rw [hws] at hlen; simp at hlen; omega
    have hpre_lt : ∀ x ∈ pre, x < 65536 := fun x hx => hlt x (by rw [hws]; simp [hx])
    have hpost_lt : ∀ x ∈ post, x < 65536 := fun x hx => hlt x (by rw [hws]; simp [hx])
    have hb' : b = bytesOf pre ++ List.replicate (2 * bl) 0 ++ bytesOf post := by
      rw [← hbw, hws, bytesOf_append, bytesOf_append, bytesOf_replicate_zero]
    cases hv : v4Embedded (words b) bb bl with
    | false =>
      have hs := ntop6_compressed b bb bl pre post hbest hv hws hpre (by omega) hlen'
      cases pre with
      | nil =>
        simp only [List.length_nil] at hpre
        simp only at hs
        rw [hs, pton6_dc, parse_dc post hpost_lt [] (by simp; omega), hb']
        simp [bytesOf]
        omega
      | cons p pre' =>
        simp only [List.length_cons] at hpre
        simp only at hs
        rw [hs, pton6_colonAfter_start, loop_groups (':' :: tailStr post) (by simp) none (p :: pre') [] hpre_lt
          (by simp; omega), parse_dc post hpost_lt ([] ++ bytesOf (p :: pre'))
          (by simp [bytesOf_length]; omega), hb']
        simp [bytesOf_length]
        omega
    | true =>
      -- `::a.b.c.d` and `::ffff:a.b.c.d`
      have hv' := hv
      simp [v4Embedded] at hv
      obtain ⟨rfl, h56⟩ := hv
      have hpn : pre = [] := List.length_eq_zero_iff.mp hpre
      subst hpn
      simp only [List.nil_append, bytesOf] at hws hb'
      rcases h56 with rfl | ⟨rfl, h5⟩
      · have hpl : post.length = 2 := by omega
        match post, hpl, hws, hb', hpost_lt with
        | [w6, w7], _, hws, hb', _ =>
          obtain ⟨x, y, z, t, hq⟩ : ∃ x y z t, bytesOf [w6, w7] = [x, y, z, t] := ⟨_, _, _, _, rfl⟩
          rw [hq] at hb'
          have hd : b.drop 12 = [x, y, z, t] := by rw [hb']; simp
          have hgo : ∀ l, l = [0, 0, 0, 0, 0, 0, w6, w7] →
              ntopGo b (words b) (some (0, 6)) 0 l = ':' :: ':' :: ntop4 (b.drop 12) := by
            intro l hl; subst hl; simp [ntopGo, hv']
          have hs : ntop6 b = ':' :: ':' :: ntop4 [x, y, z, t] := by
            unfold ntop6
            simp only [hbest]
            rw [hgo (words b) (by rw [hws]; rfl), hd]
            simp
          obtain ⟨v, hl4⟩ := loop_v4 x y z t [] (by simp) (some 0)
          rw [hs, pton6_dc, loop_colon2]
          simp only [List.length_nil]
          rw [hl4, hb']
          simp [finish_zero, fin]
      · have hpl : post.length = 3 := by omega
        match post, hpl, hws, hb', hpost_lt with
        | [w5, w6, w7], _, hws, hb', _ =>
          have h5' : w5 = 65535 := by rw [hws] at h5; simpa using h5
          subst h5'
          obtain ⟨x, y, z, t, hq⟩ : ∃ x y z t, bytesOf [w6, w7] = [x, y, z, t] := ⟨_, _, _, _, rfl⟩
          have hb'' : b = List.replicate 10 0 ++ (bytes2 65535 ++ [x, y, z, t]) := by
            rw [hb', ← hq]; simp [bytesOf]
          have hd : b.drop 12 = [x, y, z, t] := by rw [hb'']; simp [bytes2]
          have hgo : ∀ l, l = [0, 0, 0, 0, 0, 65535, w6, w7] →
              ntopGo b (words b) (some (0, 5)) 0 l = ':' :: ':' :: (hexStr 65535 ++ ':' :: ntop4 (b.drop 12)) := by
            intro l hl; subst hl; simp [ntopGo, hv']
          have hs : ntop6 b = ':' :: ':' :: (hexStr 65535 ++ ':' :: ntop4 [x, y, z, t]) := by
            unfold ntop6
            simp only [hbest]
            rw [hgo (words b) (by rw [hws]; rfl), hd]
            simp
          obtain ⟨v, hl4⟩ := loop_v4 x y z t ([] ++ bytes2 65535) (by simp [bytes2]) (some 0)
          rw [hs, pton6_dc, loop_colon2]
          simp only [List.length_nil]
          rw [loop_group 65535 (by decide) _ (ntop4_ne_nil x y z t) [] (by simp), hl4, hb'']
          simp [finish_zero, fin, bytes2]

/-! ### every parsed address has sixteen bytes; its text has a colon and no slash -/

theorem pton4_length {t : Str} {q : List UInt8} (h : pton4 t = some q) : q.length = 4 := by
  unfold pton4 at h
  split at h
  · split at h
    · cases h; rfl
    · cases h
  · cases h

theorem loop_len : ∀ (s : Str) (st st' : St), loop s st = some st' → st.out.length ≤ 16 → st'.out.length ≤ 16 := by
  intro s
  induction s with
  | nil => intro st st' h hl; rw [loop_nil] at h; cases h; exact hl
  | cons ch src ih =>
    intro st st' h hl
    rw [loop] at h
    simp only [] at h
    split at h
    · split at h
      · cases h
      · split at h
        · cases h
        · exact ih _ _ h hl
    · split at h
      · split at h
        · split at h
          · cases h
          · exact ih _ _ h hl
        · split at h
          · cases h
          · split at h
            · cases h
            · refine ih _ _ h ?_
              simp [push]; omega
      · split at h
        · split at h
          · split at h
            · rename_i q hq
              cases h
              have := pton4_length hq
              simp; omega
            · cases h
          · cases h
        · cases h

theorem fin_len {o : List UInt8} {cp : Option Nat} {b : List UInt8} (h : fin o cp = some b) (hl : o.length ≤ 16) :
    b.length = 16 := by
  unfold fin at h
  split at h
  · split at h
    · cases h
    · cases h; simp; omega
  · split at h
    · cases h; assumption
    · cases h

theorem finish_over (o : List UInt8) (cp : Option Nat) (ct : Str) (xd v : Nat) (hx : 0 < xd) (ho : 16 < o.length + 2) :
    finish ⟨o, cp, ct, xd, v⟩ = none := by
  unfold finish
  simp [hx, ho]

theorem finish_len {st : St} {b : List UInt8} (h : finish st = some b) (hl : st.out.length ≤ 16) : b.length = 16 := by
  obtain ⟨o, cp, ct, xd, v⟩ := st
  cases xd with
  | zero => rw [finish_zero] at h; exact fin_len h hl
  | succ n =>
    by_cases ho : o.length + 2 ≤ 16
    · rw [finish_pending _ _ _ _ _ (by omega) ho] at h
      exact fin_len h (by simp [bytes2]; omega)
    · rw [finish_over _ _ _ _ _ (by omega) (by omega)] at h; cases h

/-- how `inet_pton6` enters its loop -/
theorem pton6_inv {s : Str} {b : List UInt8} (h : pton6 s = some b) :
    ∃ src st, (s = src ∨ ∃ r, s = ':' :: ':' :: r ∧ src = ':' :: r) ∧
      loop src ⟨[], none, src, 0, 0⟩ = some st ∧ finish st = some b := by
  unfold pton6 at h
  split at h
  · cases h
  · rename_i c r
    simp only [] at h
    split at h
    · cases h
    · rename_i src hsrc
      split at h
      · cases h
      · rename_i st hst
        refine ⟨src, st, ?_, hst, h⟩
        split at hsrc
        · rename_i hc
          subst hc
          split at hsrc
          · rename_i r'
            cases hsrc
            exact Or.inr ⟨r', rfl, rfl⟩
          · cases hsrc
        · cases hsrc; exact Or.inl rfl

theorem pton6_length16 {s : Str} {b : List UInt8} (h : pton6 s = some b) : b.length = 16 := by
  obtain ⟨src, st, _, hl, hf⟩ := pton6_inv h
  exact finish_len hf (loop_len _ _ _ hl (by simp))

theorem octet_digits {a : Str} {x : UInt8} (h : octet a = some x) : ∀ c ∈ a, c.isDigit = true := by
  unfold octet at h
  split at h
  · cases h
  · split at h
    · rename_i hc
      intro c' hc'
      exact List.all_eq_true.mp hc.1 c' hc'
    · cases h

theorem mem_splitOnChar (sep : Char) : ∀ (t : Str) (c : Char), c ∈ t → c = sep ∨ ∃ p ∈ splitOnChar sep t, c ∈ p
  | [], c, h => by simp at h
  | x :: xs, c, h => by
    simp only [List.mem_cons] at h
    by_cases hx : x = sep
    · rcases h with rfl | h
      · left; exact hx
      · rcases mem_splitOnChar sep xs c h with h' | ⟨p, hp, hcp⟩
        · left; exact h'
        · right; exact ⟨p, by simp [splitOnChar, hx, hp], hcp⟩
    · cases hsp : splitOnChar sep xs with
      | nil =>
        rcases h with rfl | h
        · right; exact ⟨[c], by simp [splitOnChar, hx, hsp], by simp⟩
        · rcases mem_splitOnChar sep xs c h with h' | ⟨p, hp, hcp⟩
          · left; exact h'
          · rw [hsp] at hp; simp at hp
      | cons hd tl =>
        rcases h with rfl | h
        · right; exact ⟨c :: hd, by simp [splitOnChar, hx, hsp], by simp⟩
        · rcases mem_splitOnChar sep xs c h with h' | ⟨p, hp, hcp⟩
          · left; exact h'
          · rw [hsp] at hp
            simp only [List.mem_cons] at hp
            rcases hp with rfl | hp
            · right; exact ⟨x :: p, by simp [splitOnChar, hx, hsp], by simp [hcp]⟩
            · right; exact ⟨p, by simp [splitOnChar, hx, hsp, hp], hcp⟩

theorem pton4_noSlash {t : Str} {q : List UInt8} (h : pton4 t = some q) : '/' ∉ t := by
  intro hm
  unfold pton4 at h
  split at h
  · rename_i a b c d hsp
    have key : ∀ p ∈ [a, b, c, d], ∃ x, octet p = some x := by
      cases ha : octet a <;> cases hb : octet b <;> cases hc : octet c <;> cases hd : octet d <;>
        simp [ha, hb, hc, hd] at h ⊢
    rcases mem_splitOnChar '.' t '/' hm with h' | ⟨p, hp, hcp⟩
    · revert h'; decide
    · rw [hsp] at hp
      obtain ⟨x, hx⟩ := key p hp
      have := octet_digits hx _ hcp
      revert this; decide
  · cases h

theorem loop_noSlash : ∀ (s : Str) (st st' : St), loop s st = some st' → (∃ pfx, st.curtok = pfx ++ s) → '/' ∉ s := by
  intro s
  induction s with
  | nil => intro _ _ _ _; simp
  | cons ch src ih =>
    intro st st' h hp
    obtain ⟨pfx, hp⟩ := hp
    have hp' : st.curtok = (pfx ++ [ch]) ++ src := by simp [hp]
    rw [loop] at h
    simp only [] at h
    simp only [List.mem_cons, not_or]
    split at h
    · rename_i hh
      have hne : '/' ≠ ch := by
        intro e; rw [← e, isHex_slash] at hh; cases hh
      split at h
      · cases h
      · split at h
        · cases h
        · exact ⟨hne, ih _ _ h ⟨pfx ++ [ch], hp'⟩⟩
    · split at h
      · rename_i hc
        have hne : '/' ≠ ch := by rw [hc]; decide
        split at h
        · split at h
          · cases h
          · exact ⟨hne, ih _ _ h ⟨[], rfl⟩⟩
        · split at h
          · cases h
          · split at h
            · cases h
            · exact ⟨hne, ih _ _ h ⟨[], rfl⟩⟩
      · split at h
        · split at h
          · split at h
            · rename_i q hq
              have := pton4_noSlash hq
              rw [hp] at this
              simp only [List.mem_append, List.mem_cons, not_or] at this
              exact this.2
            · cases h
          · cases h
        · cases h

theorem loop_noColon : ∀ (s : Str) (st st' : St), ':' ∉ s → loop s st = some st' →
    st'.colonp = st.colonp ∧ (st'.out = st.out ∨ (st'.out.length = st.out.length + 4 ∧ st'.xdigits = 0)) := by
  intro s
  induction s with
  | nil => intro st st' _ h; rw [loop_nil] at h; cases h; simp
  | cons ch src ih =>
    intro st st' hc h
    simp only [List.mem_cons, not_or] at hc
    rw [loop] at h
    simp only [] at h
    split at h
    · split at h
      · cases h
      · split at h
        · cases h
        · have := ih _ _ hc.2 h
          exact this
    · split at h
      · rename_i e; exact absurd e.symm hc.1
      · split at h
        · split at h
          · split at h
            · rename_i q hq
              cases h
              have := pton4_length hq
              simp [this]
            · cases h
          · cases h
        · cases h

theorem pton6_shape {s : Str} {b : List UInt8} (h : pton6 s = some b) : ':' ∈ s ∧ '/' ∉ s := by
  obtain ⟨src, st, hs, hl, hf⟩ := pton6_inv h
  have hsl := loop_noSlash _ _ _ hl ⟨[], rfl⟩
  rcases hs with rfl | ⟨r, rfl, rfl⟩
  · refine ⟨?_, hsl⟩
    apply Classical.byContradiction
    intro hc
    obtain ⟨hcp, ho⟩ := loop_noColon _ _ _ hc hl
    obtain ⟨o, cp, ct, xd, v⟩ := st
    simp only at hcp ho
    subst hcp
    cases xd with
    | zero =>
      rw [finish_zero] at hf
      have hlen : o.length = 0 ∨ o.length = 4 := by
        rcases ho with h | ⟨h, _⟩
        · left; simp [h]
        · right; simpa using h
      simp only [fin] at hf
      split at hf
      · omega
      · cases hf
    | succ n =>
      rcases ho with rfl | ⟨_, ho⟩
      · rw [finish_pending _ _ _ _ _ (by omega) (by simp)] at hf
        simp [fin, bytes2] at hf
      · cases ho
  · refine ⟨by simp, ?_⟩
    simp only [List.mem_cons, not_or] at hsl ⊢
    exact ⟨by decide, hsl⟩

end Vinegar.Addr.Glibc

namespace Vinegar.Addr
/-- the port of glibc's `inet_pton6` / `inet_ntop6` that the driver runs satisfies the three laws -/
def glibcInetLaw : InetLaw where
  pton6 := Glibc.pton6
  ntop6 := Glibc.ntop6
  roundtrip := Glibc.roundtrip
  length16 := fun _ _ h => Glibc.pton6_length16 h
  shape := fun _ _ h => Glibc.pton6_shape h

theorem glibcInetLaw_toInet : glibcInetLaw.toInet = Glibc.inet := rfl
end Vinegar.Addr
