import Vinegar.Lemmas.Yaml
/-
Lemmas for C12: the LRU on an ordered dictionary, the hypotheses on the hash functions, the
cache-less and state-less reference `expandFileV` of the versioned expansion, and the
simulation of the cached, state-threading `expandFileC` by it.
-/
namespace Vinegar.Yaml


/-! ## LRU: membership facts (enough for invariants over cache contents) -/

theorem odGet_mem {V : Type} (k : String) (l : List (String × V)) (v : V) (h : odGet k l = some v) :
    (k, v) ∈ l := by
  induction l with
  | nil => simp [odGet] at h
  | cons p rest ih =>
    obtain ⟨k', v'⟩ := p
    rw [odGet] at h
    by_cases hk : k' = k
    · simp [hk] at h; subst h; subst hk; exact List.mem_cons_self
    · simp [hk] at h; exact List.mem_cons_of_mem _ (ih h)

theorem mem_odMoveToEnd {V : Type} (k : String) (l : List (String × V)) (x : String × V)
    (h : x ∈ odMoveToEnd k l) : x ∈ l := by
  induction l with
  | nil => simp [odMoveToEnd] at h
  | cons p rest ih =>
    obtain ⟨k', v'⟩ := p
    rw [odMoveToEnd] at h
    by_cases hk : k' = k
    · simp [hk] at h
      cases h with
      | inl h => exact List.mem_cons_of_mem _ h
      | inr h => rw [h, hk]; exact List.mem_cons_self
    · simp [hk] at h
      cases h with
      | inl h => rw [h]; exact List.mem_cons_self
      | inr h => exact List.mem_cons_of_mem _ (ih h)

theorem mem_odSet {V : Type} (k : String) (v : V) (l : List (String × V)) (x : String × V)
    (h : x ∈ odSet k v l) : x = (k, v) ∨ x ∈ l := by
  induction l with
  | nil => simp [odSet] at h; exact Or.inl h
  | cons p rest ih =>
    obtain ⟨k', v'⟩ := p
    rw [odSet] at h
    by_cases hk : k' = k
    · simp [hk] at h
      cases h with
      | inl h => exact Or.inl h
      | inr h => exact Or.inr (List.mem_cons_of_mem _ h)
    · simp [hk] at h
      cases h with
      | inl h => rw [h]; exact Or.inr List.mem_cons_self
      | inr h =>
        cases ih h with
        | inl h => exact Or.inl h
        | inr h => exact Or.inr (List.mem_cons_of_mem _ h)

/-- everything stored satisfies `P` -/
def Cache.All {V : Type} (P : String → V → Prop) (c : Cache V) : Prop := ∀ k v, (k, v) ∈ c.data → P k v

theorem Cache.get_all {V : Type} (P : String → V → Prop) (c : Cache V) (k : String) (h : c.All P) :
    (∀ v, (c.get k).1 = some v → P k v) ∧ (c.get k).2.All P ∧ (c.get k).2.size = c.size := by
  unfold Cache.get
  by_cases hs : c.size = 0
  · simp [hs]; exact h
  · simp only [hs, if_false]
    cases hg : odGet k c.data with
    | none => simp; exact h
    | some v =>
      refine ⟨?_, ?_, rfl⟩
      · intro v' hv; simp at hv; subst hv; exact h k v (odGet_mem k c.data v hg)
      · intro k' v' hm; exact h k' v' (mem_odMoveToEnd k c.data _ hm)

theorem Cache.set_all {V : Type} (P : String → V → Prop) (c : Cache V) (k : String) (v : V) (h : c.All P)
    (hv : P k v) : (c.set k v).All P ∧ (c.set k v).size = c.size := by
  unfold Cache.set
  by_cases hs : c.size = 0
  · simp [hs]; exact h
  · simp only [hs, if_false]
    have hall : ∀ x, x ∈ odMoveToEnd k (odSet k v c.data) → P x.1 x.2 := by
      intro x hx
      cases mem_odSet k v c.data x (mem_odMoveToEnd k _ x hx) with
      | inl h1 => rw [h1]; exact hv
      | inr h1 => exact h x.1 x.2 h1
    split
    · refine ⟨?_, rfl⟩
      intro k' v' hm
      exact hall (k', v') (List.mem_of_mem_tail hm)
    · exact ⟨fun k' v' hm => hall (k', v') hm, rfl⟩

/-! ## LRU refines a bounded recency list -/

def keysOf {V : Type} (l : List (String × V)) : List String := l.map (·.1)


theorem odGet_none_of_not_mem {V : Type} (k : String) (l : List (String × V)) (h : k ∉ keysOf l) :
    odGet k l = none := by
  induction l with
  | nil => rfl
  | cons p rest ih =>
    obtain ⟨k', v'⟩ := p
    simp [keysOf] at h
    rw [odGet]
    have : ¬ k' = k := fun e => h.1 e.symm
    simp [this]
    exact ih (by simpa [keysOf] using h.2)

theorem filter_ne_of_not_mem {V : Type} (k : String) (l : List (String × V)) (h : k ∉ keysOf l) :
    l.filter (fun p => p.1 ≠ k) = l := by
  rw [List.filter_eq_self]
  intro p hp
  simp
  intro e
  exact h (by rw [← e]; exact List.mem_map_of_mem (f := (·.1)) hp)

theorem moveToEnd_set {V : Type} (k : String) (v : V) (l : List (String × V)) (hn : (keysOf l).Nodup) :
    odMoveToEnd k (odSet k v l) = l.filter (fun p => p.1 ≠ k) ++ [(k, v)] := by
  induction l with
  | nil => simp [odSet, odMoveToEnd]
  | cons p rest ih =>
    obtain ⟨k', v'⟩ := p
    simp only [keysOf, List.map_cons, List.nodup_cons] at hn
    rw [odSet]
    by_cases hk : k' = k
    · subst hk
      simp only [if_true, odMoveToEnd]
      have : rest.filter (fun p => p.1 ≠ k') = rest := filter_ne_of_not_mem k' rest hn.1
      simp
      simpa using this.symm
    · simp only [hk, if_false, odMoveToEnd]
      rw [ih hn.2]
      simp [hk]

theorem moveToEnd_get {V : Type} (k : String) (v : V) (l : List (String × V)) (hn : (keysOf l).Nodup)
    (hg : odGet k l = some v) : odMoveToEnd k l = l.filter (fun p => p.1 ≠ k) ++ [(k, v)] := by
  induction l with
  | nil => simp [odGet] at hg
  | cons p rest ih =>
    obtain ⟨k', v'⟩ := p
    simp only [keysOf, List.map_cons, List.nodup_cons] at hn
    rw [odGet] at hg
    by_cases hk : k' = k
    · subst hk
      simp at hg; subst hg
      simp only [odMoveToEnd, if_true]
      have : rest.filter (fun p => p.1 ≠ k') = rest := filter_ne_of_not_mem k' rest hn.1
      simp
      simpa using this.symm
    · simp only [hk, if_false] at hg
      simp only [odMoveToEnd, hk, if_false]
      rw [ih hn.2 hg]
      simp [hk]

theorem keys_touch_nodup {V : Type} (k : String) (v : V) (l : List (String × V)) (hn : (keysOf l).Nodup) :
    (keysOf (l.filter (fun p => p.1 ≠ k) ++ [(k, v)])).Nodup := by
  simp only [keysOf, List.map_append, List.map_cons, List.map_nil]
  rw [List.nodup_append]
  refine ⟨?_, by simp, ?_⟩
  · exact List.Nodup.sublist (List.Sublist.map _ List.filter_sublist) hn
  · intro a ha b hb
    rw [List.mem_map] at ha
    obtain ⟨x, hx, rfl⟩ := ha
    have h2 := (List.mem_filter.1 hx).2
    simp at hb h2
    subst hb
    exact h2

/-- the representation invariant of `LRUCache._data`: distinct keys, at most `size` entries;
the `NullCache` never stores anything -/
def Cache.Inv {V : Type} (c : Cache V) : Prop :=
  (keysOf c.data).Nodup ∧ c.data.length ≤ c.size



/-! ## hypotheses on the hash functions -/

/-- no `|` in the string (`aggregate_version` joins with `|`) -/
def SepFree (s : String) : Prop := '|' ∉ s.toList

/-- "no hash collisions": `version_for_str` is injective and yields separator-free strings,
`aggregate_version` is injective on lists of separator-free strings. HYPOTHESES of the C12
theorems, never axioms. -/
structure VerOK (vf : VerFns) : Prop where
  ver_inj : ∀ a b, vf.ver a = vf.ver b → a = b
  ver_sepFree : ∀ a, SepFree (vf.ver a)
  agg_inj : ∀ l1 l2, (∀ v ∈ l1, SepFree v) → (∀ v ∈ l2, SepFree v) → vf.agg l1 = vf.agg l2 → l1 = l2

theorem sepFree_append (a b : String) (ha : SepFree a) (hb : SepFree b) : SepFree (a ++ b) := by
  unfold SepFree at *
  rw [String.toList_append]
  simp [ha, hb]

theorem sepFree_tag0 : SepFree TAG0 := by unfold SepFree TAG0; decide
theorem sepFree_tag1 : SepFree TAG1 := by unfold SepFree TAG1; decide

theorem append_tag_inj (a b : String) (t : String) (h : a ++ t = b ++ t) : a = b := by
  have := congrArg String.toList h
  rw [String.toList_append, String.toList_append] at this
  exact String.toList_inj.1 (List.append_cancel_right this)

theorem tag0_ne_tag1 (a b : String) : a ++ TAG0 ≠ b ++ TAG1 := by
  intro h
  have := congrArg String.toList h
  rw [String.toList_append, String.toList_append] at this
  have h2 : TAG0.toList.length = TAG1.toList.length := by decide
  have := (List.append_inj' this h2).2
  revert this
  decide



/-! ## the cache-less, state-less reference of the versioned expansion -/

def loadPure (vf : VerFns) (W : World) : VNode → Except Err (Parts × String)
  | .dir => .error .render
  | .renderError => .error .render
  | .text t =>
    match W.parse t with
    | .error => .error .parse
    | .nonMapping => .error .nonMapping
    | .mapping kvs => .ok (processContent kvs, vf.ver t)

def expandAllV (g : Name → Name → VNode → Except Err (List (Mapping × String)))
    (rs : List (Name × Name × VNode)) : Except Err (List (Mapping × String)) :=
  bindE (mapE (fun r => g r.1 r.2.1 r.2.2) rs) (fun pss => .ok pss.flatten)

def expandFileV (vf : VerFns) (W : World) (tree : VTree) :
    Nat → List Name → Name → Name → VNode → Except Err (List (Mapping × String))
  | 0, _, _, _, _ => .error .fuel
  | fuel + 1, parents, name, resName, node =>
    if name ∈ parents then .error .cycle else
    bindE (loadPure vf W node) fun l =>
    bindE (includeNames l.1.2.1) fun incs =>
    bindE (mapE (fun i => resolveRelative i resName) incs) fun names =>
    bindE (resolveAllV tree names) fun rs =>
    bindE (expandAllV (fun n r nd => expandFileV vf W tree fuel (parents ++ [name]) n r nd) rs) fun mid =>
    .ok (vpiecesOf l.1.1 mid l.1.2.2 l.2)

def expandListV (vf : VerFns) (W : World) (tree : VTree) (fuel : Nat) (parents : List Name)
    (names : List Name) : Except Err (List (Mapping × String)) :=
  bindE (resolveAllV tree names) fun rs =>
  expandAllV (fun n r nd => expandFileV vf W tree fuel parents n r nd) rs

/-- `y` computes what `x` computes and leaves a state satisfying `Inv` -/
def Sim {β : Type} (Inv : CState → Prop) (x : Except Err β) (y : Except Err (β × CState)) : Prop :=
  match x with
  | .error e => y = .error e
  | .ok b => ∃ s', y = .ok (b, s') ∧ Inv s'

theorem mapAccE_sim {α β : Type} (Inv : CState → Prop) (g : α → Except Err β)
    (f : CState → α → Except Err (β × CState)) (l : List α)
    (h : ∀ s a, Inv s → a ∈ l → Sim Inv (g a) (f s a)) (s0 : CState) (h0 : Inv s0) :
    Sim Inv (mapE g l) (mapAccE f s0 l) := by
  induction l generalizing s0 with
  | nil => exact ⟨s0, rfl, h0⟩
  | cons a as ih =>
    have ha := h s0 a h0 List.mem_cons_self
    rw [mapE, mapAccE]
    cases hg : g a with
    | error e =>
      rw [hg] at ha
      simp only [Sim] at ha ⊢
      simp [ha]
    | ok b =>
      rw [hg] at ha
      obtain ⟨s1, hf, h1⟩ := ha
      have ih' := ih (fun s x hs hx => h s x hs (List.mem_cons_of_mem _ hx)) s1 h1
      simp only [hf]
      cases hm : mapE g as with
      | error e =>
        rw [hm] at ih'
        simp only [Sim] at ih' ⊢
        simp [ih']
      | ok bs =>
        rw [hm] at ih'
        obtain ⟨s2, hf2, h2⟩ := ih'
        exact ⟨s2, by simp [hf2], h2⟩

theorem resolveAllV_mem (tree : VTree) (names : List Name) (rs : List (Name × Name × VNode))
    (h : resolveAllV tree names = .ok rs) : ∀ r, r ∈ rs → resolveFileV tree r.1 = .ok (r.2.1, r.2.2) := by
  induction names generalizing rs with
  | nil => simp [resolveAllV, mapE] at h; subst h; intro r hr; cases hr
  | cons n ns ih =>
    unfold resolveAllV at h
    rw [mapE_ok_cons_iff] at h
    obtain ⟨b, bs, h1, h2, rfl⟩ := h
    intro r hr
    cases List.mem_cons.1 hr with
    | inl heq =>
      subst heq
      rw [bindE_ok_iff] at h1
      obtain ⟨a, ha, hb⟩ := h1
      cases hb
      exact ha
    | inr hmem => exact ih bs h2 r hmem

section
variable (vf : VerFns) (W : World) (old : List (Name × CFile)) (tree : VTree)

/-- every per-file entry of the OLD cache item was computed from some text with that version -/
def OldOK : Prop :=
  ∀ n c, lookupFile n old = some c →
    ∃ t kvs, c.ver = vf.ver t ∧ W.parse t = .mapping kvs ∧ c.parts = processContent kvs

/-- every per-file entry of the NEW cache was computed from the file the name denotes NOW;
every rendered name has an entry and was rendered once -/
def InvSt (st : CState) : Prop :=
  (∀ n c, lookupFile n st.files = some c →
    ∃ res t kvs, resolveFileV tree n = .ok (res, .text t) ∧ c.ver = vf.ver t ∧
      W.parse t = .mapping kvs ∧ c.parts = processContent kvs) ∧
  st.reads.Nodup ∧ (∀ n, n ∈ st.reads → lookupFile n st.files ≠ none)

theorem lookupFile_cons (n m : Name) (c : CFile) (l : List (Name × CFile)) :
    lookupFile n ((m, c) :: l) = if m = n then some c else lookupFile n l := by
  rw [lookupFile]

theorem invSt_insert (st : CState) (name res : Name) (t : String) (kvs : Mapping) (c : CFile)
    (hinv : InvSt vf W tree st) (hmiss : lookupFile name st.files = none)
    (hres : resolveFileV tree name = .ok (res, .text t)) (hc1 : c.ver = vf.ver t)
    (hc2 : W.parse t = .mapping kvs) (hc3 : c.parts = processContent kvs) :
    InvSt vf W tree { files := (name, c) :: st.files, reads := st.reads ++ [name] } := by
  obtain ⟨h1, h2, h3⟩ := hinv
  refine ⟨?_, ?_, ?_⟩
  · intro n c' hl
    rw [lookupFile_cons] at hl
    by_cases hn : name = n
    · subst hn; simp at hl; subst hl; exact ⟨res, t, kvs, hres, hc1, hc2, hc3⟩
    · simp [hn] at hl; exact h1 n c' hl
  · rw [List.nodup_append]
    refine ⟨h2, by simp, ?_⟩
    intro a ha b hb
    simp at hb; subst hb
    intro e; subst e
    exact h3 a ha hmiss
  · intro n hn
    rw [lookupFile_cons]
    by_cases hnn : name = n
    · simp [hnn]
    · simp only [hnn, if_false]
      rw [List.mem_append] at hn
      cases hn with
      | inl h => exact h3 n h
      | inr h => simp at h; exact absurd h.symm hnn

end



section
variable (vf : VerFns) (W : World) (old : List (Name × CFile)) (tree : VTree)

theorem loadFile_sim (hver : VerOK vf) (hold : OldOK vf W old) (st : CState) (name res : Name) (node : VNode)
    (hinv : InvSt vf W tree st) (hres : resolveFileV tree name = .ok (res, node)) :
    match loadPure vf W node with
    | .error e => loadFile vf W old st name node = .error e
    | .ok l => ∃ st', loadFile vf W old st name node = .ok (l.1, l.2, st') ∧ InvSt vf W tree st' := by
  unfold loadFile
  cases hl : lookupFile name st.files with
  | some c =>
    obtain ⟨res', t, kvs, h1, h2, h3, h4⟩ := hinv.1 name c hl
    rw [hres] at h1
    cases h1
    simp only [loadPure, h3]
    exact ⟨st, by rw [h4, h2], hinv⟩
  | none =>
    cases node with
    | dir => simp [loadPure]
    | renderError => simp [loadPure]
    | text t =>
      simp only [loadPure]
      cases ho : lookupFile name old with
      | some c =>
        obtain ⟨t0, kvs0, g1, g2, g3⟩ := hold name c ho
        by_cases hv : c.ver = vf.ver t
        · have : t0 = t := hver.ver_inj _ _ (by rw [← g1, hv])
          subst this
          simp only [hv, if_true, g2]
          exact ⟨_, by rw [g3], invSt_insert vf W tree st name res t0 kvs0 c hinv hl hres hv g2 g3⟩
        · simp only [hv, if_false]
          cases hp : W.parse t with
          | error => simp
          | nonMapping => simp
          | mapping kvs =>
            exact ⟨_, rfl, invSt_insert vf W tree st name res t kvs ⟨processContent kvs, vf.ver t⟩ hinv hl hres rfl hp rfl⟩
      | none =>
        cases hp : W.parse t with
        | error => simp
        | nonMapping => simp
        | mapping kvs =>
          exact ⟨_, rfl, invSt_insert vf W tree st name res t kvs ⟨processContent kvs, vf.ver t⟩ hinv hl hres rfl hp rfl⟩

/-- T1: the cached expansion computes what the cache-less reference computes -/
theorem expandFileC_sim (hver : VerOK vf) (hold : OldOK vf W old) (fuel : Nat) :
    ∀ (parents : List Name) (st : CState) (name res : Name) (node : VNode),
      InvSt vf W tree st → resolveFileV tree name = .ok (res, node) →
      Sim (InvSt vf W tree) (expandFileV vf W tree fuel parents name res node)
        (expandFileC vf W old tree fuel parents st name res node) := by
  induction fuel with
  | zero => intro parents st name res node _ _; simp [expandFileV, expandFileC, Sim]
  | succ f ih =>
    intro parents st name res node hinv hres
    rw [expandFileV.eq_def, expandFileC.eq_def]
    by_cases hc : name ∈ parents
    · simp [hc, Sim]
    · simp only [hc, if_false]
      have hload := loadFile_sim vf W old tree hver hold st name res node hinv hres
      cases hl : loadPure vf W node with
      | error e =>
        rw [hl] at hload
        simp [bindE, hload, Sim]
      | ok l =>
        rw [hl] at hload
        obtain ⟨st1, hlf, hinv1⟩ := hload
        simp only [bindE, hlf]
        cases hi : includeNames l.1.2.1 with
        | error e => simp [Sim]
        | ok incs =>
          simp only []
          cases hn : mapE (fun i => resolveRelative i res) incs with
          | error e => simp [Sim]
          | ok names =>
            simp only []
            cases hr : resolveAllV tree names with
            | error e => simp [Sim]
            | ok rs =>
              simp only []
              have hsim := mapAccE_sim (InvSt vf W tree)
                (fun r => expandFileV vf W tree f (parents ++ [name]) r.1 r.2.1 r.2.2)
                (fun s r => expandFileC vf W old tree f (parents ++ [name]) s r.1 r.2.1 r.2.2) rs
                (fun s r hs hr' => ih (parents ++ [name]) s r.1 r.2.1 r.2.2 hs (resolveAllV_mem tree names rs hr r hr'))
                st1 hinv1
              unfold expandAllV expandAllC
              cases hm : mapE (fun r => expandFileV vf W tree f (parents ++ [name]) r.1 r.2.1 r.2.2) rs with
              | error e =>
                rw [hm] at hsim
                simp only [Sim] at hsim
                simp [bindE, hsim, Sim]
              | ok pss =>
                rw [hm] at hsim
                obtain ⟨st2, hacc, hinv2⟩ := hsim
                simp only [bindE, hacc, Sim]
                exact ⟨st2, rfl, hinv2⟩

theorem expandListC_sim (hver : VerOK vf) (hold : OldOK vf W old) (fuel : Nat) (parents : List Name)
    (st : CState) (names : List Name) (hinv : InvSt vf W tree st) :
    Sim (InvSt vf W tree) (expandListV vf W tree fuel parents names)
      (expandListC vf W old tree fuel parents st names) := by
  unfold expandListV expandListC
  cases hr : resolveAllV tree names with
  | error e => simp [bindE, Sim]
  | ok rs =>
    simp only [bindE]
    have hsim := mapAccE_sim (InvSt vf W tree)
      (fun r => expandFileV vf W tree fuel parents r.1 r.2.1 r.2.2)
      (fun s r => expandFileC vf W old tree fuel parents s r.1 r.2.1 r.2.2) rs
      (fun s r hs hr' => expandFileC_sim vf W old tree hver hold fuel parents s r.1 r.2.1 r.2.2 hs
        (resolveAllV_mem tree names rs hr r hr'))
      st hinv
    unfold expandAllV expandAllC
    cases hm : mapE (fun r => expandFileV vf W tree fuel parents r.1 r.2.1 r.2.2) rs with
    | error e =>
      rw [hm] at hsim
      simp only [Sim] at hsim
      simp [bindE, hsim, Sim]
    | ok pss =>
      rw [hm] at hsim
      obtain ⟨st2, hacc, hinv2⟩ := hsim
      simp only [bindE, hacc, Sim]
      exact ⟨st2, rfl, hinv2⟩

end



section
variable (vf : VerFns) (W : World)

/-- a versioned piece that really is the pre- or post-include part of the parse of a text
with that version (D14 repaired: the tag tells which part) -/
def GoodPiece (p : Mapping × String) : Prop :=
  ∃ t kvs, W.parse t = .mapping kvs ∧
    ((p.2 = vf.ver t ++ TAG0 ∧ p.1 = (processContent kvs).1) ∨
     (p.2 = vf.ver t ++ TAG1 ∧ p.1 = (processContent kvs).2.2))

theorem loadPure_ok (node : VNode) (l : Parts × String) (h : loadPure vf W node = .ok l) :
    ∃ t kvs, W.parse t = .mapping kvs ∧ l.1 = processContent kvs ∧ l.2 = vf.ver t := by
  cases node with
  | dir => simp [loadPure] at h
  | renderError => simp [loadPure] at h
  | text t =>
    simp only [loadPure] at h
    cases hp : W.parse t with
    | error => simp [hp] at h
    | nonMapping => simp [hp] at h
    | mapping kvs => simp [hp] at h; subst h; exact ⟨t, kvs, hp, rfl, rfl⟩

theorem mem_vpiecesOf (pre post : Mapping) (mid : List (Mapping × String)) (fv : String) (p : Mapping × String)
    (h : p ∈ vpiecesOf pre mid post fv) : p = (pre, fv ++ TAG0) ∨ p ∈ mid ∨ p = (post, fv ++ TAG1) := by
  unfold vpiecesOf at h
  simp only [List.mem_append] at h
  rcases h with (h | h) | h
  · split at h
    · cases h
    · simp at h; exact Or.inl h
  · exact Or.inr (Or.inl h)
  · split at h
    · cases h
    · simp at h; exact Or.inr (Or.inr h)

theorem expandFileV_good (tree : VTree) (fuel : Nat) :
    ∀ (parents : List Name) (name res : Name) (node : VNode) (vps : List (Mapping × String)),
      expandFileV vf W tree fuel parents name res node = .ok vps → ∀ p, p ∈ vps → GoodPiece vf W p := by
  induction fuel with
  | zero => intro parents name res node vps h; simp [expandFileV] at h
  | succ f ih =>
    intro parents name res node vps h
    rw [expandFileV.eq_def] at h
    by_cases hc : name ∈ parents
    · simp [hc] at h
    · simp only [hc, if_false, bindE_ok_iff] at h
      obtain ⟨l, hl, incs, _, names, _, rs, _, mid, hmid, hfin⟩ := h
      cases hfin
      obtain ⟨t, kvs, hp, h1, h2⟩ := loadPure_ok vf W node l hl
      intro p hp'
      rcases mem_vpiecesOf _ _ _ _ p hp' with h | h | h
      · exact ⟨t, kvs, hp, Or.inl ⟨by rw [h, h2], by rw [h, h1]⟩⟩
      · unfold expandAllV at hmid
        rw [bindE_ok_iff] at hmid
        obtain ⟨pss, hpss, hfl⟩ := hmid
        cases hfl
        rw [List.mem_flatten] at h
        obtain ⟨ps, hps, hpm⟩ := h
        obtain ⟨r, _, hr⟩ := mapE_ok_mem _ rs pss hpss ps hps
        exact ih _ _ _ _ _ hr p hpm
      · exact ⟨t, kvs, hp, Or.inr ⟨by rw [h, h2], by rw [h, h1]⟩⟩

theorem expandListV_good (tree : VTree) (fuel : Nat) (parents : List Name) (names : List Name)
    (vps : List (Mapping × String)) (h : expandListV vf W tree fuel parents names = .ok vps) :
    ∀ p, p ∈ vps → GoodPiece vf W p := by
  unfold expandListV at h
  rw [bindE_ok_iff] at h
  obtain ⟨rs, _, hmid⟩ := h
  unfold expandAllV at hmid
  rw [bindE_ok_iff] at hmid
  obtain ⟨pss, hpss, hfl⟩ := hmid
  cases hfl
  intro p h
  rw [List.mem_flatten] at h
  obtain ⟨ps, hps, hpm⟩ := h
  obtain ⟨r, _, hr⟩ := mapE_ok_mem _ rs pss hpss ps hps
  exact expandFileV_good vf W tree fuel _ _ _ _ _ hr p hpm

theorem good_sepFree (hver : VerOK vf) (p : Mapping × String) (h : GoodPiece vf W p) : SepFree p.2 := by
  obtain ⟨t, kvs, _, h | h⟩ := h
  · rw [h.1]; exact sepFree_append _ _ (hver.ver_sepFree t) sepFree_tag0
  · rw [h.1]; exact sepFree_append _ _ (hver.ver_sepFree t) sepFree_tag1

/-- the version of a good piece determines its data -/
theorem good_determines (hver : VerOK vf) (p q : Mapping × String) (hp : GoodPiece vf W p)
    (hq : GoodPiece vf W q) (hv : p.2 = q.2) : p.1 = q.1 := by
  obtain ⟨t, kvs, hpt, h1⟩ := hp
  obtain ⟨t', kvs', hpt', h2⟩ := hq
  rcases h1 with h1 | h1 <;> rcases h2 with h2 | h2
  · have : t = t' := hver.ver_inj _ _ (append_tag_inj _ _ TAG0 (by rw [← h1.1, ← h2.1, hv]))
    subst this; rw [hpt] at hpt'; cases hpt'; rw [h1.2, h2.2]
  · exact absurd (by rw [← h1.1, ← h2.1, hv]) (tag0_ne_tag1 (vf.ver t) (vf.ver t'))
  · exact absurd (by rw [← h1.1, ← h2.1, hv]) (tag0_ne_tag1 (vf.ver t') (vf.ver t))
  · have : t = t' := hver.ver_inj _ _ (append_tag_inj _ _ TAG1 (by rw [← h1.1, ← h2.1, hv]))
    subst this; rw [hpt] at hpt'; cases hpt'; rw [h1.2, h2.2]

theorem good_lists (hver : VerOK vf) (l1 l2 : List (Mapping × String))
    (h1 : ∀ p, p ∈ l1 → GoodPiece vf W p) (h2 : ∀ p, p ∈ l2 → GoodPiece vf W p)
    (hv : l1.map (·.2) = l2.map (·.2)) : l1.map (·.1) = l2.map (·.1) := by
  induction l1 generalizing l2 with
  | nil => cases l2 with
    | nil => rfl
    | cons b bs => simp at hv
  | cons a as ih =>
    cases l2 with
    | nil => simp at hv
    | cons b bs =>
      simp only [List.map_cons, List.cons.injEq] at hv ⊢
      exact ⟨good_determines vf W hver a b (h1 a List.mem_cons_self) (h2 b List.mem_cons_self) hv.1,
        ih bs (fun p hp => h1 p (List.mem_cons_of_mem _ hp)) (fun p hp => h2 p (List.mem_cons_of_mem _ hp)) hv.2⟩

end



section
variable (vf : VerFns) (W : World)

/-- `_process_top` without a cache -/
def pureTop (allowEmpty : Bool) (id pdv : String) : VTop → Except Err (Option (List Name) × String)
  | .missing => .error .topMissing
  | .renderError => .error .topRender
  | .text t => bindE (topOutcome allowEmpty (W.topParse t id pdv)) (fun d => .ok (d, vf.agg [vf.ver t, pdv]))

def expandTopV (tree : VTree) (fuel : Nat) : Option (List Name) → Except Err (List (Mapping × String))
  | none => .ok []
  | some ns => expandListV vf W tree fuel [TOPFILE] ns

/-- `compile_data` without any cache: data and version -/
def compileV (cfg : Cfg) (fuel : Nat) (id pdv : String) (top : VTop) (tree : VTree) :
    Except Err (Mapping × String) :=
  bindE (pureTop vf W cfg.allowEmptyTop id pdv top) fun te =>
  bindE (expandTopV vf W tree fuel te.1) fun vps =>
  bindE (foldMerge cfg [] (vps.map (·.1))) fun data =>
  .ok (data, vf.agg (vps.map (·.2)))

/-- **The invariant of a per-system cache item**: every cached part was computed from a text
(and, for the top entry, a preceding-data version) with the version it is stored under. It
does not mention the current tree: edits cannot invalidate it. -/
structure Valid (cfg : Cfg) (id : String) (item : Item) : Prop where
  top : ∀ d v, item.top = some (d, v) →
    ∃ t pdv, SepFree pdv ∧ v = vf.agg [vf.ver t, pdv] ∧
      topOutcome cfg.allowEmptyTop (W.topParse t id pdv) = .ok d
  files : OldOK vf W item.files
  result : ∀ d v, item.result = some (d, v) →
    ∃ vps : List (Mapping × String), (∀ p, p ∈ vps → GoodPiece vf W p) ∧ v = vf.agg (vps.map (·.2)) ∧
      foldMerge cfg [] (vps.map (·.1)) = .ok d

theorem valid_empty (cfg : Cfg) (id : String) : Valid vf W cfg id Item.empty := by
  refine ⟨?_, ?_, ?_⟩
  · intro d v h; simp [Item.empty] at h
  · intro n c h; simp [Item.empty, lookupFile] at h
  · intro d v h; simp [Item.empty] at h

theorem processTopC_eq (hver : VerOK vf) (cfg : Cfg) (id pdv : String) (hpdv : SepFree pdv) (item : Item)
    (hv : Valid vf W cfg id item) (top : VTop) :
    processTopC vf W cfg.allowEmptyTop id pdv item.top top = pureTop vf W cfg.allowEmptyTop id pdv top := by
  cases top with
  | missing => rfl
  | renderError => rfl
  | text t =>
    simp only [processTopC, pureTop]
    cases ht : item.top with
    | none => rfl
    | some dv =>
      obtain ⟨d, v⟩ := dv
      simp only []
      by_cases hveq : v = vf.agg [vf.ver t, pdv]
      · simp only [hveq, if_true]
        obtain ⟨t0, pdv0, hs0, hv0, hout⟩ := hv.top d v ht
        have hl : [vf.ver t0, pdv0] = [vf.ver t, pdv] := by
          apply hver.agg_inj
          · intro x hx; simp at hx; rcases hx with rfl | rfl
            · exact hver.ver_sepFree t0
            · exact hs0
          · intro x hx; simp at hx; rcases hx with rfl | rfl
            · exact hver.ver_sepFree t
            · exact hpdv
          · rw [← hv0, hveq]
        simp only [List.cons.injEq, and_true] at hl
        have ht0 : t0 = t := hver.ver_inj _ _ hl.1
        subst ht0
        rw [hl.2] at hout
        simp [hout, bindE]
      · simp [hveq]

theorem pureTop_ok (cfg : Cfg) (id pdv : String) (top : VTop) (te : Option (List Name) × String)
    (h : pureTop vf W cfg.allowEmptyTop id pdv top = .ok te) :
    ∃ t, te.2 = vf.agg [vf.ver t, pdv] ∧ topOutcome cfg.allowEmptyTop (W.topParse t id pdv) = .ok te.1 := by
  cases top with
  | missing => simp [pureTop] at h
  | renderError => simp [pureTop] at h
  | text t =>
    simp only [pureTop, bindE_ok_iff] at h
    obtain ⟨d, h1, h2⟩ := h
    cases h2
    exact ⟨t, rfl, h1⟩

theorem invSt_empty (tree : VTree) : InvSt vf W tree {} := by
  refine ⟨?_, ?_, ?_⟩
  · intro n c h; simp [lookupFile] at h
  · simp
  · intro n h; simp at h

theorem expandTopC_sim (hver : VerOK vf) (old : List (Name × CFile)) (hold : OldOK vf W old) (tree : VTree)
    (fuel : Nat) (o : Option (List Name)) :
    Sim (InvSt vf W tree) (expandTopV vf W tree fuel o) (expandTopC vf W old tree fuel o) := by
  cases o with
  | none => exact ⟨{}, rfl, invSt_empty vf W tree⟩
  | some ns => exact expandListC_sim vf W old tree hver hold fuel [TOPFILE] {} ns (invSt_empty vf W tree)

theorem expandTopV_good (tree : VTree) (fuel : Nat) (o : Option (List Name)) (vps : List (Mapping × String))
    (h : expandTopV vf W tree fuel o = .ok vps) : ∀ p, p ∈ vps → GoodPiece vf W p := by
  cases o with
  | none => simp [expandTopV] at h; subst h; intro p hp; cases hp
  | some ns => exact expandListV_good vf W tree fuel _ ns vps h

/-- what `compile_data` returns, and that it leaves a valid item -/
theorem compileC_spec (hver : VerOK vf) (cfg : Cfg) (fuel : Nat) (id pdv : String) (hpdv : SepFree pdv)
    (top : VTop) (tree : VTree) (old : Option Item) (hold : ∀ item, old = some item → Valid vf W cfg id item) :
    match compileV vf W cfg fuel id pdv top tree with
    | .error e => compileC vf W cfg fuel id pdv top tree old = .error e
    | .ok dv => ∃ r, compileC vf W cfg fuel id pdv top tree old = .ok r ∧ r.data = dv.1 ∧ r.version = dv.2 ∧
        Valid vf W cfg id r.item ∧ r.reads.Nodup := by
  have hval : Valid vf W cfg id (old.getD Item.empty) := by
    cases old with
    | none => exact valid_empty vf W cfg id
    | some item => exact hold item rfl
  unfold compileC compileV
  rw [processTopC_eq vf W hver cfg id pdv hpdv _ hval top]
  cases htop : pureTop vf W cfg.allowEmptyTop id pdv top with
  | error e => simp [bindE]
  | ok te =>
    simp only [bindE]
    have hsim := expandTopC_sim vf W hver (old.getD Item.empty).files hval.files tree fuel te.1
    cases hx : expandTopV vf W tree fuel te.1 with
    | error e =>
      rw [hx] at hsim
      simp only [Sim] at hsim
      simp [hsim]
    | ok vps =>
      rw [hx] at hsim
      obtain ⟨st, hc, hinv⟩ := hsim
      simp only [hc]
      have hgood := expandTopV_good vf W tree fuel te.1 vps hx
      obtain ⟨t, hte2, hte1⟩ := pureTop_ok vf W cfg id pdv top te htop
      -- the item built when the result has to be (re)computed
      have hnew : ∀ data, foldMerge cfg [] (vps.map (fun p => p.1)) = .ok data →
          Valid vf W cfg id ⟨some te, st.files, some (data, vf.agg (vps.map (fun p => p.2)))⟩ := by
        intro data hfm
        refine ⟨?_, ?_, ?_⟩
        · intro d v h
          simp only [Option.some.injEq] at h
          subst h
          exact ⟨t, pdv, hpdv, hte2, hte1⟩
        · intro n c hl
          obtain ⟨_, t', kvs, _, h2, h3, h4⟩ := hinv.1 n c hl
          exact ⟨t', kvs, h2, h3, h4⟩
        · intro d v h
          simp only [Option.some.injEq, Prod.mk.injEq] at h
          obtain ⟨rfl, rfl⟩ := h
          exact ⟨vps, hgood, rfl, hfm⟩
      unfold finish
      cases hfm : foldMerge cfg [] (vps.map (fun p => p.1)) with
      | error e =>
        simp only []
        cases hres : (old.getD Item.empty).result with
        | none => simp [bindE]
        | some dvo =>
          obtain ⟨d, v⟩ := dvo
          simp only []
          by_cases hveq : v = vf.agg (vps.map (fun p => p.2))
          · exfalso
            obtain ⟨vps0, hg0, hv0, hf0⟩ := hval.result d v hres
            have hl : vps0.map (·.2) = vps.map (·.2) := by
              apply hver.agg_inj
              · intro x hx; rw [List.mem_map] at hx; obtain ⟨p, hp, rfl⟩ := hx
                exact good_sepFree vf W hver p (hg0 p hp)
              · intro x hx; rw [List.mem_map] at hx; obtain ⟨p, hp, rfl⟩ := hx
                exact good_sepFree vf W hver p (hgood p hp)
              · rw [← hv0, hveq]
            have hd := good_lists vf W hver vps0 vps hg0 hgood hl
            rw [hd, hfm] at hf0
            cases hf0
          · simp [hveq, bindE]
      | ok data =>
        simp only []
        cases hres : (old.getD Item.empty).result with
        | none => exact ⟨_, rfl, rfl, rfl, hnew data hfm, hinv.2.1⟩
        | some dvo =>
          obtain ⟨d, v⟩ := dvo
          simp only []
          by_cases hveq : v = vf.agg (vps.map (fun p => p.2))
          · simp only [hveq, if_true]
            obtain ⟨vps0, hg0, hv0, hf0⟩ := hval.result d v hres
            have hl : vps0.map (·.2) = vps.map (·.2) := by
              apply hver.agg_inj
              · intro x hx; rw [List.mem_map] at hx; obtain ⟨p, hp, rfl⟩ := hx
                exact good_sepFree vf W hver p (hg0 p hp)
              · intro x hx; rw [List.mem_map] at hx; obtain ⟨p, hp, rfl⟩ := hx
                exact good_sepFree vf W hver p (hgood p hp)
              · rw [← hv0, hveq]
            have hd := good_lists vf W hver vps0 vps hg0 hgood hl
            rw [hd, hfm] at hf0
            cases hf0
            exact ⟨_, rfl, rfl, rfl, hval, hinv.2.1⟩
          · simp only [hveq, if_false, bindE]
            exact ⟨_, rfl, rfl, rfl, hnew data hfm, hinv.2.1⟩

end



theorem mapE_map {α β γ ε : Type} (g : β → Except ε γ) (h : α → β) (l : List α) :
    mapE g (l.map h) = mapE (fun a => g (h a)) l := by
  induction l with
  | nil => rfl
  | cons a as ih => simp only [List.map_cons, mapE, ih]

theorem mapE_bindE_ok {α β γ ε : Type} (g : α → Except ε β) (φ : β → γ) (l : List α) :
    mapE (fun a => bindE (g a) (fun b => .ok (φ b))) l = bindE (mapE g l) (fun bs => .ok (bs.map φ)) := by
  induction l with
  | nil => rfl
  | cons a as ih =>
    simp only [mapE, ih]
    cases g a with
    | error e => rfl
    | ok b =>
      simp only [bindE]
      cases mapE g as with
      | error e => rfl
      | ok bs => rfl

section
variable (vf : VerFns) (W : World)

/-- the parsed tree a call sees -/
def ptree (tree : VTree) : Tree := fun p => (tree p).map (parseNode W)

theorem resolveFile_ptree (tree : VTree) (name : Name) :
    resolveFile (ptree W tree) name =
      bindE (resolveFileV tree name) (fun r => .ok (r.1, parseNode W r.2)) := by
  unfold resolveFile resolveFileV ptree
  by_cases hp : pathOf name = []
  · simp [hp, bindE]
  · simp only [hp, if_false]
    cases h1 : tree (pathOf name) with
    | none =>
      simp only [Option.map_none]
      cases h2 : tree (pathOf name ++ ["init"]) with
      | none => simp [bindE]
      | some n => simp [bindE]
    | some n =>
      cases n with
      | dir =>
        simp only [Option.map_some, parseNode]
        cases h2 : tree (pathOf name ++ ["init"]) with
        | none => simp [bindE]
        | some n => cases n <;> simp [bindE, parseNode]
      | renderError => simp [parseNode, bindE]
      | text t => simp [parseNode, bindE]

theorem resolveAll_ptree (tree : VTree) (names : List Name) :
    resolveAll (ptree W tree) names =
      bindE (resolveAllV tree names) (fun rs => .ok (rs.map (fun r => (r.1, r.2.1, parseNode W r.2.2)))) := by
  unfold resolveAll resolveAllV
  have : (fun n => bindE (resolveFile (ptree W tree) n) (fun r => (.ok (n, r) : Except Err _))) =
      (fun n => bindE (bindE (resolveFileV tree n) (fun r => (.ok (n, r) : Except Err (Name × Name × VNode))))
        (fun r => .ok (r.1, r.2.1, parseNode W r.2.2))) := by
    funext n
    rw [resolveFile_ptree]
    cases resolveFileV tree n with
    | error e => rfl
    | ok r => rfl
  rw [this, mapE_bindE_ok]

theorem vpiecesOf_fst (pre post : Mapping) (mid : List (Mapping × String)) (fv : String) :
    (vpiecesOf pre mid post fv).map (·.1) = piecesOf pre (mid.map (·.1)) post := by
  unfold vpiecesOf piecesOf
  cases pre <;> cases post <;> simp

theorem expandFile_ptree (tree : VTree) (fuel : Nat) :
    ∀ (parents : List Name) (name res : Name) (node : VNode),
      expandFile fuel (ptree W tree) parents name res (parseNode W node) =
        bindE (expandFileV vf W tree fuel parents name res node) (fun vps => .ok (vps.map (·.1))) := by
  induction fuel with
  | zero => intro parents name res node; rfl
  | succ f ih =>
    intro parents name res node
    rw [expandFile.eq_def, expandFileV.eq_def]
    by_cases hc : name ∈ parents
    · simp [hc, bindE]
    · simp only [hc, if_false]
      cases node with
      | dir => simp [parseNode, loadPure, bindE]
      | renderError => simp [parseNode, loadPure, bindE]
      | text t =>
        simp only [parseNode, loadPure]
        cases hp : W.parse t with
        | error => simp [bindE]
        | nonMapping => simp [bindE]
        | mapping kvs =>
          simp only [bindE]
          cases hi : includeNames (processContent kvs).2.1 with
          | error e => rfl
          | ok incs =>
            simp only []
            cases hn : mapE (fun i => resolveRelative i res) incs with
            | error e => rfl
            | ok names =>
              simp only [resolveAll_ptree]
              cases hr : resolveAllV tree names with
              | error e => simp [bindE]
              | ok rs =>
                simp only [bindE]
                unfold expandAll expandAllV
                rw [mapE_map]
                have : (fun (a : Name × Name × VNode) =>
                    expandFile f (ptree W tree) (parents ++ [name]) a.1 a.2.1 (parseNode W a.2.2)) =
                    (fun a => bindE (expandFileV vf W tree f (parents ++ [name]) a.1 a.2.1 a.2.2)
                      (fun vps => .ok (vps.map (·.1)))) := by
                  funext a; exact ih _ _ _ _
                simp only [this, mapE_bindE_ok]
                cases mapE (fun (r : Name × Name × VNode) =>
                    expandFileV vf W tree f (parents ++ [name]) r.1 r.2.1 r.2.2) rs with
                | error e => rfl
                | ok pss =>
                  simp only [bindE, vpiecesOf_fst, List.map_flatten]

theorem expandList_ptree (tree : VTree) (fuel : Nat) (parents : List Name) (names : List Name) :
    expandList fuel (ptree W tree) parents names =
      bindE (expandListV vf W tree fuel parents names) (fun vps => .ok (vps.map (·.1))) := by
  unfold expandList expandListV
  rw [resolveAll_ptree]
  cases hr : resolveAllV tree names with
  | error e => rfl
  | ok rs =>
    simp only [bindE]
    unfold expandAll expandAllV
    rw [mapE_map]
    have : (fun (a : Name × Name × VNode) =>
        expandFile fuel (ptree W tree) parents a.1 a.2.1 (parseNode W a.2.2)) =
        (fun a => bindE (expandFileV vf W tree fuel parents a.1 a.2.1 a.2.2)
          (fun vps => .ok (vps.map (·.1)))) := by
      funext a; exact expandFile_ptree vf W tree fuel _ _ _ _
    simp only [this, mapE_bindE_ok]
    cases mapE (fun (r : Name × Name × VNode) => expandFileV vf W tree fuel parents r.1 r.2.1 r.2.2) rs with
    | error e => rfl
    | ok pss =>
      simp only [bindE, List.map_flatten]

/-- the top file a call sees, parsed -/
def topViewOf (id pdv : String) : VTop → TopView
  | .missing => .missing
  | .renderError => .renderError
  | .text t => .parsed (W.topParse t id pdv)

/-- T2: the data part of the cache-less versioned compilation is the C11 model -/
theorem compileV_data (cfg : Cfg) (fuel : Nat) (id pdv : String) (top : VTop) (tree : VTree) :
    compile cfg fuel (topViewOf W id pdv top) (ptree W tree) =
      bindE (compileV vf W cfg fuel id pdv top tree) (fun dv => .ok dv.1) := by
  unfold compile compileV
  cases top with
  | missing => rfl
  | renderError => rfl
  | text t =>
    simp only [topViewOf, processTop, pureTop]
    cases ht : topOutcome cfg.allowEmptyTop (W.topParse t id pdv) with
    | error e => rfl
    | ok o =>
      simp only [bindE]
      cases o with
      | none =>
        simp only [expandTop, expandTopV, List.map_nil]
        cases foldMerge cfg [] [] with
        | error e => rfl
        | ok d => rfl
      | some ns =>
        simp only [expandTop, expandTopV, expandList_ptree vf W]
        cases expandListV vf W tree fuel [TOPFILE] ns with
        | error e => rfl
        | ok vps =>
          simp only [bindE]
          cases foldMerge cfg [] (vps.map (·.1)) with
          | error e => rfl
          | ok d => rfl

end

end Vinegar.Yaml
