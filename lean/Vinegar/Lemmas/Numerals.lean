import Vinegar.Model.Tftp
/-
Decimal numerals of option values: `str(int(v)) == v` for every `v` accepted by
`[1-9][0-9]*`, and `int(str(n)) == n`. Built on Lean core's `Nat.toDigits` lemmas.
-/
namespace Vinegar.Tftp

theorem digit_toNat (c : Char) (h : isDigitC c = true) : 48 ≤ c.toNat ∧ c.toNat ≤ 57 := by
  simp only [isDigitC, Bool.and_eq_true, decide_eq_true_eq] at h
  have h1 : ('0' : Char).toNat ≤ c.toNat := h.1
  have h2 : c.toNat ≤ ('9' : Char).toNat := h.2
  exact ⟨h1, h2⟩

theorem digitChar_ofNat (n : Nat) (h : n < 10) : Nat.digitChar n = Char.ofNat (48 + n) := by
  match n, h with
  | 0, _ => rfl | 1, _ => rfl | 2, _ => rfl | 3, _ => rfl | 4, _ => rfl
  | 5, _ => rfl | 6, _ => rfl | 7, _ => rfl | 8, _ => rfl | 9, _ => rfl

theorem digitChar_of_digit (c : Char) (h : isDigitC c = true) : Nat.digitChar (c.toNat - 48) = c := by
  obtain ⟨h1, h2⟩ := digit_toNat c h
  rw [digitChar_ofNat _ (by omega)]
  have : 48 + (c.toNat - 48) = c.toNat := by omega
  rw [this]
  exact Char.ofNat_toNat c

theorem toDigits_ofDigitChars_acc : ∀ (cs : List Char) (n : Nat), cs.all isDigitC = true → 0 < n →
    Nat.toDigits 10 (Nat.ofDigitChars 10 cs n) = Nat.toDigits 10 n ++ cs := by
  intro cs
  induction cs with
  | nil => intro n _ _; simp
  | cons c cs ih =>
    intro n hall hn
    simp only [List.all_cons, Bool.and_eq_true] at hall
    obtain ⟨h1, h2⟩ := digit_toNat c hall.1
    rw [Nat.ofDigitChars_cons, ih _ hall.2 (by omega)]
    have hd : c.toNat - ('0' : Char).toNat < 10 := by
      have : ('0' : Char).toNat = 48 := rfl
      omega
    rw [← Nat.toDigits_append_toDigits (by decide) hn hd, Nat.toDigits_of_lt_base hd]
    have : ('0' : Char).toNat = 48 := rfl
    rw [this, digitChar_of_digit c hall.1]
    simp

/-- `str(int(v)) == v` for every `v` matching `[1-9][0-9]*` -/
theorem showNat_parseNat (v : List Char) (h : isPosInt v = true) : showNat (parseNat v) = v := by
  cases v with
  | nil => simp [isPosInt] at h
  | cons c cs =>
    simp only [isPosInt, Bool.and_eq_true, decide_eq_true_eq] at h
    obtain ⟨⟨hc1, hc2⟩, hcs⟩ := h
    have h1 : ('1' : Char).toNat ≤ c.toNat := hc1
    have h2 : c.toNat ≤ ('9' : Char).toNat := hc2
    have e1 : ('1' : Char).toNat = 49 := rfl
    have e9 : ('9' : Char).toNat = 57 := rfl
    have e0 : ('0' : Char).toNat = 48 := rfl
    have hdig : isDigitC c = true := by
      simp only [isDigitC, Bool.and_eq_true, decide_eq_true_eq]
      constructor
      · show ('0' : Char).toNat ≤ c.toNat
        omega
      · exact hc2
    unfold showNat parseNat
    rw [Nat.ofDigitChars_cons, toDigits_ofDigitChars_acc cs _ hcs (by omega)]
    rw [Nat.toDigits_of_lt_base (by omega)]
    simp only [Nat.mul_zero, Nat.zero_add, e0, digitChar_of_digit c hdig]
    simp

/-- `int(str(n)) == n` -/
theorem parseNat_showNat (n : Nat) : parseNat (showNat n) = n := by
  unfold parseNat showNat
  exact Nat.ofDigitChars_ten_toDigits

theorem parseNat_pos (v : List Char) (h : isPosInt v = true) : 0 < parseNat v := by
  have := showNat_parseNat v h
  cases hz : parseNat v with
  | zero =>
    rw [hz] at this
    have : v = ['0'] := by rw [← this]; rfl
    subst this
    simp [isPosInt] at h
  | succ k => omega

end Vinegar.Tftp
