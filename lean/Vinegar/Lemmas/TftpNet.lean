import Vinegar.Lemmas.TftpFlow
/-
Every event produced by the protocol phases is a network event (send / recv / timeout):
resources are closed, and exceptions logged, only by the frame around them.
-/
namespace Vinegar.Tftp
open Vinegar

def isNet : Obs → Bool
  | .send _ _ _ => true
  | .recv _ _ _ _ => true
  | .timeout _ => true
  | _ => false

theorem awaitAck_net (expect limit : Nat) :
    ∀ (s : List Ev) (now : Nat), (awaitAck expect limit now s).obs.all isNet = true := by
  intro s
  induction s with
  | nil => intro now; simp [awaitAck, isNet]
  | cons ev s ih =>
    intro now
    cases ev with
    | silence => simp [awaitAck, isNet]
    | pkt d cpu src data =>
      unfold awaitAck
      split
      · split
        · split
          · split
            · simp [isNet]
            · simp [isNet, ih]
          · simp [isNet]
          · simp [isNet]
        · simp [isNet, ih]
      · simp [isNet]

theorem sendWithRetry_net (env : Env) (packet : Bytes) (expect : Nat) :
    ∀ (tries now : Nat) (s : List Ev), (sendWithRetry env packet expect tries now s).obs.all isNet = true := by
  intro tries
  induction tries with
  | zero => intro now s; simp [sendWithRetry]
  | succ k ih =>
    intro now s
    rw [sendWithRetry_succ]
    have hA := awaitAck_net expect (now + env.timeout) s now
    generalize awaitAck expect (now + env.timeout) now s = r at hA
    cases hout : r.out <;> simp [isNet, hA, ih]

theorem sendData_net (env : Env) :
    ∀ (blocks : List (Option Bytes)) (prev now : Nat) (s : List Ev),
      (sendData env blocks prev now s).obs.all isNet = true := by
  intro blocks
  induction blocks with
  | nil => intro prev now s; simp [sendData]
  | cons blk blocks ih =>
    intro prev now s
    cases blk with
    | none => simp [sendData]
    | some b =>
      unfold sendData
      split
      · simp
      · rename_i n _
        simp only
        have hS := sendWithRetry_net env (dataPacket n b) n (env.maxRetries + 1) now s
        generalize sendWithRetry env (dataPacket n b) n (env.maxRetries + 1) now s = r at hS
        cases hout : r.out <;> simp [hS, ih]

theorem processRequest_net (env : Env) (oack : Opts) (blocks : List (Option Bytes)) (now : Nat) (s : List Ev) :
    (processRequest env oack blocks now s).obs.all isNet = true := by
  unfold processRequest
  split
  · exact sendData_net env blocks 0 now s
  · have hS := sendWithRetry_net env (oackPacket oack) 0 (env.maxRetries + 1) now s
    generalize sendWithRetry env (oackPacket oack) 0 (env.maxRetries + 1) now s = r at hS
    cases hout : r.out <;> simp [hout, hS, sendData_net]

theorem countObs_net (p : Obs → Bool) (hp : ∀ o, isNet o = true → p o = false) (l : List Obs)
    (hl : l.all isNet = true) : countObs p l = 0 := by
  unfold countObs
  rw [List.length_eq_zero_iff, List.filter_eq_nil_iff]
  intro o ho
  have := List.all_eq_true.mp hl o ho
  simp [hp o this]

end Vinegar.Tftp
