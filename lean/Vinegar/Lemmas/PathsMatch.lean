import Vinegar.Lemmas.PathsStr
/-
What the constructor establishes about `request_path`, and the characterisation of
`_prepare_context` by a decomposition of the decoded path into segments.
-/
namespace Vinegar.Paths
open Vinegar Vinegar.Paths.Spec

/-- what a successful `_init_request_path` guarantees -/
structure Decomposed (cfg : Cfg) (h : Handler) : Prop where
  cfg_eq : h.cfg = cfg
  head : cfg.requestPath.head? = some '/'
  plain : truthy cfg.lookupKey = false →
    h.extract = false ∧ h.prefixSegs = splitOn '/' (effPath cfg.requestPath)
  lookup : truthy cfg.lookupKey = true →
    h.extract = true ∧ cfg.placeholder ≠ [] ∧
    splitOn '/' (effPath cfg.requestPath)
      = h.prefixSegs ++ (h.segPre ++ cfg.placeholder ++ h.segSuf) :: h.suffixSegs ∧
    (∀ s ∈ h.prefixSegs, hasSub cfg.placeholder s = false) ∧
    (∀ v, substFirst cfg.placeholder v (h.segPre ++ cfg.placeholder ++ h.segSuf)
      = some (h.segPre ++ v ++ h.segSuf))

theorem initRequestPath_ok (cfg : Cfg) (h : Handler) (hh : initRequestPath cfg = .ok h) :
    Decomposed cfg h := by
  unfold initRequestPath at hh
  simp only [show (if cfg.requestPath = ['/'] then ([] : Str) else cfg.requestPath)
    = effPath cfg.requestPath from rfl] at hh
  generalize heff : effPath cfg.requestPath = eff at hh
  split at hh
  · exact absurd hh (by simp)
  · rename_i hhead
    have hhead' : cfg.requestPath.head? = some '/' := by simpa using hhead
    split at hh
    · exact absurd hh (by simp)
    · split at hh
      · rename_i hlk
        split at hh
        · rename_i i hps
          split at hh
          · exact absurd hh (by simp)
          · rename_i pre suf hso
            split at hh
            · exact absurd hh (by simp)
            · rename_i hcond
              simp only [Except.ok.injEq] at hh
              subst hh
              simp only [Bool.or_eq_true, not_or, Bool.not_eq_true] at hcond
              obtain ⟨hphne, hsuf⟩ := hcond
              have hph : cfg.placeholder ≠ [] := by
                intro e; rw [e] at hphne; simp at hphne
              obtain ⟨A, seg, B, h1, h2, h3, h4⟩ := placeholderSegs_single _ _ 0 i hps
              have hi : i = A.length := by omega
              have hget : (splitOn '/' eff).getD i [] = seg := by
                rw [h1, hi]; simp
              rw [hget] at hso
              obtain ⟨hsegeq, hsub⟩ := splitOnce_spec _ _ _ _ hph hso
              refine ⟨rfl, hhead', fun hn => by rw [hlk] at hn; exact absurd hn (by simp), fun _ => ?_⟩
              refine ⟨rfl, hph, ?_, ?_, ?_⟩
              · rw [heff]
                show splitOn '/' eff = _
                rw [h1, hi]
                simp [hsegeq]
              · intro s hs
                apply h3
                rw [h1, hi] at hs
                simpa using hs
              · intro v; rw [← hsegeq]; exact hsub v
        · exact absurd hh (by simp)
      · rename_i hlk
        simp only [Except.ok.injEq] at hh
        subst hh
        have hlk' : truthy cfg.lookupKey = false := by simpa using hlk
        exact ⟨rfl, hhead', fun _ => ⟨rfl, by rw [heff]⟩, fun hy => by rw [hlk'] at hy; exact absurd hy (by simp)⟩

theorem initHandler_ok (cfg : Cfg) (h : Handler) (hh : initHandler cfg = .ok h) :
    Decomposed cfg h ∧ (truthy cfg.file = !truthy cfg.rootDir) ∧
    (cfg.tftp = true → ¬ (cfg.requestPath = ['/'] ∧ truthy cfg.file = true)) := by
  unfold initHandler at hh
  split at hh
  · exact absurd hh (by simp)
  split at hh
  · exact absurd hh (by simp)
  split at hh
  · exact absurd hh (by simp)
  split at hh
  · exact absurd hh (by simp)
  split at hh
  · exact absurd hh (by simp)
  split at hh
  · exact absurd hh (by simp)
  split at hh
  · exact absurd hh (by simp)
  rename_i h' hinit
  split at hh
  · exact absurd hh (by simp)
  split at hh
  · exact absurd hh (by simp)
  simp only [Except.ok.injEq] at hh
  subst hh
  rename_i h1 h2 h3 h4 h5 h6 h7 h8
  refine ⟨initRequestPath_ok cfg h' hinit, ?_, ?_⟩
  · cases hf : truthy cfg.file <;> cases hr : truthy cfg.rootDir <;> simp_all
  · intro ht hc
    simp_all

/-! ### `_prepare_context` as a decomposition of the decoded path -/

/-- mode condition on the segments that are left after the configured path -/
def RestOK (h : Handler) (R : List Str) : Prop :=
  (R ≠ [] ∧ h.fileMode = false) ∨ (R = [] ∧ h.dirMode = false)

/-- the remaining path the context records for the left-over segments -/
def extraOfRest (R : List Str) : Option Str :=
  if R = [] then none else some (joinWith ['/'] ([] :: R))

theorem finish_spec (h : Handler) (raw : Option Str) (R : List Str) :
    ((finish h raw R).isMatch = true ↔ RestOK h R) ∧
    ((finish h raw R).isMatch = true → (finish h raw R).rawValue = raw ∧ (finish h raw R).extraPath = extraOfRest R) := by
  unfold finish RestOK extraOfRest
  cases R with
  | nil =>
    cases hd : h.dirMode <;> simp [noMatch, hd]
  | cons r rs =>
    cases hf : h.fileMode <;> simp [noMatch, hf]

theorem seg_decomp (pre suf seg : Str) (hp : pre.isPrefixOf seg = true) (hs : suf.isSuffixOf seg = true)
    (hraw : (seg.drop pre.length).take ((seg.drop pre.length).length - suf.length) ≠ []) :
    seg = pre ++ (seg.drop pre.length).take ((seg.drop pre.length).length - suf.length) ++ suf := by
  obtain ⟨x, rfl⟩ := List.isPrefixOf_iff_prefix.mp hp
  obtain ⟨t, ht⟩ := List.isSuffixOf_iff_suffix.mp hs
  have hx : (pre ++ x).drop pre.length = x := by simp
  rw [hx] at hraw ⊢
  have hlt : suf.length < x.length := by
    rcases Nat.lt_or_ge suf.length x.length with hlt | hge
    · exact hlt
    · exfalso; apply hraw
      have : x.length - suf.length = 0 := by omega
      rw [this]; simp
  rcases List.append_eq_append_iff.mp ht with ⟨a', h1, h2⟩ | ⟨c', h1, h2⟩
  · exfalso
    have : suf.length = a'.length + x.length := by rw [h2]; simp
    omega
  · have : x.take (x.length - suf.length) = c' := by
      rw [h2]; simp
    rw [this, h2]; simp

theorem seg_compose (pre suf v : Str) :
    pre.isPrefixOf (pre ++ v ++ suf) = true ∧ suf.isSuffixOf (pre ++ v ++ suf) = true ∧
    ((pre ++ v ++ suf).drop pre.length).take (((pre ++ v ++ suf).drop pre.length).length - suf.length) = v := by
  refine ⟨?_, ?_, ?_⟩
  · rw [List.isPrefixOf_iff_prefix]; exact ⟨v ++ suf, by simp⟩
  · rw [List.isSuffixOf_iff_suffix]; exact ⟨pre ++ v, by simp⟩
  · have : (pre ++ v ++ suf).drop pre.length = v ++ suf := by simp [List.append_assoc]
    rw [this]; simp

/-- without a placeholder: accepted iff the decoded path's segments start with the configured ones -/
theorem matchSegs_plain (h : Handler) (segs : List Str) (hex : h.extract = false) :
    ((matchSegs h segs).isMatch = true ↔ ∃ R, segs = h.prefixSegs ++ R ∧ RestOK h R) ∧
    (∀ R, segs = h.prefixSegs ++ R → RestOK h R →
      (matchSegs h segs).rawValue = none ∧ (matchSegs h segs).extraPath = extraOfRest R) := by
  unfold matchSegs
  cases hs : stripSegs h.prefixSegs segs with
  | none =>
    simp only [noMatch, Bool.false_eq_true, false_iff, not_exists, not_and]
    constructor
    · intro R hR
      have := (stripSegs_eq_some _ _ R).mpr hR
      rw [hs] at this; exact absurd this (by simp)
    · intro R hR
      have := (stripSegs_eq_some _ _ R).mpr hR
      rw [hs] at this; exact absurd this (by simp)
  | some rest =>
    have hR := (stripSegs_eq_some _ _ _).mp hs
    simp only [hex, Bool.false_eq_true, if_false]
    obtain ⟨f1, f2⟩ := finish_spec h none rest
    constructor
    · rw [f1]
      constructor
      · intro hr; exact ⟨rest, hR, hr⟩
      · rintro ⟨R, hR', hr⟩
        rw [hR] at hR'
        have := List.append_cancel_left hR'
        rw [this]; exact hr
    · intro R hR' hr
      rw [hR] at hR'
      have := List.append_cancel_left hR'
      subst this
      exact f2 (f1.mpr hr)

/-- with a placeholder: accepted iff the segments are prefix ++ [pre ++ v ++ suf] ++ suffix ++ rest, v ≠ "" -/
theorem matchSegs_lookup (h : Handler) (segs : List Str) (hex : h.extract = true) :
    ((matchSegs h segs).isMatch = true ↔
      ∃ v R, v ≠ [] ∧ segs = h.prefixSegs ++ (h.segPre ++ v ++ h.segSuf) :: (h.suffixSegs ++ R) ∧ RestOK h R) ∧
    (∀ v R, v ≠ [] → segs = h.prefixSegs ++ (h.segPre ++ v ++ h.segSuf) :: (h.suffixSegs ++ R) → RestOK h R →
      (matchSegs h segs).rawValue = some v ∧ (matchSegs h segs).extraPath = extraOfRest R) := by
  have key : ∀ v R, v ≠ [] → segs = h.prefixSegs ++ (h.segPre ++ v ++ h.segSuf) :: (h.suffixSegs ++ R) →
      matchSegs h segs = finish h (some v) R := by
    intro v R hv hsplit
    unfold matchSegs
    have h1 := (stripSegs_eq_some h.prefixSegs segs _).mpr hsplit
    rw [h1]
    simp only [hex, if_true]
    obtain ⟨c1, c2, c3⟩ := seg_compose h.segPre h.segSuf v
    simp only [c1, c2, Bool.and_self, Bool.not_true, Bool.false_eq_true, if_false]
    have h2 := (stripSegs_eq_some h.suffixSegs (h.suffixSegs ++ R) R).mpr rfl
    rw [h2]
    simp only [c3]
    have : v.isEmpty = false := by cases v <;> simp_all
    simp [this]
  constructor
  · constructor
    · intro hm
      unfold matchSegs at hm
      cases hs : stripSegs h.prefixSegs segs with
      | none => rw [hs] at hm; simp [noMatch] at hm
      | some rest =>
        rw [hs] at hm
        have hR := (stripSegs_eq_some _ _ _).mp hs
        simp only [hex, if_true] at hm
        cases rest with
        | nil => simp [noMatch] at hm
        | cons seg rest' =>
          simp only at hm
          split at hm
          · simp [noMatch] at hm
          · rename_i hps
            simp only [Bool.not_eq_true', Bool.not_eq_false, Bool.and_eq_true] at hps
            cases hs2 : stripSegs h.suffixSegs rest' with
            | none => rw [hs2] at hm; simp [noMatch] at hm
            | some rest'' =>
              rw [hs2] at hm
              have hR2 := (stripSegs_eq_some _ _ _).mp hs2
              simp only at hm
              split at hm
              · simp [noMatch] at hm
              · rename_i hraw
                have hraw' : (seg.drop h.segPre.length).take ((seg.drop h.segPre.length).length - h.segSuf.length) ≠ [] := by
                  intro e; apply hraw; rw [e]; rfl
                have hseg := seg_decomp h.segPre h.segSuf seg hps.1 hps.2 hraw'
                refine ⟨_, rest'', hraw', ?_, ((finish_spec h _ rest'').1).mp hm⟩
                rw [hR, hR2, ← hseg]
    · rintro ⟨v, R, hv, hsplit, hr⟩
      rw [key v R hv hsplit]
      exact ((finish_spec h (some v) R).1).mpr hr
  · intro v R hv hsplit hr
    rw [key v R hv hsplit]
    exact (finish_spec h (some v) R).2 (((finish_spec h (some v) R).1).mpr hr)

end Vinegar.Paths
