import Vinegar.Spec.Sqlite
/-
Helper lemmas for C15: the BINARY-collation order, the association list as a map
(lookup after set / delete / delete-all), preservation of the primary-key order, the ordered
query results, and the equivalence of the Bool checkers with the Prop specifications.
-/
namespace Vinegar.Sqlite

/-! ### order -/

theorem ltStr_irrefl : ∀ a, ltStr a a = false
  | [] => rfl
  | x :: xs => by simp [ltStr, ltStr_irrefl xs]

theorem ltStr_trans : ∀ a b c, ltStr a b = true → ltStr b c = true → ltStr a c = true
  | [], [], _, h, _ => by simp [ltStr] at h
  | [], _ :: _, [], _, h => by simp [ltStr] at h
  | [], _ :: _, _ :: _, _, _ => by simp [ltStr]
  | _ :: _, [], _, h, _ => by simp [ltStr] at h
  | _ :: _, _ :: _, [], _, h => by simp [ltStr] at h
  | x :: xs, y :: ys, z :: zs, h1, h2 => by
    simp only [ltStr, Bool.or_eq_true, Bool.and_eq_true, decide_eq_true_eq, beq_iff_eq] at *
    rcases h1 with h1 | ⟨e1, h1⟩ <;> rcases h2 with h2 | ⟨e2, h2⟩
    · left; omega
    · left; omega
    · left; omega
    · right; exact ⟨by omega, ltStr_trans xs ys zs h1 h2⟩

theorem ltStr_total : ∀ a b, a ≠ b → ltStr a b = true ∨ ltStr b a = true
  | [], [], h => by simp at h
  | [], _ :: _, _ => by simp [ltStr]
  | _ :: _, [], _ => by simp [ltStr]
  | x :: xs, y :: ys, h => by
    simp only [ltStr, Bool.or_eq_true, Bool.and_eq_true, decide_eq_true_eq, beq_iff_eq]
    by_cases hxy : x = y
    · subst hxy
      have : xs ≠ ys := fun e => h (by rw [e])
      rcases ltStr_total xs ys this with h' | h'
      · left; right; exact ⟨rfl, h'⟩
      · right; right; exact ⟨rfl, h'⟩
    · rcases Nat.lt_or_gt_of_ne hxy with h' | h'
      · left; left; exact h'
      · right; left; exact h'

theorem ltStr_ne {a b : Str} (h : ltStr a b = true) : a ≠ b := by
  intro e; subst e; rw [ltStr_irrefl] at h; cases h

theorem ltKey_irrefl (a : Key) : ltKey a a = false := by
  simp [ltKey, ltStr_irrefl]

theorem ltKey_trans {a b c : Key} (h1 : ltKey a b = true) (h2 : ltKey b c = true) : ltKey a c = true := by
  simp only [ltKey, Bool.or_eq_true, Bool.and_eq_true, beq_iff_eq] at *
  rcases h1 with h1 | ⟨e1, h1⟩ <;> rcases h2 with h2 | ⟨e2, h2⟩
  · left; exact ltStr_trans _ _ _ h1 h2
  · left; rw [← e2]; exact h1
  · left; rw [e1]; exact h2
  · right; exact ⟨e1.trans e2, ltStr_trans _ _ _ h1 h2⟩

theorem ltKey_total {a b : Key} (h : a ≠ b) : ltKey a b = true ∨ ltKey b a = true := by
  obtain ⟨a1, a2⟩ := a
  obtain ⟨b1, b2⟩ := b
  simp only [ltKey, Bool.or_eq_true, Bool.and_eq_true, beq_iff_eq]
  by_cases h1 : a1 = b1
  · subst h1
    have : a2 ≠ b2 := fun e => h (by rw [e])
    rcases ltStr_total a2 b2 this with h' | h'
    · left; right; exact ⟨rfl, h'⟩
    · right; right; exact ⟨rfl, h'⟩
  · rcases ltStr_total a1 b1 h1 with h' | h'
    · left; left; exact h'
    · right; left; exact h'

theorem ltKey_ne {a b : Key} (h : ltKey a b = true) : a ≠ b := by
  intro e; subst e; rw [ltKey_irrefl] at h; cases h

/-! ### the association list as a map -/

theorem lookup_dbSet (k : Key) (t : Str) (k' : Key) :
    ∀ db, lookup k' (dbSet k t db) = if k' = k then some t else lookup k' db
  | [] => by
    simp only [dbSet, lookup]
    by_cases h : k = k'
    · subst h; simp
    · have : ¬ k' = k := fun e => h e.symm
      simp [h, this]
  | (k0, t0) :: r => by
    simp only [dbSet]
    split
    · rename_i h0
      subst h0
      simp only [lookup]
      by_cases h : k0 = k'
      · subst h; simp
      · have : ¬ k' = k0 := fun e => h e.symm
        simp [h, this]
    · rename_i h0
      split
      · simp only [lookup]
        by_cases h : k = k'
        · subst h; simp
        · have : ¬ k' = k := fun e => h e.symm
          simp [h, this]
      · simp only [lookup, lookup_dbSet k t k' r]
        by_cases h : k0 = k'
        · subst h; simp [h0]
        · simp [h]

theorem lookup_filter (p : Key × Str → Bool) (k' : Key) (hp : ∀ e e' : Key × Str, e.1 = e'.1 → p e = p e') :
    ∀ db : Db, lookup k' (db.filter p) = match lookup k' db with
      | some t => if p (k', t) then some t else none
      | none => none
  | [] => by simp [lookup]
  | (k0, t0) :: r => by
    by_cases hk : k0 = k'
    · subst hk
      by_cases hp0 : p (k0, t0) = true
      · simp [List.filter, hp0, lookup]
      · have hp0' : p (k0, t0) = false := by simpa using hp0
        simp only [List.filter, hp0', lookup, if_true]
        rw [lookup_filter p k0 hp r]
        cases hl : lookup k0 r with
        | none => simp
        | some t =>
          have : p (k0, t) = false := by rw [← hp0']; exact hp _ _ rfl
          simp [this]
    · by_cases hp0 : p (k0, t0) = true
      · simp [List.filter, hp0, lookup, hk, lookup_filter p k' hp r]
      · have hp0' : p (k0, t0) = false := by simpa using hp0
        simp [List.filter, hp0', lookup, hk, lookup_filter p k' hp r]

theorem lookup_dbDel (k k' : Key) (db : Db) :
    lookup k' (dbDel k db) = if k' = k then none else lookup k' db := by
  unfold dbDel
  rw [lookup_filter _ k' (by intro e e' h; simp [h]) db]
  cases lookup k' db <;> by_cases h : k' = k <;> simp [h]

theorem lookup_dbDelSid (s : Str) (k' : Key) (db : Db) :
    lookup k' (dbDelSid s db) = if k'.1 = s then none else lookup k' db := by
  unfold dbDelSid
  rw [lookup_filter _ k' (by intro e e' h; simp [h]) db]
  cases lookup k' db <;> by_cases h : k'.1 = s <;> simp [h]

/-- **refinement of one write**: the map after a write is the function update of the map before -/
theorem abs_applyIntent (i : Intent) (db : Db) : abs (applyIntent i db) = aApply i (abs db) := by
  funext k'
  cases i with
  | nothing => rfl
  | set k t => simp [abs, applyIntent, aApply, lookup_dbSet]
  | del k => simp [abs, applyIntent, aApply, lookup_dbDel]
  | delSid s => simp [abs, applyIntent, aApply, lookup_dbDelSid]

theorem lookup_some_mem {k : Key} {t : Str} : ∀ {db : Db}, lookup k db = some t → (k, t) ∈ db
  | [], h => by simp [lookup] at h
  | (k0, t0) :: r, h => by
    simp only [lookup] at h
    split at h
    · rename_i e; subst e; cases h; simp
    · exact List.mem_cons_of_mem _ (lookup_some_mem h)

theorem lookup_isSome_of_mem {e : Key × Str} : ∀ {db : Db}, e ∈ db → ∃ t, lookup e.1 db = some t
  | [], h => by cases h
  | (k0, t0) :: r, h => by
    simp only [lookup]
    by_cases hk : k0 = e.1
    · exact ⟨t0, by simp [hk]⟩
    · simp only [hk, if_false]
      rcases List.mem_cons.mp h with h | h
      · subst h; exact absurd rfl hk
      · exact lookup_isSome_of_mem h

theorem lookup_none_of_not_mem {k : Key} : ∀ {db : Db}, k ∉ keysOf db → lookup k db = none
  | [], _ => rfl
  | (k0, t0) :: r, h => by
    simp only [keysOf, List.map_cons, List.mem_cons, not_or] at h
    simp only [lookup]
    have : ¬ k0 = k := fun e => h.1 e.symm
    simp only [this, if_false]
    exact lookup_none_of_not_mem (by simpa [keysOf] using h.2)

/-- in a map in primary-key order every entry is THE entry of its key -/
theorem mem_iff_lookup {db : Db} (hs : Sorted db) (e : Key × Str) : e ∈ db ↔ lookup e.1 db = some e.2 := by
  constructor
  · intro h
    induction db with
    | nil => cases h
    | cons a r ih =>
      obtain ⟨k0, t0⟩ := a
      have hs' := List.pairwise_cons.mp hs
      rcases List.mem_cons.mp h with h | h
      · subst h; simp [lookup]
      · have hne : k0 ≠ e.1 := ltKey_ne (hs'.1 e h)
        simp only [lookup, hne, if_false]
        exact ih hs'.2 h
  · intro h
    exact lookup_some_mem h

/-! ### the order is preserved -/

theorem mem_dbSet {k : Key} {t : Str} {e : Key × Str} : ∀ {db : Db}, e ∈ dbSet k t db → e = (k, t) ∨ e ∈ db
  | [], h => by simp [dbSet] at h; exact Or.inl h
  | (k0, t0) :: r, h => by
    simp only [dbSet] at h
    split at h
    · rcases List.mem_cons.mp h with h | h
      · exact Or.inl h
      · exact Or.inr (List.mem_cons_of_mem _ h)
    · split at h
      · rcases List.mem_cons.mp h with h | h
        · exact Or.inl h
        · exact Or.inr h
      · rcases List.mem_cons.mp h with h | h
        · exact Or.inr (by rw [h]; exact List.mem_cons_self)
        · rcases mem_dbSet h with h | h
          · exact Or.inl h
          · exact Or.inr (List.mem_cons_of_mem _ h)

theorem sorted_dbSet (k : Key) (t : Str) : ∀ {db : Db}, Sorted db → Sorted (dbSet k t db)
  | [], _ => by simp [dbSet, Sorted]
  | (k0, t0) :: r, hs => by
    have hs' := List.pairwise_cons.mp hs
    simp only [dbSet]
    split
    · rename_i h0
      subst h0
      exact List.pairwise_cons.mpr ⟨hs'.1, hs'.2⟩
    · rename_i h0
      split
      · rename_i hlt
        refine List.pairwise_cons.mpr ⟨?_, hs⟩
        intro e he
        rcases List.mem_cons.mp he with he | he
        · subst he; exact hlt
        · exact ltKey_trans hlt (hs'.1 e he)
      · rename_i hlt
        have hgt : ltKey k0 k = true := by
          rcases ltKey_total (a := k0) (b := k) h0 with h | h
          · exact h
          · exact absurd h hlt
        refine List.pairwise_cons.mpr ⟨?_, sorted_dbSet k t hs'.2⟩
        intro e he
        rcases mem_dbSet he with he | he
        · subst he; exact hgt
        · exact hs'.1 e he

theorem sorted_applyIntent (i : Intent) {db : Db} (hs : Sorted db) : Sorted (applyIntent i db) := by
  cases i with
  | nothing => exact hs
  | set k t => exact sorted_dbSet k t hs
  | del k => exact List.Pairwise.filter _ hs
  | delSid s => exact List.Pairwise.filter _ hs

/-! ### ordered query results of the model -/

theorem find_spec' {db : Db} (hs : Sorted db) (key t : Str) : FindSpec (abs db) key t (dbFind key t db) := by
  constructor
  · unfold StrictSorted dbFind
    rw [List.pairwise_map]
    have h1 := List.Pairwise.filter (fun e : Key × Str => decide (e.1.2 = key ∧ e.2 = t)) hs
    refine List.Pairwise.imp_of_mem ?_ h1
    intro a b ha hb hab
    have pa := (List.mem_filter.mp ha).2
    have pb := (List.mem_filter.mp hb).2
    simp only [decide_eq_true_eq] at pa pb
    simp only [ltKey, Bool.or_eq_true, Bool.and_eq_true, beq_iff_eq] at hab
    rcases hab with h | ⟨_, h⟩
    · exact h
    · rw [pa.1, pb.1, ltStr_irrefl] at h; cases h
  · intro s
    simp only [dbFind, List.mem_map, List.mem_filter, abs, decide_eq_true_eq]
    constructor
    · rintro ⟨e, ⟨he, hp1, hp2⟩, rfl⟩
      have := (mem_iff_lookup hs e).mp he
      rw [← hp1, ← hp2]; exact this
    · intro h
      exact ⟨((s, key), t), ⟨lookup_some_mem h, rfl, rfl⟩, rfl⟩

theorem getData_spec' {db : Db} (hs : Sorted db) (sid : Str) : GetDataSpec (abs db) sid (dbGetData sid db) := by
  constructor
  · unfold StrictSorted dbGetData
    rw [List.map_map, List.pairwise_map]
    have h1 := List.Pairwise.filter (fun e : Key × Str => decide (e.1.1 = sid)) hs
    refine List.Pairwise.imp_of_mem ?_ h1
    intro a b ha hb hab
    have pa := (List.mem_filter.mp ha).2
    have pb := (List.mem_filter.mp hb).2
    simp only [decide_eq_true_eq] at pa pb
    simp only [ltKey, Bool.or_eq_true, Bool.and_eq_true, beq_iff_eq] at hab
    rcases hab with h | ⟨_, h⟩
    · rw [pa, pb, ltStr_irrefl] at h; cases h
    · exact h
  · intro k t
    simp only [dbGetData, List.mem_map, List.mem_filter, abs, decide_eq_true_eq]
    constructor
    · rintro ⟨e, ⟨he, hp⟩, heq⟩
      have := (mem_iff_lookup hs e).mp he
      cases heq
      rw [← hp]; exact this
    · intro h
      exact ⟨((sid, k), t), ⟨lookup_some_mem h, rfl⟩, rfl⟩

theorem mem_dedupAdj : ∀ (l : List Str) (s : Str), s ∈ dedupAdj l ↔ s ∈ l
  | [], s => by simp [dedupAdj]
  | [a], s => by simp [dedupAdj]
  | a :: b :: r, s => by
    simp only [dedupAdj]
    split
    · rename_i h; subst h; rw [mem_dedupAdj (a :: r) s]; simp
    · simp [mem_dedupAdj (b :: r) s]

/-- non-strict order -/
def leStr (a b : Str) : Prop := ltStr a b = true ∨ a = b

theorem strict_dedupAdj : ∀ l : List Str, l.Pairwise leStr → StrictSorted (dedupAdj l)
  | [], _ => by simp [dedupAdj, StrictSorted]
  | [a], _ => by simp [dedupAdj, StrictSorted]
  | a :: b :: r, hp => by
    have hp' := List.pairwise_cons.mp hp
    simp only [dedupAdj]
    split
    · exact strict_dedupAdj (b :: r) hp'.2
    · rename_i hab
      have hbr := List.pairwise_cons.mp hp'.2
      have hltab : ltStr a b = true := by
        rcases hp'.1 b (by simp) with h | h
        · exact h
        · exact absurd h hab
      refine List.pairwise_cons.mpr ⟨?_, strict_dedupAdj (b :: r) hp'.2⟩
      intro x hx
      rw [mem_dedupAdj] at hx
      rcases List.mem_cons.mp hx with hx | hx
      · subst hx; exact hltab
      · rcases hbr.1 x hx with h | h
        · exact ltStr_trans _ _ _ hltab h
        · subst h; exact hltab

theorem list_spec' {db : Db} (hs : Sorted db) : ListSpec (abs db) (dbList db) := by
  constructor
  · unfold dbList
    apply strict_dedupAdj
    rw [List.pairwise_map]
    refine List.Pairwise.imp ?_ hs
    intro a b hab
    simp only [ltKey, Bool.or_eq_true, Bool.and_eq_true, beq_iff_eq] at hab
    rcases hab with h | ⟨h, _⟩
    · exact Or.inl h
    · exact Or.inr h
  · intro s
    simp only [dbList, mem_dedupAdj, List.mem_map, abs]
    constructor
    · rintro ⟨e, he, rfl⟩
      obtain ⟨t, ht⟩ := lookup_isSome_of_mem he
      exact ⟨e.1.2, t, ht⟩
    · rintro ⟨k, t, h⟩
      exact ⟨((s, k), t), lookup_some_mem h, rfl⟩

/-- `find_system`: exactly one match ⇒ that system, otherwise `None` -/
theorem unique_of_find {m : AMap} {key t : Str} {l : List Str} (h : FindSpec m key t l) :
    UniqueSpec m key t (onlyOne l) := by
  intro s
  unfold onlyOne
  match l, h with
  | [], h =>
    simp only [reduceCtorEq, false_iff, not_and]
    intro hm
    exact absurd ((h.2 s).mpr hm) (by simp)
  | [a], h =>
    simp only [Option.some.injEq]
    constructor
    · intro e; subst e
      refine ⟨(h.2 a).mp (by simp), ?_⟩
      intro s' hs'
      simpa using (h.2 s').mpr hs'
    · rintro ⟨hm, _⟩
      have := (h.2 s).mpr hm
      simpa [eq_comm] using this
  | a :: b :: r, h =>
    simp only [reduceCtorEq, false_iff, not_and]
    intro _ hu
    have ha := hu a ((h.2 a).mp (by simp))
    have hb := hu b ((h.2 b).mp (by simp))
    have hlt : ltStr a b = true := (List.pairwise_cons.mp h.1).1 b (by simp)
    exact ltStr_ne hlt (ha.trans hb.symm)

/-! ### every result of the model is the one the abstract map prescribes -/

theorem storeResult_ok {db : Db} (hs : Sorted db) (strict : Bool) (op : StoreOp) :
    StoreResOK strict op (abs db) (storeResult strict op db) := by
  cases op with
  | setValue sid key v =>
    simp only [StoreResOK, storeResult]
    cases setDecision strict sid key v <;> rfl
  | deleteValue sid key => simp only [StoreResOK, storeResult]
  | deleteData sid => simp only [StoreResOK, storeResult]
  | getValue sid key =>
    simp only [StoreResOK, storeResult, abs]
    split <;> rfl
  | getData sid =>
    simp only [StoreResOK, storeResult]
    split
    · exact ⟨_, rfl, getData_spec' hs sid⟩
    · rfl
  | findSystems key v =>
    simp only [StoreResOK, storeResult]
    cases dumps v with
    | error e => rfl
    | ok t =>
      simp only
      split
      · exact ⟨_, rfl, find_spec' hs key t⟩
      · rfl
  | listSystems =>
    simp only [StoreResOK, storeResult]
    exact ⟨_, rfl, list_spec' hs⟩

theorem srcResult_ok {db : Db} (hs : Sorted db) (cfg : SrcCfg) (op : SrcOp) :
    SrcResOK cfg op (abs db) (srcResult cfg op db) := by
  cases op with
  | getData sid =>
    simp only [SrcResOK, srcResult, storeResult]
    split
    · exact ⟨_, rfl, getData_spec' hs sid⟩
    · rfl
  | findSystem key v =>
    simp only [SrcResOK, srcResult]
    cases hfe : cfg.findEnabled with
    | false => simp
    | true =>
      simp only [Bool.not_true, Bool.false_eq_true, if_false, if_true]
      cases hk : stripKey cfg.pfx key with
      | none => rfl
      | some k =>
        simp only [storeResult]
        cases hd : dumps v with
        | error e => rfl
        | ok t =>
          simp only
          by_cases hv : validText k = true
          · simp only [hv, if_true]
            have hf := find_spec' hs k t
            exact ⟨_, rfl, unique_of_find hf⟩
          · simp only [hv]; simp

theorem decide'_isWrite {cfg : HCfg} {sid : Str} {rq : Req} {op : StoreOp}
    (h : decide' cfg sid rq = .perform op) : op.isWrite = true := by
  unfold decide' at h
  split at h
  · cases h
  · split at h
    · cases h
    · split at h
      · cases h; rfl
      · cases h; rfl
      · cases h; rfl
      · split at h
        · cases h
        · split at h
          · cases h; rfl
          · cases h
          · cases h
      · split at h
        · cases h
        · split at h
          · cases h; rfl
          · cases h

theorem storeResult_write {strict : Bool} {op : StoreOp} (h : op.isWrite = true) (db : Db) :
    storeResult strict op db = .unit ∨ ∃ e, storeResult strict op db = .exc e := by
  cases op with
  | setValue sid key v =>
    simp only [storeResult]
    cases setDecision strict sid key v with
    | ok t => exact Or.inl rfl
    | error e => exact Or.inr ⟨e, rfl⟩
  | deleteValue sid key =>
    simp only [storeResult]
    split
    · exact Or.inl rfl
    · exact Or.inr ⟨_, rfl⟩
  | deleteData sid =>
    simp only [storeResult]
    split
    · exact Or.inl rfl
    · exact Or.inr ⟨_, rfl⟩
  | getValue _ _ => cases h
  | getData _ => cases h
  | findSystems _ _ => cases h
  | listSystems => cases h

theorem handlerResult_ok {db : Db} (hs : Sorted db) (cfg : HCfg) (rq : Req) :
    HandlerResOK cfg rq (abs db) (handlerResult cfg rq db) := by
  unfold HandlerResOK handlerResult
  cases prepareContext cfg rq.uri with
  | none => rfl
  | some sid =>
    simp only
    cases hd : decide' cfg sid rq with
    | reply code => rfl
    | outside => exact Or.inr rfl
    | perform op =>
      simp only
      have hok := storeResult_ok hs true op
      rcases storeResult_write (strict := true) (decide'_isWrite hd) db with h | ⟨e, h⟩
      · rw [h] at hok ⊢
        exact Or.inl ⟨hok, rfl⟩
      · rw [h] at hok ⊢
        exact Or.inr ⟨e, hok, rfl⟩

theorem result_ok {db : Db} (hs : Sorted db) (s : Step) : ResOK s (abs db) (result s db) := by
  cases s with
  | store strict op => exact storeResult_ok hs strict op
  | source cfg op => exact srcResult_ok hs cfg op
  | handler cfg rq => exact handlerResult_ok hs cfg rq

/-! ### the Bool checkers say exactly what the Prop specifications say -/

/-- the effect checker compares finitely many keys, which is enough: the map after the step IS the
function update of the map before it -/
theorem effectOK_iff' (i : Intent) (pre post : Db) :
    effectOK i pre post = true ↔ abs post = aApply i (abs pre) := by
  unfold effectOK
  rw [List.all_eq_true]
  constructor
  · intro h
    funext k
    by_cases hk : k ∈ touched i ++ keysOf pre ++ keysOf post
    · have := h k hk
      simpa [abs] using this
    · simp only [List.mem_append, not_or] at hk
      obtain ⟨⟨h1, h2⟩, h3⟩ := hk
      have e1 := lookup_none_of_not_mem h2
      have e3 := lookup_none_of_not_mem h3
      simp only [abs, e3]
      cases i with
      | nothing => simp [aApply, abs, e1]
      | set k0 t =>
        have : k ≠ k0 := by simpa [touched] using h1
        simp [aApply, abs, e1, this]
      | del k0 => by_cases hh : k = k0 <;> simp [aApply, abs, e1, hh]
      | delSid s => by_cases hh : k.1 = s <;> simp [aApply, abs, e1, hh]
  · intro h k _
    have := congrFun h k
    simpa [abs] using this

theorem strictSortedB_iff (l : List Str) : strictSortedB l = true ↔ StrictSorted l := by
  simp [strictSortedB]

theorem getDataOK_iff (pre : Db) (sid : Str) (kvs : List (Str × Str)) :
    getDataOK pre sid kvs = true ↔ GetDataSpec (abs pre) sid kvs := by
  unfold getDataOK GetDataSpec
  simp only [Bool.and_eq_true, strictSortedB_iff, List.all_eq_true, beq_iff_eq]
  constructor
  · rintro ⟨⟨h1, h2⟩, h3⟩
    refine ⟨h1, fun k t => ⟨fun hm => h2 (k, t) hm, fun hl => ?_⟩⟩
    have hl' : lookup (sid, k) pre = some t := hl
    have := h3 _ (lookup_some_mem hl')
    simpa [hl'] using this
  · rintro ⟨h1, h2⟩
    refine ⟨⟨h1, fun kv hm => (h2 kv.1 kv.2).mp hm⟩, fun e he => ?_⟩
    by_cases hs : e.1.1 = sid
    · cases hl : lookup e.1 pre with
      | none => simp
      | some t =>
        have : (e.1.2, t) ∈ kvs := (h2 e.1.2 t).mpr (by rw [← hs]; exact hl)
        simp [this]
    · simp [hs]

theorem findOK_iff (pre : Db) (key t : Str) (l : List Str) :
    findOK pre key t l = true ↔ FindSpec (abs pre) key t l := by
  unfold findOK FindSpec
  simp only [Bool.and_eq_true, strictSortedB_iff, List.all_eq_true, beq_iff_eq]
  constructor
  · rintro ⟨⟨h1, h2⟩, h3⟩
    refine ⟨h1, fun s => ⟨fun hm => h2 s hm, fun hl => ?_⟩⟩
    have hl' : lookup (s, key) pre = some t := hl
    have := h3 _ (lookup_some_mem hl')
    simpa [hl'] using this
  · rintro ⟨h1, h2⟩
    refine ⟨⟨h1, fun s hm => (h2 s).mp hm⟩, fun e he => ?_⟩
    by_cases hs : e.1.2 = key ∧ lookup e.1 pre = some t
    · have : e.1.1 ∈ l := (h2 e.1.1).mpr (by rw [← hs.1]; exact hs.2)
      simp [this]
    · have : (e.1.2 == key && lookup e.1 pre == some t) = false := by
        cases hb : (e.1.2 == key && lookup e.1 pre == some t) with
        | false => rfl
        | true =>
          simp only [Bool.and_eq_true, beq_iff_eq] at hb
          exact absurd hb hs
      simp [this]

theorem listOK_iff (pre : Db) (l : List Str) : listOK pre l = true ↔ ListSpec (abs pre) l := by
  unfold listOK ListSpec
  simp only [Bool.and_eq_true, strictSortedB_iff, List.all_eq_true, List.any_eq_true, beq_iff_eq,
    List.contains_iff_mem]
  constructor
  · rintro ⟨⟨h1, h2⟩, h3⟩
    refine ⟨h1, fun s => ⟨fun hm => ?_, ?_⟩⟩
    · obtain ⟨e, he, hes⟩ := h2 s hm
      obtain ⟨t, ht⟩ := lookup_isSome_of_mem he
      exact ⟨e.1.2, t, by rw [← hes]; exact ht⟩
    · rintro ⟨k, t, hl⟩
      have hl' : lookup (s, k) pre = some t := hl
      exact h3 _ (lookup_some_mem hl')
  · rintro ⟨h1, h2⟩
    refine ⟨⟨h1, fun s hm => ?_⟩, fun e he => ?_⟩
    · obtain ⟨k, t, hl⟩ := (h2 s).mp hm
      have hl' : lookup (s, k) pre = some t := hl
      exact ⟨_, lookup_some_mem hl', rfl⟩
    · obtain ⟨t, ht⟩ := lookup_isSome_of_mem he
      exact (h2 e.1.1).mpr ⟨e.1.2, t, ht⟩

theorem imp_bool (a c : Bool) : (!a || c) = true ↔ (a = true → c = true) := by
  cases a <;> cases c <;> simp

theorem uniqueOK_iff (pre : Db) (key t : Str) (o : Option Str) :
    uniqueOK pre key t o = true ↔ UniqueSpec (abs pre) key t o := by
  have hA : ∀ s, lookup (s, key) pre = some t →
      ∃ e ∈ pre, (e.1.2 = key ∧ lookup e.1 pre = some t) ∧ e.1.1 = s :=
    fun s h => ⟨((s, key), t), lookup_some_mem h, ⟨rfl, h⟩, rfl⟩
  have hB : ∀ e : Key × Str, e.1.2 = key → lookup e.1 pre = some t → lookup (e.1.1, key) pre = some t := by
    intro e h1 h2; rw [← h1]; exact h2
  unfold UniqueSpec
  cases o with
  | some s =>
    simp only [uniqueOK, Bool.and_eq_true, beq_iff_eq, List.all_eq_true, imp_bool, Option.some.injEq, abs]
    constructor
    · rintro ⟨hm, hu⟩ s0
      constructor
      · intro e; subst e
        refine ⟨hm, fun s' hs' => ?_⟩
        obtain ⟨e, he, hmatch, rfl⟩ := hA s' hs'
        exact hu e he hmatch
      · rintro ⟨hm0, hu0⟩
        exact hu0 s hm
    · intro h
      obtain ⟨hm, hu⟩ := (h s).mp rfl
      exact ⟨hm, fun e _ hmatch => hu _ (hB e hmatch.1 hmatch.2)⟩
  | none =>
    simp only [uniqueOK, Bool.or_eq_true, List.any_eq_false, List.any_eq_true,
      Bool.and_eq_true, beq_iff_eq, reduceCtorEq, false_iff, not_and, abs, ne_eq,
      Bool.not_eq_eq_eq_not, Bool.not_true, beq_eq_false_iff_ne]
    constructor
    · rintro (h | ⟨e, he, e', he', hm⟩) s0 hm0 hu
      · obtain ⟨e, he, hmatch, _⟩ := hA s0 hm0
        have := h e he
        simp [hmatch.1, hmatch.2] at this
      · obtain ⟨⟨⟨⟨h1, h2⟩, h3⟩, h4⟩, h5⟩ := hm
        have a := hu _ (hB e h1 h3)
        have b := hu _ (hB e' h2 h4)
        exact h5 (a.trans b.symm)
    · intro h
      by_cases hex : ∃ e ∈ pre, e.1.2 = key ∧ lookup e.1 pre = some t
      · right
        obtain ⟨e, he, h1, h2⟩ := hex
        by_cases hex2 : ∃ e' ∈ pre, (e'.1.2 = key ∧ lookup e'.1 pre = some t) ∧ ¬ e.1.1 = e'.1.1
        · obtain ⟨e', he', ⟨h3, h4⟩, h5⟩ := hex2
          exact ⟨e, he, e', he', ⟨⟨⟨⟨h1, h3⟩, h2⟩, h4⟩, h5⟩⟩
        · exfalso
          refine h e.1.1 (hB e h1 h2) (fun s' hs' => ?_)
          obtain ⟨e', he', hmatch, rfl⟩ := hA s' hs'
          by_cases hh : e.1.1 = e'.1.1
          · exact hh.symm
          · exact absurd ⟨e', he', hmatch, hh⟩ hex2
      · left
        intro e he h1 h2
        exact hex ⟨e, he, h1, h2⟩

theorem storeResultOK_iff (strict : Bool) (op : StoreOp) (pre : Db) (r : Res) :
    storeResultOK strict op pre r = true ↔ StoreResOK strict op (abs pre) r := by
  cases op with
  | setValue sid key v =>
    simp only [storeResultOK, StoreResOK]
    cases setDecision strict sid key v <;> simp
  | deleteValue sid key => simp [storeResultOK, StoreResOK]
  | deleteData sid => simp [storeResultOK, StoreResOK]
  | getValue sid key =>
    simp only [storeResultOK, StoreResOK, abs]
    split <;> simp
  | getData sid =>
    simp only [storeResultOK, StoreResOK]
    split
    · cases r <;> simp [getDataOK_iff]
    · simp
  | findSystems key v =>
    simp only [storeResultOK, StoreResOK]
    cases dumps v with
    | error e => simp
    | ok t =>
      simp only
      split
      · cases r <;> simp [findOK_iff]
      · simp
  | listSystems =>
    simp only [storeResultOK, StoreResOK]
    cases r <;> simp [listOK_iff]

theorem descend_wrap (w : Wrapped) : ∀ cs : List Str, descend cs (wrap cs w) = some w
  | [] => by cases w <;> rfl
  | c :: cs => by simp [wrap, descend, descend_wrap w cs]

theorem descend_wrapData (pfx : Str) (kvs : List (Str × Str)) :
    descend (if pfx = [] then [] else splitColon pfx) (wrapData pfx kvs) = some (.data kvs) := by
  unfold wrapData
  split
  · rfl
  · exact descend_wrap _ _

theorem srcResultOK_iff (cfg : SrcCfg) (op : SrcOp) (pre : Db) (r : Res) :
    srcResultOK cfg op pre r = true ↔ SrcResOK cfg op (abs pre) r := by
  cases op with
  | getData sid =>
    simp only [srcResultOK, SrcResOK]
    split
    · cases r with
      | wrapped w =>
        simp only [Res.wrapped.injEq]
        constructor
        · intro h
          split at h
          · rename_i kvs hd
            simp only [Bool.and_eq_true, beq_iff_eq] at h
            exact ⟨kvs, h.1, (getDataOK_iff _ _ _).mp h.2⟩
          · cases h
        · rintro ⟨kvs, rfl, hspec⟩
          rw [descend_wrapData]
          simp [(getDataOK_iff _ _ _).mpr hspec]
      | _ => simp
    · simp
  | findSystem key v =>
    simp only [srcResultOK, SrcResOK]
    split
    · cases stripKey cfg.pfx key with
      | none => simp
      | some k =>
        simp only
        cases dumps v with
        | error e => simp
        | ok t =>
          simp only
          split
          · cases r <;> simp [uniqueOK_iff]
          · simp
    · simp

theorem handlerResultOK_iff (cfg : HCfg) (rq : Req) (pre : Db) (r : Res) :
    handlerResultOK cfg rq pre r = true ↔ HandlerResOK cfg rq (abs pre) r := by
  unfold handlerResultOK HandlerResOK
  cases prepareContext cfg rq.uri with
  | none => simp
  | some sid =>
    simp only
    cases decide' cfg sid rq with
    | reply code => simp
    | outside => simp
    | perform op =>
      simp only
      cases r <;> simp [storeResultOK_iff, and_comm]

/-- the result checker is the result specification -/
theorem resultOK_iff (s : Step) (pre : Db) (r : Res) : resultOK s pre r = true ↔ ResOK s (abs pre) r := by
  cases s with
  | store strict op => exact storeResultOK_iff strict op pre r
  | source cfg op => exact srcResultOK_iff cfg op pre r
  | handler cfg rq => exact handlerResultOK_iff cfg rq pre r

/-! ### the strict check -/

theorem checkKey_iff (k : PyKey) : checkKey k = .ok () ↔ jsonSafeKey k = true := by
  cases k <;> simp [checkKey, jsonSafeKey]

theorem bind_ok_iff {ε : Type} (a : Except ε Unit) (b : Except ε Unit) :
    (a >>= fun _ => b) = .ok () ↔ a = .ok () ∧ b = .ok () := by
  cases a with
  | error e => simp [bind, Except.bind]
  | ok u => cases u; simp [bind, Except.bind]

mutual
theorem check_iff_safe : ∀ v : PyVal, checkValue v = .ok () ↔ jsonSafe v = true
  | .none => by simp [checkValue, jsonSafe]
  | .bool _ => by simp [checkValue, jsonSafe]
  | .int _ => by simp [checkValue, jsonSafe]
  | .float _ => by simp [checkValue, jsonSafe]
  | .str _ => by simp [checkValue, jsonSafe]
  | .list l => by simp only [checkValue, jsonSafe]; exact checkList_iff_safe l
  | .dict d => by simp only [checkValue, jsonSafe]; exact checkItems_iff_safe d
  | .tuple _ => by simp [checkValue, jsonSafe]
  | .set => by simp [checkValue, jsonSafe]
  | .bytes => by simp [checkValue, jsonSafe]
  | .cyclic => by simp [checkValue, jsonSafe]
theorem checkList_iff_safe : ∀ l : List PyVal, checkList l = .ok () ↔ jsonSafeList l = true
  | [] => by simp [checkList, jsonSafeList]
  | v :: vs => by
    simp only [checkList, jsonSafeList, Bool.and_eq_true, bind_ok_iff]
    rw [check_iff_safe v, checkList_iff_safe vs]
theorem checkItems_iff_safe : ∀ d : List (PyKey × PyVal), checkItems d = .ok () ↔ jsonSafeItems d = true
  | [] => by simp [checkItems, jsonSafeItems]
  | (k, v) :: r => by
    simp only [checkItems, jsonSafeItems, Bool.and_eq_true, bind_ok_iff]
    rw [checkKey_iff k, check_iff_safe v, checkItems_iff_safe r]
    exact ⟨fun ⟨a, b, c⟩ => ⟨⟨a, b⟩, c⟩, fun ⟨⟨a, b⟩, c⟩ => ⟨a, b, c⟩⟩
end

theorem dumpsKey_safe {k : PyKey} (h : jsonSafeKey k = true) : ∃ t, dumpsKey k = .ok t := by
  cases k <;> simp [jsonSafeKey] at h
  exact ⟨_, rfl⟩

mutual
theorem dumps_safe : ∀ v : PyVal, jsonSafe v = true → ∃ t, dumps v = .ok t
  | .none, _ => ⟨_, rfl⟩
  | .bool true, _ => ⟨_, rfl⟩
  | .bool false, _ => ⟨_, rfl⟩
  | .int _, _ => ⟨_, rfl⟩
  | .float _, _ => ⟨_, rfl⟩
  | .str _, _ => ⟨_, rfl⟩
  | .list l, h => by
    simp only [jsonSafe] at h
    obtain ⟨ps, hp⟩ := dumpsList_safe l h
    simp [dumps, hp, bind, Except.bind]
  | .dict d, h => by
    simp only [jsonSafe] at h
    obtain ⟨ps, hp⟩ := dumpsItems_safe d h
    simp [dumps, hp, bind, Except.bind]
  | .tuple _, h => by simp [jsonSafe] at h
  | .set, h => by simp [jsonSafe] at h
  | .bytes, h => by simp [jsonSafe] at h
  | .cyclic, h => by simp [jsonSafe] at h
theorem dumpsList_safe : ∀ l : List PyVal, jsonSafeList l = true → ∃ ps, dumpsList l = .ok ps
  | [], _ => ⟨_, rfl⟩
  | v :: vs, h => by
    simp only [jsonSafeList, Bool.and_eq_true] at h
    obtain ⟨a, ha⟩ := dumps_safe v h.1
    obtain ⟨r, hr⟩ := dumpsList_safe vs h.2
    simp [dumpsList, ha, hr, bind, Except.bind]
theorem dumpsItems_safe : ∀ d : List (PyKey × PyVal), jsonSafeItems d = true → ∃ ps, dumpsItems d = .ok ps
  | [], _ => ⟨_, rfl⟩
  | (k, v) :: r, h => by
    simp only [jsonSafeItems, Bool.and_eq_true] at h
    obtain ⟨a, ha⟩ := dumpsKey_safe h.1.1
    obtain ⟨b, hb⟩ := dumps_safe v h.1.2
    obtain ⟨t, ht⟩ := dumpsItems_safe r h.2
    simp [dumpsItems, ha, hb, ht, bind, Except.bind]
end

/-! ### key prefix -/

theorem stripPrefix_append (p s : Str) : stripPrefix p (p ++ s) = some s := by
  induction p with
  | nil => cases s <;> rfl
  | cons c cs ih => simp [stripPrefix, ih]

theorem stripPrefix_some {p s k : Str} (h : stripPrefix p s = some k) : s = p ++ k := by
  induction p generalizing s with
  | nil => cases s <;> simp [stripPrefix] at h <;> simp [h]
  | cons c cs ih =>
    cases s with
    | nil => simp [stripPrefix] at h
    | cons d ds =>
      simp only [stripPrefix] at h
      split at h
      · rename_i hcd; subst hcd; rw [ih h]; rfl
      · cases h

end Vinegar.Sqlite
