import Vinegar.Spec.Addr
/-
Helper lemmas of C16: facts about the generated literals (the obligations that break when a
regular expression, option tuple or range constant in vinegar/transform/*.py changes),
decimal / hexadecimal round trips, the recognisers on printed text, bit-level facts about the
mask arithmetic.
-/
namespace Vinegar.Addr
open Vinegar

/-! ### generated literals -/

theorem ip_v4_regexp_same : Generated.ADDR_IP_IPV4_REGEXP = Generated.ADDR_IPV4_REGEXP := by decide
theorem mac_regexp : Generated.ADDR_MAC_REGEXP =
    "(?x)([0-9A-Fa-f]{1,2})(?P<delimiter>[:\\-])([0-9A-Fa-f]{1,2})((?P=delimiter))([0-9A-Fa-f]{1,2})((?P=delimiter))([0-9A-Fa-f]{1,2})((?P=delimiter))([0-9A-Fa-f]{1,2})((?P=delimiter))([0-9A-Fa-f]{1,2})" := rfl
theorem no_other_regexps : Generated.ADDR_OTHER_REGEXPS = [] := by decide
theorem mac_delims : Generated.ADDR_MAC_DELIM_COLON = [":", "colon"] ∧
    Generated.ADDR_MAC_DELIM_DASH = ["-", "dash", "minus"] := by decide
theorem mac_cases : Generated.ADDR_MAC_CASES = ["lower", "upper"] := by decide
theorem mac_formats : Generated.ADDR_MAC_FORMATS = ["{:02X}", "{:02x}"] := by decide
theorem mapped_prefix_hex : Generated.ADDR_MAPPED_PREFIX_HEX = "00000000000000000000ffff" := by decide

theorem v4_regexp : Generated.ADDR_IPV4_REGEXP = "([0-9]+)\\.([0-9]+)\\.([0-9]+)\\.([0-9]+)(?:/([0-9]+))?" := by decide

/-! ### the IPv4 recogniser: sound and complete for `digits.digits.digits.digits[/digits]` -/
def StopsDigits (r : Str) : Prop := ∀ c r', r = c :: r' → c.isDigit = false
theorem stops_nil : StopsDigits [] := by intro c r h; cases h
theorem stops_cons {c : Char} {r : Str} (h : c.isDigit = false) : StopsDigits (c :: r) := by
  intro c' r' e; cases e; exact h

theorem takeDigits_append (ds r : Str) (hd : ∀ c ∈ ds, c.isDigit = true) (hr : StopsDigits r) :
    takeDigits (ds ++ r) = (ds, r) := by
  induction ds with
  | nil =>
    cases r with
    | nil => rfl
    | cons c r' => simp [takeDigits, hr c r' rfl]
  | cons d ds ih =>
    have h1 : d.isDigit = true := hd d (by simp)
    have h2 := ih (fun c hc => hd c (by simp [hc]))
    simp [takeDigits, h1, h2]

/-- a non-empty string of ASCII digits -/
def IsNum (ds : Str) : Prop := ds ≠ [] ∧ ∀ c ∈ ds, c.isDigit = true

theorem takeDigits_spec (s : Str) :
    s = (takeDigits s).1 ++ (takeDigits s).2 ∧ (∀ c ∈ (takeDigits s).1, c.isDigit = true) ∧
      StopsDigits (takeDigits s).2 := by
  induction s with
  | nil => exact ⟨rfl, by simp [takeDigits], stops_nil⟩
  | cons c cs ih =>
    by_cases h : c.isDigit = true
    · simp only [takeDigits, h, if_true]
      obtain ⟨h1, h2, h3⟩ := ih
      refine ⟨by simp [← h1], ?_, h3⟩
      intro x hx
      simp at hx
      rcases hx with rfl | hx
      · exact h
      · exact h2 x hx
    · simp only [takeDigits, h]
      exact ⟨rfl, by simp, stops_cons (by simpa using h)⟩

theorem digits1_complete (ds r : Str) (hd : IsNum ds) (hr : StopsDigits r) : digits1 (ds ++ r) = some (ds, r) := by
  unfold digits1
  rw [takeDigits_append _ _ hd.2 hr]
  cases ds with
  | nil => exact absurd rfl hd.1
  | cons a b => rfl

theorem digits1_sound {s d r : Str} (h : digits1 s = some (d, r)) : s = d ++ r ∧ IsNum d ∧ StopsDigits r := by
  unfold digits1 at h
  have sp := takeDigits_spec s
  split at h
  · cases h
  · rename_i d' r' hne heq
    cases h
    rw [heq] at sp
    refine ⟨sp.1, ⟨?_, sp.2.1⟩, sp.2.2⟩
    intro hd; exact hne hd

theorem numDot_complete (ds r : Str) (hd : IsNum ds) : numDot (ds ++ '.' :: r) = some (ds, r) := by
  unfold numDot
  rw [digits1_complete _ _ hd (stops_cons (by decide))]
  simp [expectChar]

theorem numDot_sound {s d r : Str} (h : numDot s = some (d, r)) : s = d ++ '.' :: r ∧ IsNum d := by
  unfold numDot at h
  split at h
  · cases h
  · rename_i a r1 h1
    obtain ⟨e, hn, _⟩ := digits1_sound h1
    cases r1 with
    | nil => simp [expectChar] at h
    | cons x r2 =>
      simp only [expectChar] at h
      split at h
      · cases h
      · rename_i r3 h3
        by_cases hx : x = '.'
        · subst hx; simp at h3; cases h; subst h3; exact ⟨e, hn⟩
        · simp [hx] at h3

def maskText : Option Str → Str
  | none => []
  | some t => '/' :: t

def v4Text (m : V4Match) : Str := m.a ++ '.' :: (m.b ++ '.' :: (m.c ++ '.' :: (m.d ++ maskText m.mask)))

theorem maskTail_complete (mk : Option Str) (h : ∀ t, mk = some t → IsNum t) : maskTail (maskText mk) = some mk := by
  cases mk with
  | none => rfl
  | some t =>
    have := digits1_complete t [] (h t rfl) stops_nil
    simp only [List.append_nil] at this
    simp [maskText, maskTail, this]

theorem maskTail_sound {r : Str} {mk : Option Str} (h : maskTail r = some mk) :
    r = maskText mk ∧ ∀ t, mk = some t → IsNum t := by
  cases r with
  | nil => simp [maskTail] at h; subst h; exact ⟨rfl, by intro t ht; cases ht⟩
  | cons x r =>
    simp only [maskTail] at h
    split at h
    · rename_i hx
      split at h
      · rename_i m hm
        obtain ⟨e, hn, _⟩ := digits1_sound hm
        cases h
        subst hx
        refine ⟨by simp [maskText, e], ?_⟩
        intro t ht; cases ht; exact hn
      · cases h
    · cases h

theorem stops_maskText (mk : Option Str) : StopsDigits (maskText mk) := by
  cases mk with
  | none => exact stops_nil
  | some t => exact stops_cons (by decide)

theorem matchV4_complete (m : V4Match) (ha : IsNum m.a) (hb : IsNum m.b) (hc : IsNum m.c) (hd : IsNum m.d)
    (hm : ∀ t, m.mask = some t → IsNum t) : matchV4 (v4Text m) = some m := by
  unfold matchV4 v4Text
  rw [numDot_complete _ _ ha]; simp only []
  rw [numDot_complete _ _ hb]; simp only []
  rw [numDot_complete _ _ hc]; simp only []
  rw [digits1_complete _ _ hd (stops_maskText _)]; simp only []
  rw [maskTail_complete _ hm]

theorem matchV4_sound {s : Str} {m : V4Match} (h : matchV4 s = some m) :
    s = v4Text m ∧ IsNum m.a ∧ IsNum m.b ∧ IsNum m.c ∧ IsNum m.d ∧ ∀ t, m.mask = some t → IsNum t := by
  unfold matchV4 at h
  split at h
  · cases h
  · rename_i a r1 h1
    split at h
    · cases h
    · rename_i b r2 h2
      split at h
      · cases h
      · rename_i c r3 h3
        split at h
        · cases h
        · rename_i d r4 h4
          split at h
          · cases h
          · rename_i mk h5
            cases h
            obtain ⟨e1, n1⟩ := numDot_sound h1
            obtain ⟨e2, n2⟩ := numDot_sound h2
            obtain ⟨e3, n3⟩ := numDot_sound h3
            obtain ⟨e4, n4, _⟩ := digits1_sound h4
            obtain ⟨e5, n5⟩ := maskTail_sound h5
            refine ⟨?_, n1, n2, n3, n4, n5⟩
            simp only [v4Text]
            rw [e1, e2, e3, e4, e5]

/-! ### decimal numerals (`str()` / `int()`) -/

theorem dec_len_le {n : Nat} (h : n < 1000) : (dec n).length ≤ 3 :=
  (Nat.length_toDigits_le_iff (by decide) (by decide)).mpr h

theorem isDigit_of_mem_dec {n : Nat} {c : Char} (h : c ∈ dec n) : c.isDigit = true :=
  Nat.isDigit_of_mem_toDigits (by decide) (by decide) h

theorem dec_ne_nil (n : Nat) : dec n ≠ [] := Nat.toDigits_ne_nil

theorem isNum_dec (n : Nat) : IsNum (dec n) := ⟨dec_ne_nil n, fun _ h => isDigit_of_mem_dec h⟩

theorem int_limit_ge : 3 ≤ Generated.PY_INT_MAX_STR_DIGITS := by decide

theorem pyInt_dec {n : Nat} (h : n < 1000) : pyInt (dec n) = some n := by
  unfold pyInt
  have := dec_len_le h
  have := int_limit_ge
  rw [if_pos (by omega)]
  simp [dec, Nat.ofDigitChars_ten_toDigits]

/-! ### IPv4: printed values parse back -/

theorem fmt4_eq (p : V4) : fmt4 p = v4Text ⟨dec p.a, dec p.b, dec p.c, dec p.d, p.mask.map dec⟩ := by
  cases hm : p.mask <;> simp [fmt4, fmtQuad, fmtMask, v4Text, maskText, hm, List.append_assoc]

theorem matchV4_fmt4 (p : V4) : matchV4 (fmt4 p) = some ⟨dec p.a, dec p.b, dec p.c, dec p.d, p.mask.map dec⟩ := by
  rw [fmt4_eq]
  apply matchV4_complete <;> simp only [isNum_dec]
  intro t ht
  cases hm : p.mask with
  | none => simp [hm] at ht
  | some k => simp [hm] at ht; subst ht; exact isNum_dec k

/-- the values `parse4` accepts -/
def V4.Valid (p : V4) : Prop :=
  p.a ≤ 255 ∧ p.b ≤ 255 ∧ p.c ≤ 255 ∧ p.d ≤ 255 ∧ ∀ k, p.mask = some k → k ≤ 32

theorem max_octet : Generated.ADDR_V4_MAX_OCTET = 255 := by decide
theorem max_mask4 : Generated.ADDR_V4_MAX_MASK = 32 := by decide
theorem max_mask6 : Generated.ADDR_V6_MAX_MASK = 128 := by decide

theorem parse4_fmt4 (p : V4) (hv : p.Valid) : parse4 (fmt4 p) = some p := by
  obtain ⟨ha, hb, hc, hd, hm⟩ := hv
  unfold parse4
  rw [matchV4_fmt4]
  simp only [evalV4, pyInt_dec (show p.a < 1000 by omega), pyInt_dec (show p.b < 1000 by omega),
    pyInt_dec (show p.c < 1000 by omega), pyInt_dec (show p.d < 1000 by omega)]
  cases hk : p.mask with
  | none =>
    simp only [Option.map, pyIntOpt]
    rw [if_neg (by omega)]
    cases p; simp_all
  | some k =>
    have := hm k hk
    simp only [Option.map, pyIntOpt, pyInt_dec (show k < 1000 by omega)]
    rw [if_neg (by omega), if_neg (by omega)]
    cases p; simp_all

theorem parse4_valid {s : Str} {p : V4} (h : parse4 s = some p) : p.Valid := by
  unfold parse4 at h
  split at h
  · cases h
  · unfold evalV4 at h
    split at h
    · split at h
      · cases h
      · split at h
        · cases h; refine ⟨?_, ?_, ?_, ?_, ?_⟩ <;> dsimp only <;> first | omega | (intro k hk; cases hk)
        · split at h
          · cases h
          · cases h; refine ⟨?_, ?_, ?_, ?_, ?_⟩ <;> dsimp only <;> first | omega | (intro k hk; cases hk; omega)
    · cases h

/-! ### mask arithmetic -/

theorem netMaskInt_eq (w m : Nat) : netMaskInt w m = 2 ^ w - ((2 ^ (w - m) - 1) + 1) := by
  unfold netMaskInt
  have : 0 < 2 ^ (w - m) := Nat.pow_pos (by decide)
  omega

theorem hostMask_lt (w m : Nat) : 2 ^ (w - m) - 1 < 2 ^ w := by
  have : 0 < 2 ^ (w - m) := Nat.pow_pos (by decide)
  have : 2 ^ (w - m) ≤ 2 ^ w := Nat.pow_le_pow_right (by decide) (by omega)
  omega

theorem testBit_netMaskInt (w m j : Nat) :
    (netMaskInt w m).testBit j = (decide (j < w) && !decide (j < w - m)) := by
  rw [netMaskInt_eq, Nat.testBit_two_pow_sub_succ (hostMask_lt w m), Nat.testBit_two_pow_sub_one]

theorem netBitsOk_and (w m a : Nat) (hm : m ≤ w) : netBitsOk w m a (a &&& netMaskInt w m) = true := by
  unfold netBitsOk
  rw [List.all_eq_true]
  intro i hi
  have hi : i < w := List.mem_range.mp hi
  rw [Nat.testBit_and, testBit_netMaskInt]
  have h1 : decide (w - 1 - i < w) = true := decide_eq_true (by omega)
  have h2 : decide (w - 1 - i < w - m) = !decide (i < m) := by
    by_cases h : i < m
    · simp [h]; omega
    · simp [h]; omega
  rw [h1, h2]
  cases a.testBit (w - 1 - i) <;> cases decide (i < m) <;> rfl

theorem bcastBitsOk_or (w m a : Nat) (hm : m ≤ w) : bcastBitsOk w m a (a ||| hostMaskInt w m) = true := by
  unfold bcastBitsOk hostMaskInt
  rw [List.all_eq_true]
  intro i hi
  have hi : i < w := List.mem_range.mp hi
  rw [Nat.testBit_or, Nat.testBit_two_pow_sub_one]
  have h2 : decide (w - 1 - i < w - m) = decide (m ≤ i) := by
    by_cases h : m ≤ i
    · simp [h]; omega
    · simp [h]; omega
  rw [h2]
  cases a.testBit (w - 1 - i) <;> cases decide (m ≤ i) <;> rfl

theorem toInt4_eq (p : V4) : toInt4 p = p.a * 2 ^ 24 + p.b * 2 ^ 16 + p.c * 2 ^ 8 + p.d := by
  simp [toInt4, Nat.shiftLeft_eq]

theorem toInt4_lt {p : V4} (h : p.Valid) : toInt4 p < 2 ^ 32 := by
  rw [toInt4_eq]; obtain ⟨ha, hb, hc, hd, _⟩ := h; omega

/-- the four octets the code computes from the 32-bit integer -/
def quadV4 (n : Nat) (mask : Option Nat) : V4 :=
  ⟨(n >>> 24) &&& 255, (n >>> 16) &&& 255, (n >>> 8) &&& 255, n &&& 255, mask⟩

theorem and255 (x : Nat) : x &&& 255 = x % 256 := Nat.and_two_pow_sub_one_eq_mod x 8

theorem quadV4_valid (n : Nat) (mask : Option Nat) (hm : ∀ k, mask = some k → k ≤ 32) : (quadV4 n mask).Valid := by
  refine ⟨?_, ?_, ?_, ?_, hm⟩ <;> simp only [quadV4, and255] <;> omega

theorem toInt4_quadV4 (n : Nat) (mask : Option Nat) (h : n < 2 ^ 32) : toInt4 (quadV4 n mask) = n := by
  rw [toInt4_eq]
  simp only [quadV4, and255, Nat.shiftRight_eq_div_pow]
  omega

theorem quadOfInt_eq (n : Nat) (mask : Option Nat) : quadOfInt n ++ fmtMask mask = fmt4 (quadV4 n mask) := rfl


/-! ### shared clauses, `splitSlash`, strip-mask on IPv4 text -/

theorem malformedOk_malformed (r : Bool) (s : Str) : malformedOk false r s (malformed r s) = true := by
  simp [malformedOk]
theorem outcomeOk_malformed (r : Bool) (s : Str) : outcomeOk r (malformed r s) = true := by
  cases r <;> rfl

/-! splitSlash -/
theorem splitSlash_append_slash (x r : Str) (hx : '/' ∉ x) : splitSlash (x ++ '/' :: r) = (x, some r) := by
  induction x with
  | nil => simp [splitSlash]
  | cons c cs ih =>
    have hc : c ≠ '/' := fun e => hx (by simp [e])
    have := ih (fun h => hx (by simp [h]))
    simp [splitSlash, hc, this]

theorem splitSlash_noSlash (x : Str) (hx : '/' ∉ x) : splitSlash x = (x, none) := by
  induction x with
  | nil => rfl
  | cons c cs ih =>
    have hc : c ≠ '/' := fun e => hx (by simp [e])
    have := ih (fun h => hx (by simp [h]))
    simp [splitSlash, hc, this]

theorem isNum_noSlash {d : Str} (h : IsNum d) : '/' ∉ d := by
  intro hm; have := h.2 _ hm; revert this; decide

def headText (m : V4Match) : Str := m.a ++ '.' :: (m.b ++ '.' :: (m.c ++ '.' :: m.d))

theorem v4Text_eq (m : V4Match) : v4Text m = headText m ++ maskText m.mask := by
  simp [v4Text, headText, List.append_assoc]

theorem headText_eq (m : V4Match) : headText m = v4Text { m with mask := none } := by
  simp [v4Text, headText, maskText]

theorem headText_noSlash (m : V4Match) (ha : IsNum m.a) (hb : IsNum m.b) (hc : IsNum m.c) (hd : IsNum m.d) :
    '/' ∉ headText m := by
  have h1 := isNum_noSlash ha; have h2 := isNum_noSlash hb; have h3 := isNum_noSlash hc
  have h4 := isNum_noSlash hd
  intro h
  simp only [headText, List.mem_append, List.mem_cons] at h
  rcases h with h | h | h | h | h | h | h
  · exact h1 h
  · revert h; decide
  · exact h2 h
  · revert h; decide
  · exact h3 h
  · revert h; decide
  · exact h4 h

theorem splitSlash_v4Text (m : V4Match) (ha : IsNum m.a) (hb : IsNum m.b) (hc : IsNum m.c) (hd : IsNum m.d) :
    (splitSlash (v4Text m)).1 = headText m := by
  rw [v4Text_eq]
  cases hm : m.mask with
  | none => simp [maskText, splitSlash_noSlash _ (headText_noSlash m ha hb hc hd)]
  | some t => simp [maskText, splitSlash_append_slash _ _ (headText_noSlash m ha hb hc hd)]

theorem evalV4_dropMask {m : V4Match} {p : V4} (h : evalV4 m = some p) :
    evalV4 { m with mask := none } = some { p with mask := none } := by
  unfold evalV4 at h ⊢
  split at h
  · rename_i a b c d mask ha hb hc hd hmask
    simp only [ha, hb, hc, hd, pyIntOpt]
    split at h
    · cases h
    · rename_i hle
      rw [if_neg hle]
      split at h
      · cases h; rfl
      · split at h
        · cases h
        · cases h; rfl
  · cases h

theorem parse4_strip {s : Str} {p : V4} (h : parse4 s = some p) :
    parse4 (splitSlash s).1 = some { p with mask := none } := by
  unfold parse4 at h
  split at h
  · cases h
  · rename_i m hm
    obtain ⟨e, ha, hb, hc, hd, hmk⟩ := matchV4_sound hm
    rw [e, splitSlash_v4Text m ha hb hc hd, headText_eq]
    have hc' := matchV4_complete { m with mask := none } ha hb hc hd (by intro t ht; simp at ht)
    unfold parse4
    rw [hc']
    exact evalV4_dropMask h


/-! ### MAC: hexadecimal digits, printed addresses parse back, parsed values are six bytes -/

theorem isHex_hexDigit : ∀ (up : Bool) (k : Nat), k < 16 → isHex (hexDigit up k) = true := by decide
theorem hexVal_hexDigit : ∀ (up : Bool) (k : Nat), k < 16 → hexVal (hexDigit up k) = k := by decide

theorem hexVal_lt {c : Char} (h : isHex c = true) : hexVal c < 16 := by
  have e : c.toNat = c.val.toNat := rfl
  simp only [isHex, Char.isDigit, Bool.or_eq_true, Bool.and_eq_true, decide_eq_true_eq, ge_iff_le,
    Char.le_def, UInt32.le_iff_toNat_le] at h
  unfold hexVal
  simp only [Char.isDigit, Bool.and_eq_true, decide_eq_true_eq, ge_iff_le, Char.le_def, UInt32.le_iff_toNat_le]
  have h0 : ('0' : Char).val.toNat = 48 := by decide
  have h9 : ('9' : Char).val.toNat = 57 := by decide
  have hA : ('A' : Char).val.toNat = 65 := by decide
  have hF : ('F' : Char).val.toNat = 70 := by decide
  have ha : ('a' : Char).val.toNat = 97 := by decide
  have hf : ('f' : Char).val.toNat = 102 := by decide
  rw [h0, h9, ha, hf, e]
  rw [h0, h9, hA, hF, ha, hf] at h
  split
  · omega
  · split <;> omega

theorem hex12_fmt02 (up : Bool) (n : Nat) (h : n < 256) (r : Str) :
    hex12 (fmt02 up n ++ r) = some (fmt02 up n, r) := by
  have h1 := isHex_hexDigit up (n / 16) (by omega)
  have h2 := isHex_hexDigit up (n % 16) (by omega)
  simp [fmt02, hex12, h1, h2]

theorem hexInt_fmt02 (up : Bool) (n : Nat) (h : n < 256) : hexInt (fmt02 up n) = n := by
  have h1 := hexVal_hexDigit up (n / 16) (by omega)
  have h2 := hexVal_hexDigit up (n % 16) (by omega)
  simp [fmt02, hexInt, h1, h2]; omega

/-- the text after the first group -/
def restText (up : Bool) (dl : Char) : List Nat → Str
  | [] => []
  | b :: bs => dl :: (fmt02 up b ++ restText up dl bs)

theorem fmtMac_cons (up : Bool) (dl : Char) (b : Nat) (bs : List Nat) :
    fmtMac up dl (b :: bs) = fmt02 up b ++ restText up dl bs := by
  induction bs generalizing b with
  | nil => simp [fmtMac, joinWith, restText]
  | cons c cs ih =>
    have := ih c
    simp only [fmtMac, List.map, joinWith, restText] at this ⊢
    rw [this]

theorem macRest_restText (up : Bool) (dl : Char) (bs : List Nat) (hb : ∀ b ∈ bs, b < 256) :
    macRest dl bs.length (restText up dl bs) = some (bs.map (fmt02 up)) := by
  induction bs with
  | nil => rfl
  | cons b bs ih =>
    have h1 := hex12_fmt02 up b (hb b (by simp)) (restText up dl bs)
    have h2 := ih (fun x hx => hb x (by simp [hx]))
    simp [macRest, restText, expectChar, h1, h2]

/-- six byte values -/
def MacValid (bs : List Nat) : Prop := bs.length = 6 ∧ ∀ b ∈ bs, b < 256

theorem map_hexInt_fmt02 (up : Bool) (bs : List Nat) (hb : ∀ b ∈ bs, b < 256) :
    (bs.map (fmt02 up)).map hexInt = bs := by
  induction bs with
  | nil => rfl
  | cons b bs ih =>
    simp [hexInt_fmt02 up b (hb b (by simp)), ih (fun x hx => hb x (by simp [hx]))]

theorem parseMac_fmtMac (up : Bool) (dl : Char) (hdl : dl = ':' ∨ dl = '-') (bs : List Nat) (hv : MacValid bs) :
    parseMac (fmtMac up dl bs) = some bs := by
  obtain ⟨hl, hb⟩ := hv
  match bs, hl, hb with
  | b :: rest, hl, hb =>
    have hl5 : rest.length = 5 := by simpa using hl
    have h1 := hex12_fmt02 up b (hb b (by simp)) (restText up dl rest)
    have h2 := macRest_restText up dl rest (fun x hx => hb x (by simp [hx]))
    rw [hl5] at h2
    rw [fmtMac_cons]
    unfold parseMac matchMac
    rw [h1]
    match rest, hl5, h2 with
    | c :: rest', _, h2 =>
      simp only [restText] at h2 ⊢
      rw [if_pos hdl, h2]
      simp only [Option.map, List.map]
      rw [hexInt_fmt02 up b (hb b (by simp))]
      have := map_hexInt_fmt02 up (c :: rest') (fun x hx => hb x (by simp [hx]))
      simp only [List.map] at this
      rw [this]

theorem hex12_sound {s g r : Str} (h : hex12 s = some (g, r)) : hexInt g < 256 := by
  match s, h with
  | [a], h =>
    simp only [hex12] at h
    split at h
    · rename_i ha; cases h; have := hexVal_lt ha; simp [hexInt]; omega
    · cases h
  | a :: b :: t, h =>
    simp only [hex12] at h
    split at h
    · rename_i ha
      have := hexVal_lt ha
      split at h
      · rename_i hb; cases h; have := hexVal_lt hb; simp [hexInt]; omega
      · cases h; simp [hexInt]; omega
    · cases h

theorem macRest_sound {dl : Char} {n : Nat} {s : Str} {gs : List Str} (h : macRest dl n s = some gs) :
    gs.length = n ∧ ∀ g ∈ gs, hexInt g < 256 := by
  induction n generalizing s gs with
  | zero =>
    cases s with
    | nil => simp [macRest] at h; subst h; simp
    | cons c cs => simp [macRest] at h
  | succ n ih =>
    simp only [macRest] at h
    split at h
    · cases h
    · split at h
      · cases h
      · rename_i g r hg
        split at h
        · cases h
        · rename_i gs' hgs
          cases h
          obtain ⟨hl, hb⟩ := ih hgs
          refine ⟨by simp [hl], ?_⟩
          intro x hx
          simp at hx
          rcases hx with rfl | hx
          · exact hex12_sound hg
          · exact hb x hx

theorem parseMac_valid {s : Str} {bs : List Nat} (h : parseMac s = some bs) : MacValid bs := by
  unfold parseMac at h
  cases hm : matchMac s with
  | none => simp [hm] at h
  | some gs =>
    simp [hm] at h
    subst h
    unfold matchMac at hm
    split at hm
    · cases hm
    · rename_i g1 r h1
      split at hm
      · cases hm
      · split at hm
        · split at hm
          · cases hm
          · rename_i gs' hgs
            cases hm
            obtain ⟨hl, hb⟩ := macRest_sound hgs
            refine ⟨by simp [hl], ?_⟩
            intro x hx
            simp at hx
            rcases hx with rfl | ⟨g, hg, rfl⟩
            · exact hex12_sound h1
            · exact hb g hg
        · cases hm

theorem malformed_ok_inv {r : Bool} {s o : Str} (h : malformed r s = .ok o) : r = false ∧ o = s := by
  cases r <;> simp [malformed] at h ⊢; exact h.symm

theorem macOptions_delim {tc dl : Str} {up : Bool} {d : Char} (h : macOptions tc dl = some (up, d)) :
    d = ':' ∨ d = '-' := by
  unfold macOptions at h
  simp only at h
  split at h
  · cases h
  · rename_i d' hd
    split at h
    · cases h
      split at hd
      · cases hd; exact Or.inl rfl
      · split at hd
        · cases hd; exact Or.inr rfl
        · cases hd
    · cases h


/-! ### IPv6: byte/integer conversion, mask gate, printed values parse back (under `InetLaw`) -/

theorem foldl_bytes (acc : Nat) (l : List UInt8) :
    l.foldl (fun acc x => acc * 256 + x.toNat) acc = acc * 256 ^ l.length + bytesToNat l := by
  unfold bytesToNat
  induction l generalizing acc with
  | nil => simp
  | cons x r ih =>
    simp only [List.foldl, List.length_cons, Nat.pow_succ]
    rw [ih (acc * 256 + x.toNat), ih (0 * 256 + x.toNat)]
    simp [Nat.add_mul, Nat.mul_assoc, Nat.mul_comm 256, Nat.add_assoc]

theorem bytesToNat_cons (x : UInt8) (r : List UInt8) :
    bytesToNat (x :: r) = x.toNat * 256 ^ r.length + bytesToNat r := by
  have := foldl_bytes (0 * 256 + x.toNat) r
  simpa [bytesToNat] using this

theorem bytesToNat_lt (b : List UInt8) : bytesToNat b < 256 ^ b.length := by
  induction b with
  | nil => simp [bytesToNat]
  | cons x r ih =>
    rw [bytesToNat_cons, List.length_cons, Nat.pow_succ]
    have := x.toNat_lt
    have h256 : x.toNat * 256 ^ r.length ≤ 255 * 256 ^ r.length := Nat.mul_le_mul_right _ (by omega)
    omega

theorem natToBytes_length (n v : Nat) : (natToBytes n v).length = n := by
  induction n with
  | zero => rfl
  | succ n ih => simp [natToBytes, ih]

theorem bytesToNat_natToBytes (n v : Nat) : bytesToNat (natToBytes n v) = v % 256 ^ n := by
  induction n with
  | zero => simp [natToBytes, bytesToNat, Nat.mod_one]
  | succ n ih =>
    rw [natToBytes, bytesToNat_cons, natToBytes_length, ih, Nat.mod_pow_succ, and255,
      Nat.shiftRight_eq_div_pow, UInt8.toNat_ofNat']
    have e : (2 : Nat) ^ (8 * n) = 256 ^ n := by rw [Nat.pow_mul]
    rw [e]
    have : v / 256 ^ n % 256 % 2 ^ 8 = v / 256 ^ n % 256 := Nat.mod_eq_of_lt (by omega)
    rw [this, Nat.mul_comm]; omega

theorem splitSlash_fst_noSlash (s : Str) : '/' ∉ (splitSlash s).1 := by
  induction s with
  | nil => simp [splitSlash]
  | cons c cs ih =>
    by_cases h : c = '/'
    · simp [splitSlash, h]
    · simp only [splitSlash, h, if_false, List.mem_cons, not_or]
      exact ⟨fun e => h e.symm, ih⟩

theorem isNum_iff_all (t : Str) : (t ≠ [] ∧ t.all Char.isDigit = true) ↔ IsNum t := by
  simp [IsNum, List.all_eq_true]

theorem parseMask6_dec {m : Nat} (h : m ≤ 128) : parseMask6 (dec m) = some m := by
  unfold parseMask6
  rw [if_pos ((isNum_iff_all _).mpr (isNum_dec m)), pyInt_dec (by omega)]
  simp; omega

theorem parseMask6_le {t : Str} {k : Nat} (h : parseMask6 t = some k) : k ≤ 128 := by
  unfold parseMask6 at h
  split at h
  · split at h
    · split at h
      · cases h
      · cases h; omega
    · cases h
  · cases h

variable (L : InetLaw)

theorem ntop_shape {b : List UInt8} (h : b.length = 16) : ':' ∈ L.ntop6 b ∧ '/' ∉ L.ntop6 b :=
  L.shape _ _ (L.roundtrip b h)

/-- the values `parse6` accepts -/
def Valid6 (p : List UInt8 × Option Nat) : Prop := p.1.length = 16 ∧ ∀ k, p.2 = some k → k ≤ 128

theorem parse6_valid {s : Str} {p : List UInt8 × Option Nat} (h : parse6 L.toInet s = some p) : Valid6 p := by
  unfold parse6 at h
  split at h
  · cases h
  · rename_i b hb
    have := L.length16 _ _ hb
    split at h
    · cases h; exact ⟨this, by intro k hk; cases hk⟩
    · split at h
      · cases h
      · rename_i k hk
        cases h
        exact ⟨this, by intro k' hk'; cases hk'; exact parseMask6_le hk⟩

theorem parse6_fmt (p : List UInt8 × Option Nat) (hv : Valid6 p) :
    parse6 L.toInet (L.ntop6 p.1 ++ fmtMask p.2) = some p := by
  obtain ⟨b, m⟩ := p
  obtain ⟨hb, hm⟩ := hv
  simp only at hb hm
  have hs := (ntop_shape L hb).2
  unfold parse6
  cases m with
  | none =>
    simp only [fmtMask, List.append_nil, splitSlash_noSlash _ hs, L.roundtrip b hb]
  | some k =>
    simp only [fmtMask, splitSlash_append_slash _ _ hs, L.roundtrip b hb, parseMask6_dec (hm k rfl)]

theorem parse6_strip {s : Str} {b : List UInt8} {m : Option Nat} (h : parse6 L.toInet s = some (b, m)) :
    parse6 L.toInet (splitSlash s).1 = some (b, none) := by
  unfold parse6 at h ⊢
  rw [splitSlash_noSlash _ (splitSlash_fst_noSlash s)]
  split at h
  · cases h
  · rename_i b' hb
    simp only [hb]
    split at h
    · cases h; rfl
    · split at h
      · cases h
      · cases h; rfl


/-! ### generic transforms: `ipv6_address_unwrap`, IPv4-shaped text has no colon -/

theorem isNum_noColon {d : Str} (h : IsNum d) : ':' ∉ d := by
  intro hm; have := h.2 _ hm; revert this; decide

theorem v4shaped_noColon {s : Str} (h : isV4Shaped s = true) : ':' ∉ s := by
  unfold isV4Shaped at h
  cases hm : matchV4 s with
  | none => simp [hm] at h
  | some m =>
    obtain ⟨e, ha, hb, hc, hd, hmk⟩ := matchV4_sound hm
    have h1 := isNum_noColon ha; have h2 := isNum_noColon hb; have h3 := isNum_noColon hc
    have h4 := isNum_noColon hd
    rw [e]
    intro hx
    simp only [v4Text, List.mem_append, List.mem_cons] at hx
    rcases hx with hx | hx | hx | hx | hx | hx | hx | hx
    · exact h1 hx
    · revert hx; decide
    · exact h2 hx
    · revert hx; decide
    · exact h3 hx
    · revert hx; decide
    · exact h4 hx
    · cases hmm : m.mask with
      | none => simp [hmm, maskText] at hx
      | some t =>
        simp only [hmm, maskText, List.mem_cons] at hx
        rcases hx with hx | hx
        · revert hx; decide
        · exact isNum_noColon (hmk t hmm) hx

theorem fmt4_shaped (p : V4) : isV4Shaped (fmt4 p) = true := by simp [isV4Shaped, matchV4_fmt4]

theorem splitSlash_none {s : Str} (h : (splitSlash s).2 = none) : (splitSlash s).1 = s := by
  induction s with
  | nil => rfl
  | cons c cs ih =>
    by_cases hc : c = '/'
    · simp [splitSlash, hc] at h
    · simp only [splitSlash, hc, if_false] at h ⊢
      rw [ih h]

theorem list4 {α : Type} (l : List α) (h : l.length = 4) : ∃ x y z t, l = [x, y, z, t] := by
  match l, h with
  | [x, y, z, t], _ => exact ⟨x, y, z, t, rfl⟩

/-- the IPv4 value of the last four bytes -/
def v4of (x y z t : UInt8) : V4 := ⟨x.toNat, y.toNat, z.toNat, t.toNat, none⟩

theorem v4of_valid (x y z t : UInt8) : (v4of x y z t).Valid := by
  have := x.toNat_lt; have := y.toNat_lt; have := z.toNat_lt; have := t.toNat_lt
  refine ⟨?_, ?_, ?_, ?_, ?_⟩ <;> simp only [v4of] <;> first | omega | (intro k hk; cases hk)

theorem ntop4_eq (x y z t : UInt8) : ntop4 [x, y, z, t] = fmt4 (v4of x y z t) := by
  simp [ntop4, fmt4, v4of, fmtMask]

variable (L : InetLaw)

theorem pton6_none_of_noColon {s : Str} (h : ':' ∉ s) : L.pton6 s = none := by
  cases hp : L.pton6 s with
  | none => rfl
  | some b => exact absurd (L.shape s b hp).1 h

theorem pton6_none_of_slash {s : Str} (h : '/' ∈ s) : L.pton6 s = none := by
  cases hp : L.pton6 s with
  | none => rfl
  | some b => exact absurd h (L.shape s b hp).2

theorem unwrap_of_none {s : Str} (h : L.pton6 s = none) : unwrap L.toInet s = s := by
  simp [unwrap, h]

theorem unwrap_v4shaped {s : Str} (h : isV4Shaped s = true) : unwrap L.toInet s = s :=
  unwrap_of_none L (pton6_none_of_noColon L (v4shaped_noColon h))

/-- what `ipv6_address_unwrap` does: nothing, unless `inet_pton` reads the text as `::ffff:x.y.z.t` -/
theorem unwrap_spec (s : Str) :
    (unwrap L.toInet s = s ∧ ∀ b, L.pton6 s = some b → b.take 12 ≠ mappedPrefix) ∨
    (∃ b x y z t, L.pton6 s = some b ∧ b.take 12 = mappedPrefix ∧ b.drop 12 = [x, y, z, t] ∧
      unwrap L.toInet s = fmt4 (v4of x y z t)) := by
  cases hp : L.pton6 s with
  | none => exact Or.inl ⟨unwrap_of_none L hp, by intro b hb; cases hb⟩
  | some b =>
    have hl := L.length16 s b hp
    by_cases hm : b.take 12 = mappedPrefix
    · obtain ⟨x, y, z, t, e⟩ := list4 (b.drop 12) (by simp [hl])
      refine Or.inr ⟨b, x, y, z, t, rfl, hm, e, ?_⟩
      simp only [unwrap, hp, hm, if_true, hl]
      rw [show 16 - 4 = 12 from rfl, e, ntop4_eq]
    · exact Or.inl ⟨by simp [unwrap, hp, hm], by intro b' hb'; cases hb'; exact hm⟩

theorem normalizeIp_shaped {v : Str} (h : isV4Shaped v = true) (r : Bool) :
    normalizeIp L.toInet v r = normalize4 v r := by
  unfold normalizeIp; simp only [unwrap_v4shaped L h, h, if_true]

theorem normalize4_shaped {v o : Str} {r : Bool} (hs : isV4Shaped v = true) (h : normalize4 v r = .ok o) :
    isV4Shaped o = true := by
  unfold normalize4 at h
  cases hp : parse4 v with
  | none => rw [hp] at h; obtain ⟨_, ho⟩ := malformed_ok_inv h; subst ho; exact hs
  | some p => rw [hp] at h; cases h; exact fmt4_shaped p

end Vinegar.Addr

/-! ### the full-form instance satisfies `InetLaw` -/
namespace Vinegar.Addr.Full
open Vinegar Vinegar.Addr

theorem hexDigit_ne_slash : ∀ k, k < 16 → hexDigit false k ≠ '/' := by decide

theorem byteOf_hex2 (x : UInt8) : byteOf (hexDigit false (x.toNat / 16)) (hexDigit false (x.toNat % 16)) = some x := by
  have hx := x.toNat_lt
  have h1 := isHex_hexDigit false (x.toNat / 16) (by omega)
  have h2 := isHex_hexDigit false (x.toNat % 16) (by omega)
  have v1 := hexVal_hexDigit false (x.toNat / 16) (by omega)
  have v2 := hexVal_hexDigit false (x.toNat % 16) (by omega)
  unfold byteOf
  rw [if_pos ⟨h1, h2⟩, v1, v2]
  have : 16 * (x.toNat / 16) + x.toNat % 16 = x.toNat := by omega
  rw [this, UInt8.ofNat_toNat]

theorem parse_print : ∀ (b : List UInt8), b.length % 2 = 0 → b ≠ [] → parse (print b) = some b
  | [], _, h => absurd rfl h
  | [_], h, _ => by simp at h
  | [x, y], _, _ => by
    simp [print, hex2, fmt02, parse, byteOf_hex2]
  | x :: y :: z :: r, h, _ => by
    have ih := parse_print (z :: r) (by simp at h ⊢; omega) (by simp)
    simp only [print, hex2, fmt02, List.cons_append, List.nil_append, parse, byteOf_hex2, ih, if_true]

theorem print_noSlash : ∀ (b : List UInt8), '/' ∉ print b
  | [] => by simp [print]
  | [x] => by
    have hx := x.toNat_lt
    simp only [print, hex2, fmt02, List.mem_cons, List.not_mem_nil, or_false, not_or]
    exact ⟨(hexDigit_ne_slash _ (by omega)).symm, (hexDigit_ne_slash _ (by omega)).symm⟩
  | [x, y] => by
    have hx := x.toNat_lt; have hy := y.toNat_lt
    simp only [print, hex2, fmt02, List.cons_append, List.nil_append, List.mem_cons, List.not_mem_nil, or_false, not_or]
    exact ⟨(hexDigit_ne_slash _ (by omega)).symm, (hexDigit_ne_slash _ (by omega)).symm,
      (hexDigit_ne_slash _ (by omega)).symm, (hexDigit_ne_slash _ (by omega)).symm⟩
  | x :: y :: z :: r => by
    have ih := print_noSlash (z :: r)
    have hx := x.toNat_lt; have hy := y.toNat_lt
    simp only [print, hex2, fmt02, List.cons_append, List.nil_append, List.mem_cons, not_or]
    exact ⟨(hexDigit_ne_slash _ (by omega)).symm, (hexDigit_ne_slash _ (by omega)).symm,
      (hexDigit_ne_slash _ (by omega)).symm, (hexDigit_ne_slash _ (by omega)).symm, by decide, ih⟩

theorem print_colon : ∀ (b : List UInt8), 3 ≤ b.length → ':' ∈ print b
  | x :: y :: z :: r, _ => by simp [print]
  | [], h => by simp at h
  | [_], h => by simp at h
  | [_, _], h => by simp at h

theorem pton6_inv {s : Str} {b : List UInt8} (h : pton6 s = some b) : b.length = 16 ∧ print b = s := by
  unfold pton6 at h
  split at h
  · cases h
  · split at h
    · rename_i hc; cases h; exact hc
    · cases h

/-- the full-form instance satisfies the three laws -/
def law : InetLaw where
  pton6 := pton6
  ntop6 := print
  roundtrip := by
    intro b hb
    unfold pton6
    rw [parse_print b (by omega) (by intro e; simp [e] at hb)]
    simp [hb]
  length16 := fun _ _ h => (pton6_inv h).1
  shape := by
    intro s b h
    obtain ⟨hl, hs⟩ := pton6_inv h
    subst hs
    exact ⟨print_colon b (by omega), print_noSlash b⟩
end Vinegar.Addr.Full

/-! ### what the normalisers return on parsed input; injectivity of the generic printer -/
namespace Vinegar.Addr
open Vinegar

theorem normalize4_of_parse {s : Str} {p : V4} (h : parse4 s = some p) (r : Bool) :
    normalize4 s r = .ok (fmt4 p) := by simp [normalize4, h]

theorem normalize4_fmt4 (p : V4) (hv : p.Valid) (r : Bool) : normalize4 (fmt4 p) r = .ok (fmt4 p) :=
  normalize4_of_parse (parse4_fmt4 p hv) r

theorem normalizeMac_of_parse {s tc dl : Str} {up : Bool} {d : Char} {bs : List Nat}
    (ho : macOptions tc dl = some (up, d)) (hp : parseMac s = some bs) (r : Bool) :
    normalizeMac s tc dl r = .ok (fmtMac up d bs) := by simp [normalizeMac, ho, hp]

theorem normalize6_of_parse {I : Inet} {s : Str} {p : List UInt8 × Option Nat} (h : parse6 I s = some p) (r : Bool) :
    normalize6 I s r = .ok (I.ntop6 p.1 ++ fmtMask p.2) := by
  obtain ⟨b, m⟩ := p; simp [normalize6, h]

theorem wellFormedIpM_v4 (I : Inet) {s : Str} (hs : isV4Shaped s = true) : wellFormedIpM I s = wellFormed4m s := by
  unfold wellFormedIpM wellFormed4m parseIpPlain
  simp only [hs, if_true]
  cases parse4 s <;> simp [IpVal.hasMask]

theorem wellFormedIpM_v6 (I : Inet) {s : Str} (hs : isV4Shaped s = false) : wellFormedIpM I s = wellFormed6m I s := by
  unfold wellFormedIpM wellFormed6m parseIpPlain
  simp only [hs, Bool.false_eq_true, if_false]
  cases hp : parse6 I s with
  | none => simp
  | some p => obtain ⟨b, m⟩ := p; cases m <;> simp [IpVal.hasMask]

section
variable (L : InetLaw)

/-- the text `ip_address.normalize` prints for a value -/
def fmtIp (I : Inet) : IpVal → Str
  | .v4 p => fmt4 p
  | .v6 b m => I.ntop6 b ++ fmtMask m

def IpValid : IpVal → Prop
  | .v4 p => p.Valid
  | .v6 b m => Valid6 (b, m)

theorem parseIp_inv {s : Str} {v : IpVal} (h : parseIp L.toInet s = some v) :
    IpValid v ∧ ∀ r, normalizeIp L.toInet s r = .ok (fmtIp L.toInet v) := by
  unfold parseIp at h
  simp only at h
  by_cases hs : isV4Shaped (unwrap L.toInet s) = true
  · rw [if_pos hs] at h
    cases hp : parse4 (unwrap L.toInet s) with
    | none => simp [hp] at h
    | some p =>
      simp [hp] at h; subst h
      refine ⟨parse4_valid hp, fun r => ?_⟩
      unfold normalizeIp; simp only [hs, if_true]
      exact normalize4_of_parse hp r
  · rw [if_neg hs] at h
    cases hp : parse6 L.toInet (unwrap L.toInet s) with
    | none => simp [hp] at h
    | some p =>
      simp [hp] at h; subst h
      refine ⟨parse6_valid L hp, fun r => ?_⟩
      unfold normalizeIp; simp only [hs]
      exact normalize6_of_parse hp r

theorem fmtIp_inj {v w : IpVal} (hv : IpValid v) (hw : IpValid w) (h : fmtIp L.toInet v = fmtIp L.toInet w) : v = w := by
  cases v with
  | v4 p =>
    cases w with
    | v4 q =>
      simp only [fmtIp] at h
      have := parse4_fmt4 p hv
      rw [h, parse4_fmt4 q hw] at this
      injection this with this; rw [this]
    | v6 b m =>
      simp only [fmtIp] at h
      have h1 := v4shaped_noColon (fmt4_shaped p)
      have h2 : ':' ∈ L.ntop6 b ++ fmtMask m := List.mem_append.mpr (Or.inl (ntop_shape L hw.1).1)
      rw [h] at h1; exact absurd h2 h1
  | v6 b m =>
    cases w with
    | v4 q =>
      simp only [fmtIp] at h
      have h1 := v4shaped_noColon (fmt4_shaped q)
      have h2 : ':' ∈ L.ntop6 b ++ fmtMask m := List.mem_append.mpr (Or.inl (ntop_shape L hv.1).1)
      rw [← h] at h1; exact absurd h2 h1
    | v6 c k =>
      simp only [fmtIp] at h
      have := parse6_fmt L (b, m) hv
      simp only at this
      rw [h] at this
      have h2 := parse6_fmt L (c, k) hw
      simp only at h2
      rw [h2] at this
      injection this with this; injection this with h3 h4; rw [h3, h4]

end
end Vinegar.Addr
