import Vinegar.Model.Sqlite
/-
C15 — specification side.

The abstract state is a plain function `AMap = Key → Option Str` ("a single map
(system, key) → JSON value"), with the three writes as function updates. The property is stated

* as `Prop`s over an `AMap` (`GetDataSpec`, `FindSpec`, `ListSpec`, `UniqueSpec`, `ResOK`), used by
  the theorems of `Theorems/C15.lean` (refinement for every history), and
* as `Bool` checkers over ONE observation — the map before a step, the step's result, the map
  after it, all as dumped through an independent raw connection — `checkStep`/`checkTrace`.
  The checkers are proved equivalent to the `Prop`s (`Lemmas/Sqlite.lean`), are proved to accept
  every model output, and are evaluated by the driver on what the real code did.

No Mathlib import.
-/
namespace Vinegar.Sqlite

/-! ## The abstract map -/

abbrev AMap := Key → Option Str

/-- the abstract map a database content stands for -/
def abs (db : Db) : AMap := fun k => lookup k db

/-- the three writes, as function updates -/
def aApply : Intent → AMap → AMap
  | .nothing, m => m
  | .set k t, m => fun k' => if k' = k then some t else m k'
  | .del k, m => fun k' => if k' = k then none else m k'
  | .delSid s, m => fun k' => if k'.1 = s then none else m k'

/-- strictly increasing in the BINARY collation -/
def StrictSorted (l : List Str) : Prop := l.Pairwise (fun a b => ltStr a b = true)

/-- the map is in primary-key order without repetition -/
def Sorted (db : Db) : Prop := db.Pairwise (fun a b => ltKey a.1 b.1 = true)

instance (l : List Str) : Decidable (StrictSorted l) := by unfold StrictSorted; infer_instance
instance (db : Db) : Decidable (Sorted db) := by unfold Sorted; infer_instance

/-- `get_data(sid)`: exactly the keys of the system with their texts, in key order -/
def GetDataSpec (m : AMap) (sid : Str) (kvs : List (Str × Str)) : Prop :=
  StrictSorted (kvs.map (·.1)) ∧ ∀ k t, (k, t) ∈ kvs ↔ m (sid, k) = some t

/-- `find_systems(key, value)` with `t = dumps value`: exactly the systems whose stored text
equals `t`, in id order -/
def FindSpec (m : AMap) (key t : Str) (l : List Str) : Prop :=
  StrictSorted l ∧ ∀ s, s ∈ l ↔ m (s, key) = some t

/-- `list_systems()`: exactly the systems that have at least one key, in id order -/
def ListSpec (m : AMap) (l : List Str) : Prop :=
  StrictSorted l ∧ ∀ s, s ∈ l ↔ ∃ k t, m (s, k) = some t

/-- `find_system`: the unique matching system, if there is exactly one -/
def UniqueSpec (m : AMap) (key t : Str) (o : Option Str) : Prop :=
  ∀ s, o = some s ↔ (m (s, key) = some t ∧ ∀ s', m (s', key) = some t → s' = s)

/-- the strict value domain, stated independently of `_check_value`'s traversal -/
def jsonSafeKey : PyKey → Bool
  | .str _ => true
  | _ => false

mutual
def jsonSafe : PyVal → Bool
  | .none => true
  | .bool _ => true
  | .int _ => true
  | .float _ => true
  | .str _ => true
  | .list l => jsonSafeList l
  | .dict d => jsonSafeItems d
  | _ => false
def jsonSafeList : List PyVal → Bool
  | [] => true
  | v :: vs => jsonSafe v && jsonSafeList vs
def jsonSafeItems : List (PyKey × PyVal) → Bool
  | [] => true
  | (k, v) :: r => jsonSafeKey k && jsonSafe v && jsonSafeItems r
end

/-- what a `DataStore` operation must return on the abstract map `m` -/
def StoreResOK (strict : Bool) (op : StoreOp) (m : AMap) (r : Res) : Prop :=
  match op with
  | .setValue sid key v =>
    match setDecision strict sid key v with
    | .ok _ => r = .unit
    | .error e => r = .exc e
  | .deleteValue sid key => r = if validText sid && validText key then .unit else .exc .unicodeEncodeError
  | .deleteData sid => r = if validText sid then .unit else .exc .unicodeEncodeError
  | .getValue sid key =>
    if validText sid && validText key then
      r = match m (sid, key) with
        | some t => .text t
        | none => .exc .keyError
    else r = .exc .unicodeEncodeError
  | .getData sid =>
    if validText sid then ∃ kvs, r = .data kvs ∧ GetDataSpec m sid kvs else r = .exc .unicodeEncodeError
  | .findSystems key v =>
    match dumps v with
    | .error e => r = .exc e
    | .ok t =>
      if validText key then ∃ l, r = .systems l ∧ FindSpec m key t l else r = .exc .unicodeEncodeError
  | .listSystems => ∃ l, r = .systems l ∧ ListSpec m l

def SrcResOK (cfg : SrcCfg) (op : SrcOp) (m : AMap) (r : Res) : Prop :=
  match op with
  | .getData sid =>
    if validText sid then ∃ kvs, r = .wrapped (wrapData cfg.pfx kvs) ∧ GetDataSpec m sid kvs
    else r = .exc .unicodeEncodeError
  | .findSystem key v =>
    if cfg.findEnabled then
      match stripKey cfg.pfx key with
      | none => r = .optSystem none
      | some k =>
        match dumps v with
        | .error e => r = .exc e
        | .ok t =>
          if validText k then ∃ o, r = .optSystem o ∧ UniqueSpec m k t o else r = .exc .unicodeEncodeError
    else r = .optSystem none

def HandlerResOK (cfg : HCfg) (rq : Req) (m : AMap) (r : Res) : Prop :=
  match prepareContext cfg rq.uri with
  | none => r = .noMatch
  | some sid =>
    match decide' cfg sid rq with
    | .reply code => r = .status code
    | .outside => r = .status 200 ∨ r = .status 400
    | .perform op =>
      -- `handle` answers 200 exactly if the store operation returned; otherwise its exception escapes
      (StoreResOK true op m .unit ∧ r = .status 200) ∨ (∃ e, StoreResOK true op m (.exc e) ∧ r = .exc e)

/-- the result of one step, stated against the abstract map before the step -/
def ResOK (s : Step) (m : AMap) (r : Res) : Prop :=
  match s with
  | .store strict op => StoreResOK strict op m r
  | .source cfg op => SrcResOK cfg op m r
  | .handler cfg rq => HandlerResOK cfg rq m r

/-- a history run against the abstract map: every result is the one the map prescribes, and the
map evolves by the function updates of the steps' intents -/
def AbsRun : AMap → List Step → List Res → AMap → Prop
  | m, [], [], m' => m' = m
  | m, s :: ss, r :: rs, m' => ResOK s m r ∧ AbsRun (aApply (intent s) m) ss rs m'
  | _, _, _, _ => False

/-! ## Bool checkers over one observation -/

def keysOf (db : Db) : List Key := db.map (·.1)

/-- after the step the map is the function update of the map before it — compared on the finite
support (both dumps and the touched key); equivalent to equality of the abstract maps
(`effectOK_iff`) -/
def touched : Intent → List Key
  | .set k _ => [k]
  | _ => []

def effectOK (i : Intent) (pre post : Db) : Bool :=
  (touched i ++ keysOf pre ++ keysOf post).all (fun k => lookup k post == aApply i (abs pre) k)

def strictSortedB (l : List Str) : Bool := decide (StrictSorted l)

def getDataOK (pre : Db) (sid : Str) (kvs : List (Str × Str)) : Bool :=
  strictSortedB (kvs.map (·.1))
    && kvs.all (fun kv => lookup (sid, kv.1) pre == some kv.2)
    && pre.all (fun e => !(e.1.1 == sid) || (match lookup e.1 pre with
        | some t => kvs.contains (e.1.2, t)
        | none => true))

def findOK (pre : Db) (key t : Str) (l : List Str) : Bool :=
  strictSortedB l
    && l.all (fun s => lookup (s, key) pre == some t)
    && pre.all (fun e => !(e.1.2 == key && lookup e.1 pre == some t) || l.contains e.1.1)

def listOK (pre : Db) (l : List Str) : Bool :=
  strictSortedB l
    && l.all (fun s => pre.any (fun e => e.1.1 == s))
    && pre.all (fun e => l.contains e.1.1)

def uniqueOK (pre : Db) (key t : Str) (o : Option Str) : Bool :=
  match o with
  | some s => lookup (s, key) pre == some t
      && pre.all (fun e => !(e.1.2 == key && lookup e.1 pre == some t) || e.1.1 == s)
  | none =>
    -- no match, or two different matches
    !(pre.any (fun e => e.1.2 == key && lookup e.1 pre == some t))
      || pre.any (fun e => pre.any (fun e' => e.1.2 == key && e'.1.2 == key && lookup e.1 pre == some t
            && lookup e'.1 pre == some t && !(e.1.1 == e'.1.1)))

def storeResultOK (strict : Bool) (op : StoreOp) (pre : Db) (r : Res) : Bool :=
  match op with
  | .setValue sid key v =>
    match setDecision strict sid key v with
    | .ok _ => r == .unit
    | .error e => r == .exc e
  | .deleteValue sid key => r == (if validText sid && validText key then .unit else .exc .unicodeEncodeError)
  | .deleteData sid => r == (if validText sid then .unit else .exc .unicodeEncodeError)
  | .getValue sid key =>
    if validText sid && validText key then
      r == (match lookup (sid, key) pre with
        | some t => .text t
        | none => .exc .keyError)
    else r == .exc .unicodeEncodeError
  | .getData sid =>
    if validText sid then
      match r with
      | .data kvs => getDataOK pre sid kvs
      | _ => false
    else r == .exc .unicodeEncodeError
  | .findSystems key v =>
    match dumps v with
    | .error e => r == .exc e
    | .ok t =>
      if validText key then
        match r with
        | .systems l => findOK pre key t l
        | _ => false
      else r == .exc .unicodeEncodeError
  | .listSystems =>
    match r with
    | .systems l => listOK pre l
    | _ => false

def srcResultOK (cfg : SrcCfg) (op : SrcOp) (pre : Db) (r : Res) : Bool :=
  match op with
  | .getData sid =>
    if validText sid then
      match r with
      | .wrapped w =>
        -- the tree is the prefix wrapping of SOME row list that satisfies the get_data spec;
        -- the rows are found by descending along the prefix components
        (match descend (if cfg.pfx = [] then [] else splitColon cfg.pfx) w with
         | some (.data kvs) => w == wrapData cfg.pfx kvs && getDataOK pre sid kvs
         | _ => false)
      | _ => false
    else r == .exc .unicodeEncodeError
  | .findSystem key v =>
    if cfg.findEnabled then
      match stripKey cfg.pfx key with
      | none => r == .optSystem none
      | some k =>
        match dumps v with
        | .error e => r == .exc e
        | .ok t =>
          if validText k then
            match r with
            | .optSystem o => uniqueOK pre k t o
            | _ => false
          else r == .exc .unicodeEncodeError
    else r == .optSystem none

def handlerResultOK (cfg : HCfg) (rq : Req) (pre : Db) (r : Res) : Bool :=
  match prepareContext cfg rq.uri with
  | none => r == .noMatch
  | some sid =>
    match decide' cfg sid rq with
    | .reply code => r == .status code
    | .outside => r == .status 200 || r == .status 400
    | .perform op =>
      match r with
      | .status code => code == 200 && storeResultOK true op pre .unit
      | .exc e => storeResultOK true op pre (.exc e)
      | _ => false

def resultOK (s : Step) (pre : Db) (r : Res) : Bool :=
  match s with
  | .store strict op => storeResultOK strict op pre r
  | .source cfg op => srcResultOK cfg op pre r
  | .handler cfg rq => handlerResultOK cfg rq pre r

/-- a request whose JSON body is outside the modelled grammar: the handler may have stored a
value under its configured key of the addressed system, or nothing — never anything else -/
def outsideTarget : Step → Option Key
  | .handler cfg rq =>
    match prepareContext cfg rq.uri with
    | none => none
    | some sid =>
      match decide' cfg sid rq with
      | .outside => some (sid, cfg.key)
      | _ => none
  | _ => none

def stepEffectOK (s : Step) (pre : Db) (r : Res) (post : Db) : Bool :=
  match outsideTarget s with
  | none => effectOK (intent s) pre post
  | some k =>
    if r == .status 200 then
      (lookup k post).isSome
        && (keysOf pre ++ keysOf post).all (fun k' => k' == k || lookup k' post == lookup k' pre)
    else effectOK .nothing pre post

/-- the dump itself is a map in primary-key order (what `SELECT … ORDER BY system_id, key` over a
table with that primary key returns) -/
def sortedB (db : Db) : Bool := decide (Sorted db)

/-- ONE observed step: result and effect -/
def checkStep (s : Step) (pre : Db) (r : Res) (post : Db) : Bool :=
  resultOK s pre r && stepEffectOK s pre r post

/-- name of the first failing clause of a step (`none` = accepted) -/
def failedClause (s : Step) (pre : Db) (r : Res) (post : Db) : Option String :=
  if !resultOK s pre r then some "result"
  else if !stepEffectOK s pre r post then some "effect"
  else none

/-- a whole observed history `[(result, map after the step)]` from the initial map -/
def checkTrace : List Step → Db → List (Res × Db) → Bool
  | [], _, [] => true
  | s :: ss, pre, (r, post) :: rest => checkStep s pre r post && checkTrace ss post rest
  | _, _, _ => false

/-- index and clause of the first rejected step -/
def firstFailure : List Step → Db → List (Res × Db) → Nat → Option (Nat × String)
  | [], _, [], _ => none
  | s :: ss, pre, (r, post) :: rest, i =>
    match failedClause s pre r post with
    | some c => some (i, c)
    | none => firstFailure ss post rest (i + 1)
  | _, _, _, i => some (i, "length")

/-! ## Crash observation (thorough tier)

A writer process performed the steps in order, acknowledging each completed one, and was killed.
`acked` acknowledgements were received; the file was then dumped by a fresh process. Every
acknowledged write must be present, and the step in flight (if any) must have happened entirely
or not at all: the dump is the model's map after `acked` steps or after `acked + 1` steps. -/
def crashOK (steps : List Step) (init : Db) (acked : Nat) (final : Db) : Bool :=
  let a := (run (steps.take acked) init).2
  let b := (run (steps.take (acked + 1)) init).2
  final == a || final == b

end Vinegar.Sqlite
