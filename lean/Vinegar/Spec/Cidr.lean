import Vinegar.Model.Cidr
/-
C05 — the property as Bool checkers over ONE observation.

The membership reference is bit-level and does not use the model's byte loop: an address is in
a network iff the top `bits` bits of the two bit strings are equal (`topBitsEq`). Which entries are
well formed is decided by `parseAddr` (text → family, bytes, prefix length; see
`Vinegar.C05.parse_wellformed` for what that means).

`effectsOK` is the fail-closed / leak-nothing / deny-first clause: an unauthorised client gets
forbidden (or a data-source error if the data source failed, or an internal error if a wrongly
typed entry is present — DESIGN.md §7), and no file was touched, nothing rendered, the store untouched.
-/
namespace Vinegar.Cidr
open Vinegar Vinegar.Generated

/-- the eight bits of a byte, most significant first -/
def byteBits (x : UInt8) : List Bool :=
  [x.toNat.testBit 7, x.toNat.testBit 6, x.toNat.testBit 5, x.toNat.testBit 4,
   x.toNat.testBit 3, x.toNat.testBit 2, x.toNat.testBit 1, x.toNat.testBit 0]

/-- an address as a bit string, network order -/
def bitsOf (b : Bytes) : List Bool := b.flatMap byteBits

/-- reference membership: the top `bits` bits agree -/
def topBitsEq (ip net : Bytes) (bits : Nat) : Bool :=
  (bitsOf ip).take bits == (bitsOf net).take bits

/-- does the well-formed entry `c` admit the client `a` (both already parsed)?
An IPv4 client is compared with IPv4 networks as it is and with IPv6 networks as its IPv4-mapped
address; an IPv4-mapped IPv6 client is compared with IPv6 networks as it is and with IPv4 networks as
the embedded IPv4 address; any other IPv6 client only with IPv6 networks. -/
def refAdmits (n a : Parsed) : Bool :=
  match n.fam, a.fam with
  | .v4, .v4 => topBitsEq a.bytes n.bytes n.mask
  | .v6, .v6 => topBitsEq a.bytes n.bytes n.mask
  | .v6, .v4 => topBitsEq (mappedPrefix ++ a.bytes) n.bytes n.mask
  | .v4, .v6 => mappedPrefix.isPrefixOf a.bytes &&
      topBitsEq (a.bytes.drop (a.bytes.length - CIDR_MAPPED_V4_TAIL)) n.bytes n.mask

def refMatch (P : Pton) (allowMask : Bool) (client c : String) : Bool :=
  match parseAddr P allowMask c, parseAddr P false client with
  | some n, some a => refAdmits n a
  | _, _ => false

/-- reference of `contains_ip_address`: some well-formed entry admits the (well-formed) client -/
def refContains (P : Pton) (allowMask : Bool) (cands : List String) (client : String) : Bool :=
  cands.any (refMatch P allowMask client)

/-- the `str` entries of a typed collection -/
def strsOf : List Cand → List String
  | [] => []
  | .str s :: t => s :: strsOf t
  | .bad _ _ :: t => strsOf t

def Cand.isBad : Cand → Bool
  | .str _ => false
  | .bad _ _ => true

/-- is the client authorised by this collection (bit-level; wrongly typed entries admit nobody) -/
def authorisedBy (P : Pton) (ex : Expected) (client : String) : Bool :=
  match ex with
  | .unrestricted => true
  | .cands l => refContains P true (strsOf l) client
  | .nonIter => false
  | .raises => false

/-- does the collection involve a wrongly typed value -/
def Expected.hasBad : Expected → Bool
  | .unrestricted => false
  | .cands l => l.any Cand.isBad
  | .nonIter => true
  | .raises => true

/-! ### checkers over one observation -/

/-- direct call of `contains_ip_address`: never `True` unless the reference says so (no widening) -/
def containsSound (P : Pton) (allowMask : Bool) (cands : List String) (client : String) (result : Bool) : Bool :=
  !result || refContains P allowMask cands client

/-- direct call: exactly the reference -/
def containsExact (P : Pton) (allowMask : Bool) (cands : List String) (client : String) (result : Bool) : Bool :=
  result == refContains P allowMask cands client

/-- fail closed, leak nothing, deny before any change — for one handled request.
`authorised`: the bit-level decision over listed ∪ stored entries; `dsFailed`: the data source
raised during the request; `hasBad`: a wrongly typed value is involved (DESIGN.md §7). -/
def effectsOK (authorised dsFailed hasBad : Bool) (o : Outcome) (e : Effects) : Bool :=
  authorised ||
    ((o == .forbidden || (o == .dsError && dsFailed) || (o == .internalError && hasBad)) &&
      !e.fileTouched && !e.rendered && e.storeOps == 0)

/-- the same with the authorisation computed from the entries:
`restricted` — `client_address_key` and/or a non-empty `client_address_list` is configured;
`entries` — listed ∪ stored entries that are strings -/
def handlerOK (P : Pton) (restricted : Bool) (entries : List String) (client : String)
    (dsFailed hasBad : Bool) (o : Outcome) (e : Effects) : Bool :=
  effectsOK (!restricted || refContains P true entries client) dsFailed hasBad o e

/-- a client that is not authorised must not be able to tell worlds apart: when nothing failed and
nothing is wrongly typed the answer is `forbidden`, whatever exists -/
def uniformDenial (authorised dsFailed hasBad : Bool) (o : Outcome) : Bool :=
  authorised || dsFailed || hasBad || o == .forbidden

end Vinegar.Cidr
