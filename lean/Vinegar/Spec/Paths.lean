import Vinegar.Model.Paths
/-
Specifications of C06 (request-path matching and system lookup) and C04 (confinement of
file serving), written from the property statements and not from the handler's parsing
code: no segment lists, no prefix/suffix bookkeeping. Each notion exists as a `Prop`
(used by the theorems) and as a `Bool` checker over ONE observation (evaluated by the
driver on what the real handlers did, and proved to accept what the model does).

The only functions shared with the model are the models of stdlib primitives
(`unquote`, `splitOn`, `joinWith`), which the harness validates against Python.
-/
namespace Vinegar.Paths.Spec
open Vinegar Vinegar.Paths

/-! ## C06 — which requests are accepted, and with which lookup value -/

/-- all prefixes / suffixes of a string (search space of the bounded existentials) -/
def prefixes : Str → List Str
  | [] => [[]]
  | c :: cs => [] :: (prefixes cs).map (c :: ·)

def suffixes : Str → List Str
  | [] => [[]]
  | c :: cs => (c :: cs) :: suffixes cs

/-- `p` occurs in `s` as a contiguous substring -/
def occursIn (p s : Str) : Bool := (suffixes s).any (fun t => p.isPrefixOf t)

/-- position of the first occurrence of `ph` -/
def firstIndex (ph : Str) : Str → Option Nat
  | [] => if ph.isEmpty then some 0 else none
  | c :: cs => if ph.isPrefixOf (c :: cs) then some 0 else (firstIndex ph cs).map (· + 1)

/-- `ph` replaced by `v` at its first occurrence; `none` if `ph` does not occur -/
def substFirst (ph v : Str) : Str → Option Str
  | [] => if ph.isEmpty then some v else none
  | c :: cs =>
    if ph.isPrefixOf (c :: cs) then some (v ++ (c :: cs).drop ph.length)
    else (substFirst ph v cs).map (c :: ·)

/-- the configured path as a prefix to compare with: the lone "/" stands for the empty
    prefix (documented in `_init_request_path`: "the first '/' of an actual request is
    added to the extra path") -/
def effPath (rp : Str) : Str := if rp = ['/'] then [] else rp

/-- "the configured request_path with the placeholder replaced by `v`";
    without a lookup key there is no placeholder and the path is taken literally -/
def pattern (rp : Str) (ph : Option Str) (v : Str) : Option Str :=
  match ph with
  | none => some (effPath rp)
  | some ph => substFirst ph v (effPath rp)

/-- "a non-empty slash-free string" (canonically empty when there is no placeholder) -/
def valueOK (ph : Option Str) (v : Str) : Bool :=
  match ph with
  | none => v.isEmpty
  | some _ => !v.isEmpty && !v.contains '/'

/-- file mode: nothing may follow (for `request_path = "/"` the path "/" itself is the
    exact match); directory mode: a non-empty remaining path, which starts at a "/" -/
def modeOK (fileMode : Bool) (rp extra : Str) : Bool :=
  if fileMode then extra.isEmpty || (rp == ['/'] && extra == ['/'])
  else extra.head? == some '/'

/-- `v` (and the remaining path it determines) witnesses that `decoded` matches -/
def witnessOK (rp : Str) (ph : Option Str) (fileMode : Bool) (decoded v : Str) : Bool :=
  valueOK ph v &&
    match pattern rp ph v with
    | some t => t.isPrefixOf decoded && modeOK fileMode rp (decoded.drop t.length)
    | none => false

def encodedNul : Str := ['%', '0', '0']

def noNul (uri : Str) : Bool := !uri.contains '\x00' && !occursIn encodedNul uri

/-- the request path the statement talks about: query cut, percent-decoded once -/
def decodedPath (uri : Str) : Str := unquote (uri.takeWhile (fun c => c != '?'))

/-- where a witness can sit: the placeholder's position in the configured path fixes where
    `v` starts in the decoded path, and `v` is slash-free, so it is a prefix of the
    slash-free run that starts there (the search is complete: `mem_candidates`) -/
def candidates (rp : Str) (ph : Option Str) (decoded : Str) : List Str :=
  match ph with
  | none => [[]]
  | some ph =>
    match firstIndex ph (effPath rp) with
    | none => []
    | some i => prefixes ((decoded.drop i).takeWhile (fun c => c != '/'))

/-- every `v` for which the request matches -/
def witnesses (rp : Str) (ph : Option Str) (fileMode : Bool) (uri : Str) : List Str :=
  if noNul uri then
    (candidates rp ph (decodedPath uri)).filter (witnessOK rp ph fileMode (decodedPath uri))
  else []

/-- C06, first sentence, as a decision procedure -/
def accepts (rp : Str) (ph : Option Str) (fileMode : Bool) (uri : Str) : Bool :=
  !(witnesses rp ph fileMode uri).isEmpty

/-- C06, first sentence, as a proposition -/
def Accepts (rp : Str) (ph : Option Str) (fileMode : Bool) (uri : Str) : Prop :=
  '\x00' ∉ uri ∧ ¬ encodedNul <:+: uri ∧
  ∃ v extra t, valueOK ph v = true ∧ pattern rp ph v = some t ∧
    decodedPath uri = t ++ extra ∧ modeOK fileMode rp extra = true

/-- the remaining path that belongs to a witness -/
def extraOf (rp : Str) (ph : Option Str) (decoded v : Str) : Str :=
  match pattern rp ph v with
  | some t => decoded.drop t.length
  | none => []

/-- the name a TFTP client sends is treated like the same name with a leading slash -/
def slashed (f : Str) : Str := if f.head? == some '/' then f else '/' :: f

/-! ### the observation of one request and its checker -/

/-- the parts of the configuration the statement mentions -/
structure Setup where
  tftp : Bool
  requestPath : Str
  /-- `some ph` iff a lookup key is configured -/
  placeholder : Option Str
  fileMode : Bool
  lookupKey : Str
  /-- `lookup_no_result_action == "continue"` -/
  continueNoResult : Bool
  /-- `data_source_error_action == "error"` -/
  raiseDsErrors : Bool
  /-- template engine configured -/
  template : Bool
  /-- `client_address_key` configured (then the data is fetched even without a template) -/
  needsData : Bool
  /-- directory (`root_dir`) or file (`file`) served -/
  root : Str
  fileSuffix : Str

/-- the statement's view of a constructed handler -/
def setupOf (h : Handler) : Setup :=
  { tftp := h.cfg.tftp
    requestPath := h.cfg.requestPath
    placeholder := if truthy h.cfg.lookupKey then some h.cfg.placeholder else none
    fileMode := truthy h.cfg.file
    lookupKey := h.cfg.lookupKey.getD []
    continueNoResult := h.cfg.noResultAction == continueAction
    raiseDsErrors := h.cfg.dsErrorAction == actionError
    template := h.cfg.template
    needsData := truthy h.cfg.clientAddressKey
    root := if truthy h.cfg.file then h.cfg.file.getD [] else h.cfg.rootDir.getD []
    fileSuffix := h.cfg.fileSuffix.getD [] }

def Setup.request (s : Setup) (req : Str) : Str := if s.tftp then slashed req else req

/-- the system the statement calls "precisely that system": what the transformed value
    identifies. `none` inside = no system; outer `none` = the lookup raised. -/
def systemOf (s : Setup) (ds : DataSource) (w : Str) : Option (Option Str) :=
  if s.lookupKey = sysIdKey then some (some w) else ds.findSystem s.lookupKey w

/-- C06 on one observation: acceptance, the lookup call, the template context -/
structure C06Verdict where
  acceptOK : Bool
  lookupOK : Bool
  templateOK : Bool
deriving DecidableEq, Repr

def C06Verdict.all (v : C06Verdict) : Bool := v.acceptOK && v.lookupOK && v.templateOK

def isFind : Call → Bool
  | .findSystem _ _ => true
  | _ => false

def isData : Call → Bool
  | .getData _ => true
  | _ => false

/-- the lookup clause for a handled request whose witness is `v` -/
def lookupClause (s : Setup) (tr : Str → Option Str) (ds : DataSource) (v : Str) (ho : Seen) : Bool :=
  match s.placeholder with
  | none => ho.calls.isEmpty
  | some _ =>
    match tr v with
    | none => ho.calls.isEmpty && ho.outcome == some .internalError
    | some w =>
      -- exactly the transformed value is looked up, once, or used as the system id
      (if s.lookupKey = sysIdKey then (ho.calls.filter isFind).isEmpty
       else ho.calls.filter isFind == [.findSystem s.lookupKey w]) &&
      -- data is only ever requested for precisely that system, at most once
      (match systemOf s ds w with
       | some (some sid) => (ho.calls.filter isData).all (· == .getData sid) && (ho.calls.filter isData).length ≤ 1
       | _ => (ho.calls.filter isData).isEmpty)

/-- the template clause: id and data of precisely that system, or neither -/
def templateClause (s : Setup) (tr : Str → Option Str) (ds : DataSource) (v : Str) (ho : Seen) : Bool :=
  match ho.outcome with
  | some (.served _ _ (some tc)) =>
    match s.placeholder with
    | none => tc.id.isNone && tc.data.isNone
    | some _ =>
      match tr v with
      | none => false
      | some w =>
        match systemOf s ds w with
        | some (some sid) =>
          tc.id == some sid &&
            (match ds.getData sid with
             | some d => tc.data == some d.token
             | none => tc.data.isNone && !s.raiseDsErrors)
        | some none => tc.id.isNone && tc.data.isNone && s.continueNoResult
        | none => tc.id.isNone && tc.data.isNone && s.continueNoResult && !s.raiseDsErrors
  | some (.served _ _ none) => !s.template
  | _ => true

def c06Check (s : Setup) (tr : Str → Option Str) (ds : DataSource) (req : Str) (o : Seen) : C06Verdict :=
  let ws := witnesses s.requestPath s.placeholder s.fileMode (s.request req)
  let acceptOK := o.accepted == !ws.isEmpty
  match ws, o.outcome with
  | v :: _, some oc =>
    if oc == .methodNotAllowed then
      { acceptOK := acceptOK, lookupOK := o.calls.isEmpty, templateOK := true }
    else
      { acceptOK := acceptOK, lookupOK := lookupClause s tr ds v o, templateOK := templateClause s tr ds v o }
  | _, _ => { acceptOK := acceptOK, lookupOK := o.calls.isEmpty, templateOK := true }

/-- C06, last sentence: the TFTP handler's whole observation for a name equals the HTTP
    handler's observation (same configuration, method GET) for the name with a leading slash -/
def parityOK (tftpSeen httpSeen : Seen) : Bool := tftpSeen == httpSeen

/-! ## C04 — what may be opened and served -/

/-- a path component that stays where it is: not empty, not "." or "..", no NUL, no "/" -/
def safeSeg (s : Str) : Bool :=
  !s.isEmpty && s != dot && s != dotdot && !s.contains '\x00' && !s.contains '/'

/-- `p` lies below the directory `root`: `root/` followed by safe components only, so no
    prefix of `p` leaves `root` under POSIX resolution without symbolic links -/
def below (root p : Str) : Bool :=
  (root ++ ['/']).isPrefixOf p && (splitOn '/' (p.drop (root.length + 1))).all safeSeg

/-- reference resolution: the file that `root_dir/<decoded remaining path><file_suffix>`
    names (repeated slashes are one separator), or `none` when the remaining path has a
    NUL, a trailing slash (it names a directory), no component at all, or a "." / ".."
    component (never served) -/
def refTarget (root sfx e : Str) : Option Str :=
  let segs := (splitOn '/' e).filter (fun s => !s.isEmpty)
  if e.contains '\x00' || e.getLast? == some '/' || segs.isEmpty || segs.any (fun s => s == dot || s == dotdot) then none
  else some (root ++ '/' :: joinWith ['/'] segs ++ sfx)

/-- the regular file a path names in the tree, if any (names longer than NAME_MAX name nothing) -/
def regularAt : Node → List Str → Option Str
  | .file c, [] => some c
  | .dir _, [] => none
  | .file _, _ :: _ => none
  | .dir es, n :: rest =>
    if byteLen n > NAME_MAX then none
    else
      match lookupEntry n es with
      | none => none
      | some x => regularAt x rest

def regularFile (fs : Node) (path : Str) : Option Str :=
  if byteLen path ≥ PATH_MAX then none
  else regularAt fs ((splitOn '/' path).filter (fun s => !s.isEmpty && s != dot))

structure C04Verdict where
  /-- every opened / rendered path lies below root_dir (or is the configured file) -/
  confinedOK : Bool
  /-- it is the one file the request names -/
  targetOK : Bool
  /-- what is served is that regular file; only the allowed outcome classes occur -/
  outcomeOK : Bool
  /-- a request that is not accepted, not authorised or not permitted opens nothing -/
  quietOK : Bool
deriving DecidableEq, Repr

def C04Verdict.all (v : C04Verdict) : Bool := v.confinedOK && v.targetOK && v.outcomeOK && v.quietOK

/-- the one file a request may touch: the reference target of the remaining path that
    belongs to the witness (directory mode) or the configured file -/
def allowedTarget (s : Setup) (req : Str) : Option Str :=
  match witnesses s.requestPath s.placeholder s.fileMode (s.request req) with
  | v :: _ =>
    if s.fileMode then some s.root
    else refTarget s.root s.fileSuffix (extraOf s.requestPath s.placeholder (decodedPath (s.request req)) v)
  | [] => none

/-- `errorsConfigured`: the scenario contains a raising data source with action "error" or
    a raising transformation (then an internal error is the documented outcome) -/
def c04Check (s : Setup) (fs : Node) (errorsConfigured : Bool) (req : Str) (o : Seen) : C04Verdict :=
  let tgt := allowedTarget s req
  { confinedOK := o.opens.all (fun p => if s.fileMode then p == s.root else below s.root p),
    targetOK := o.opens.all (fun p => some p == tgt),
    outcomeOK :=
      (match o.outcome with
       | some (.served p c _) => some p == tgt && regularFile fs p == some c && o.opens.contains p
       | some .internalError => errorsConfigured
       | _ => true),
    quietOK :=
      (match o.outcome with
       | none => o.opens.isEmpty && !o.accepted
       | some .forbidden => o.opens.isEmpty
       | some .methodNotAllowed => o.opens.isEmpty
       | _ => o.accepted) }

end Vinegar.Paths.Spec
