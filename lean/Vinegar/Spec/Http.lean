import Vinegar.Model.Http
/-
Spec checkers of C03 (and of the HTTP halves of C09/C10/C20) over ONE observation.

C03 observation: the raw bytes a client read from the connection until the server closed it,
for a request whose handler did `res` (returned `(status, headers, body)` or raised), or for
which no handler was used (`Outcome`).  The checkers state the property, clause by clause:

  `parses`   exactly one well-formed HTTP/1.x response and nothing after it
  `status`   it carries the handler's status code (500 if the handler raised)
  `std`      the standard headers `Server`, `Date` come first
  `headers`  after the standard ones come exactly the returned headers (name and value), in order:
             none is missing and the server adds none of its own (a second `Content-Length`, say)
  `body`     the body is byte-identical to the returned stream (empty when absent; HEAD is
             served exactly like GET by this server, so the same holds for HEAD)
  `errpage`  bare status ≥ 400 (no headers, no body) / raising handler / 400 / 404 ⇒ the
             standard error page `ERRPAGE(code)` with its `Content-Length` (page omitted for HEAD)

The correspondence additionally demands byte identity with the model's `emit` (the driver takes
the two unconstrained values, `Server` and `Date`, from the implementation's response).
-/
namespace Vinegar.Http.Spec
open Vinegar Vinegar.Http

/-- names of the first two headers are `Server`, `Date` -/
def stdFirst (r : Response) : Bool :=
  match r.headers with
  | (n1, _) :: (n2, _) :: _ => n1 == lit "Server" && n2 == lit "Date"
  | _ => false

/-- value of the first header with exactly this name -/
def headerValue (name : Bytes) : List Header → Option Bytes
  | [] => none
  | (n, v) :: rest => if n == name then some v else headerValue name rest

/-- clause list for a response that must be the standard error page of `code` -/
def errorPageClauses (env : Env) (isHead : Bool) (code : Nat) (r : Response) : List (String × Bool) :=
  [("status", r.status == code),
   ("std", stdFirst r),
   ("errpage",
      (if errHasPage code then
        headerValue (lit "Content-Length") (r.headers.drop 2) == some (toDec (env.errPage code).length)
      else true) &&
      r.body == (if isHead || !errHasPage code then [] else env.errPage code))]

/-- clause list for a handler result. `headers`: "exactly the handler's headers" — `send_response`
contributes `Server` and `Date`, `_delegate_request` then sends the returned mapping item by item and
ends the header block; anything else between the standard headers and the empty line (a
`Content-Length: 0` of the server's own next to the handler's `Content-Length: 45`) is not the
handler's response. The headers of `send_error` are `errorPageClauses`' business. -/
def resultClauses (env : Env) (isHead : Bool) (res : Result) (r : Response) : List (String × Bool) :=
  match res with
  | .raised => errorPageClauses env isHead 500 r
  | .ret status headers body =>
    if isBare status headers body then errorPageClauses env isHead status r
    else
      [("status", r.status == status),
       ("std", stdFirst r),
       ("headers", r.headers.drop 2 == headers.getD []),
       ("body", r.body == body.getD [])]

def outcomeClauses (env : Env) (isHead : Bool) (out : Outcome) (r : Response) : List (String × Bool) :=
  match out with
  | .badRequest => errorPageClauses env isHead 400 r
  | .notFound => errorPageClauses env isHead 404 r
  | .failed => errorPageClauses env isHead 500 r
  | .handled _ res => resultClauses env isHead res r

/-- all clauses for raw bytes: `parses` first, then the clauses of the parsed response -/
def clauses (env : Env) (isHead : Bool) (out : Outcome) (raw : Bytes) : List (String × Bool) :=
  match parseResponse isHead raw with
  | some (r, []) => ("parses", true) :: outcomeClauses env isHead out r
  | _ => [("parses", false)]

/-- THE C03 checker over one observation -/
def c03Check (env : Env) (isHead : Bool) (out : Outcome) (raw : Bytes) : Bool :=
  (clauses env isHead out raw).all (·.2)

/-- name of the first failing clause -/
def firstFailed (cs : List (String × Bool)) : Option String :=
  (cs.find? (fun c => !c.2)).map (·.1)

/-- C03 / C10 on the call log: the implementation's log must be the model's -/
def callsOk (hs : List Handler) (path : Bytes) (log : List Call) : Bool :=
  if gate (stdlibPath path) then log == (dispatch hs).1 else log.isEmpty

/-- C09 (HTTP half): whatever the request bytes were, the connection shows nothing, or one
well-formed response (possibly followed by more well-formed responses is NOT allowed: the server
closes after one) -/
def c09ResponseOk (isHead : Bool) (raw : Bytes) : Bool :=
  raw.isEmpty ||
    (match parseResponse isHead raw with
     | some (_, []) => true
     | _ => false)

/-! ### lifecycle -/
namespace Lifecycle
open Vinegar.Http.Lifecycle

/-- what the prober saw after a lifecycle call returned (no other call in flight) -/
structure Probe where
  raised : Bool        -- the call raised
  accepts : Bool       -- a TCP connect to the port was accepted
  serves : Bool        -- a request got a well-formed response
  rebind : Bool        -- a fresh socket with SO_REUSEADDR could bind the port
  threadAlive : Bool   -- a main thread created by `start()` is alive
  deriving Repr, BEq, DecidableEq

/-- the probe a state must show -/
def expectProbe (s : State) (raised : Bool) : Probe :=
  ⟨raised, s.listening, serves s, rebindPossible s, s.threadAlive⟩

/-- "fully running or fully stopped" as a prober sees it -/
def probeConsistent (p : Probe) : Bool :=
  (p.accepts && p.serves && !p.rebind && p.threadAlive) ||
  (!p.accepts && !p.serves && p.rebind && !p.threadAlive)

def probeClauses (s : State) (raised : Bool) (p : Probe) : List (String × Bool) :=
  [("raised", p.raised == raised),
   ("port", p.accepts == s.listening && p.rebind == rebindPossible s),
   ("serves", p.serves == serves s),
   ("thread", p.threadAlive == s.threadAlive)]

/-- sequential history: after every call the probe is the one the automaton's state demands.
Returns the clause that failed first and the index of the step. -/
def historyCheck : State → List (Op × Probe) → Nat → Option (Nat × String)
  | _, [], _ => none
  | s, (op, p) :: rest, i =>
    let (s', raised) := call s op
    match firstFailed (probeClauses s' raised p) with
    | some c => some (i, c)
    | none => historyCheck s' rest (i + 1)

/-- the probes the automaton predicts for a history -/
def modelProbes : State → List Op → List Probe
  | _, [] => []
  | s, op :: rest => expectProbe (call s op).1 (call s op).2 :: modelProbes (call s op).1 rest

/-- concurrent calls: once all have returned nobody raised and the probe is consistent -/
def concurrentCheck (anyRaised : Bool) (p : Probe) : Bool := !anyRaised && probeConsistent p

end Lifecycle

end Vinegar.Http.Spec
