import Vinegar.Model.Addr
/-
C16 — the property as Bool checkers over ONE observation.

An observation of a transform `f` on input `value` is the triple
  (out, again)      out   = f(value)                as `Res` (string / ValueError / other exception)
                    again = f(out) when out is a string
and, for the canonicity clause, the outputs of `f` on TWO inputs.  The checkers speak about
the value an input denotes (`parse4`, `parseMac`, `parse6`, `parseIp`) and, for
net / broadcast / strip, about an independent bit-level reference: bit `i` (counted from
the most significant one) of the network address is the address bit for `i < mask` and 0
otherwise; of the broadcast address it is 1 otherwise.  The very same checkers are proved
to accept every output of the model (`Theorems/C16.lean`) and are evaluated by the driver
on what the real implementation returned.
-/
namespace Vinegar.Addr
open Vinegar

def Res.isOk : Res → Bool
  | .ok _ => true
  | _ => false

/-! ### clauses shared by all transforms -/

/-- "normalising twice equals normalising once" -/
def idemOk (out again : Res) : Bool :=
  match out with
  | .ok _ => again == out
  | _ => true

/-- "… or raises ValueError when so requested — never another exception":
`mayRaise` is `raise_error_if_malformed` (or, for the MAC transform, an invalid option). -/
def outcomeOk (mayRaise : Bool) (out : Res) : Bool :=
  match out with
  | .ok _ => true
  | .valueError => mayRaise
  | .crash => false

/-- "malformed input is returned unchanged, or raises ValueError when so requested — never a
silently altered value"; a well-formed input always yields a string. -/
def malformedOk (wellFormed raise : Bool) (value : Str) (out : Res) : Bool :=
  if wellFormed then out.isOk else out == malformed raise value

/-- "two input strings denote the same address iff their normalised outputs are equal"
for two well-formed inputs with parsed values `pa`, `pb` and outputs `ra`, `rb`. -/
def canonOk {α : Type} [DecidableEq α] (pa pb : Option α) (ra rb : Res) : Bool :=
  match pa, pb with
  | some x, some y => decide (ra = rb) == decide (x = y)
  | _, _ => true

/-! ### bit-level reference for net / broadcast -/

/-- every one of the `w` bits of `out` is the reference network-address bit -/
def netBitsOk (w m a out : Nat) : Bool :=
  (List.range w).all fun i => out.testBit (w - 1 - i) == (decide (i < m) && a.testBit (w - 1 - i))

/-- every one of the `w` bits of `out` is the reference broadcast-address bit -/
def bcastBitsOk (w m a out : Nat) : Bool :=
  (List.range w).all fun i => out.testBit (w - 1 - i) == (decide (m ≤ i) || a.testBit (w - 1 - i))

/-! ### IPv4 -/

def wellFormed4 (value : Str) : Bool := (parse4 value).isSome

/-- net / broadcast need a mask -/
def wellFormed4m (value : Str) : Bool :=
  match parse4 value with
  | some p => p.mask.isSome
  | none => false

/-- result of `net_address`: canonical text `a.b.c.d/m`, same mask, reference bits -/
def net4Ok (value : Str) (out : Res) : Bool :=
  match parse4 value with
  | some p =>
    match p.mask with
    | some m =>
      match out with
      | .ok o =>
        match parse4 o with
        | some q => q.mask == some m && netBitsOk 32 m (toInt4 p) (toInt4 q) && fmt4 q == o
        | none => false
      | _ => false
    | none => true
  | none => true

/-- result of `broadcast_address`: canonical text `a.b.c.d` (no mask), reference bits -/
def bcast4Ok (value : Str) (out : Res) : Bool :=
  match parse4 value with
  | some p =>
    match p.mask with
    | some m =>
      match out with
      | .ok o =>
        match parse4 o with
        | some q => q.mask == none && bcastBitsOk 32 m (toInt4 p) (toInt4 q) && fmt4 q == o
        | none => false
      | _ => false
    | none => true
  | none => true

/-- result of `strip_mask`: the same address (as a parsed address), no mask -/
def strip4Ok (value : Str) (out : Res) : Bool :=
  match parse4 value with
  | some p =>
    match out with
    | .ok o =>
      match parse4 o with
      | some q => q == { p with mask := none }
      | none => false
    | _ => false
  | none => true

/-! ### MAC -/

def wellFormedMac (value : Str) : Bool := (parseMac value).isSome

/-- the output of a valid option combination is exactly six two-digit groups in the requested
case joined by the requested delimiter, and denotes the same six bytes -/
def macFormOk (upper : Bool) (dl : Char) (value : Str) (out : Res) : Bool :=
  match parseMac value with
  | some bs =>
    match out with
    | .ok o => parseMac o == some bs && o == fmtMac upper dl bs
    | _ => false
  | none => true

/-! ### IPv6 (relative to `inet_pton` / `inet_ntop`) -/

def wellFormed6 (I : Inet) (value : Str) : Bool := (parse6 I value).isSome

def wellFormed6m (I : Inet) (value : Str) : Bool :=
  match parse6 I value with
  | some (_, some _) => true
  | _ => false

def net6Ok (I : Inet) (value : Str) (out : Res) : Bool :=
  match parse6 I value with
  | some (b, some m) =>
    match out with
    | .ok o =>
      match parse6 I o with
      | some (c, some k) =>
        k == m && netBitsOk 128 m (bytesToNat b) (bytesToNat c) && o == I.ntop6 c ++ '/' :: dec m
      | _ => false
    | _ => false
  | _ => true

def strip6Ok (I : Inet) (value : Str) (out : Res) : Bool :=
  match parse6 I value with
  | some (b, _) =>
    match out with
    | .ok o => parse6 I o == some (b, none)
    | _ => false
  | none => true

/-! ### generic transforms -/

/-- the value a string denotes for the generic transforms -/
inductive IpVal where
  | v4 (p : V4)
  | v6 (b : List UInt8) (mask : Option Nat)
  deriving DecidableEq, Repr

/-- denotation used by `ip_address.normalize`: IPv4-mapped IPv6 text denotes the IPv4 address -/
def parseIp (I : Inet) (value : Str) : Option IpVal :=
  let v := unwrap I value
  if isV4Shaped v then (parse4 v).map IpVal.v4
  else (parse6 I v).map fun (p : List UInt8 × Option Nat) => IpVal.v6 p.1 p.2

/-- denotation used by `ip_address.net_address` / `strip_mask` (no unwrapping there) -/
def parseIpPlain (I : Inet) (value : Str) : Option IpVal :=
  if isV4Shaped value then (parse4 value).map IpVal.v4
  else (parse6 I value).map fun (p : List UInt8 × Option Nat) => IpVal.v6 p.1 p.2

def IpVal.hasMask : IpVal → Bool
  | .v4 p => p.mask.isSome
  | .v6 _ m => m.isSome

/-- well-formed for `ip_address.net_address`: parses and has a mask -/
def wellFormedIpM (I : Inet) (value : Str) : Bool :=
  match parseIpPlain I value with
  | some v => v.hasMask
  | none => false

/-- "IPv4-mapped IPv6 input normalises to the IPv4 form in the generic transform":
if `inet_pton` reads `value` as `::ffff:a.b.c.d` the output is the text `a.b.c.d`. -/
def mappedOk (I : Inet) (value : Str) (out : Res) : Bool :=
  match I.pton6 value with
  | some b =>
    if b.take 12 = mappedPrefix then
      match b.drop 12 with
      | [x, y, z, t] => out == .ok (fmtQuad x.toNat y.toNat z.toNat t.toNat)
      | _ => true
    else true
  | none => true

def netIpOk (I : Inet) (value : Str) (out : Res) : Bool :=
  if isV4Shaped value then net4Ok value out else net6Ok I value out

def stripIpOk (I : Inet) (value : Str) (out : Res) : Bool :=
  if isV4Shaped value then strip4Ok value out else strip6Ok I value out

end Vinegar.Addr
