import Vinegar.Model.Merge
/-
Property C13 as `Bool` checkers over ONE observation (arguments + outcome of one
`merge_data_trees` call; call log + outcome of one composite `get_data` / `find_system`).

The checkers do not call `mergeVal` / `mergeDict` / `compositeRun`.  They are phrased from
the property text:
* key order: the result has `a`'s keys in order, then the keys of `b` that `a` lacks;
* per key: the decision table `expect` over the *kinds* of the two values (mapping /
  sequence / set / other) and the two flags says whether the values merge recursively,
  append-unseen, unite, override, or cannot be merged (TypeError);
* the recursion of `checkValue` follows the observed RESULT, not the arguments.
-/
namespace Vinegar.Merge

/-! ### decision table -/

inductive Expect where
  | recurse    -- both mappings: merged recursively
  | conflict   -- a mapping (or flagged sequence / set) meets a different kind: TypeError
  | append     -- both sequences, merge_lists on: first list, then unseen elements
  | union      -- both sets, merge_sets on: set union
  | override   -- the second value wins
  deriving DecidableEq, Repr

/-- what the property demands for a key present in both trees, by the kinds of the values -/
def expect (ml ms : Bool) : Kind → Kind → Expect
  | .mapping, .mapping => .recurse
  | .mapping, _ => .conflict
  | _, .mapping => .conflict
  | .seq, .seq => if ml then .append else .override
  | .set, .set => if ms then .union else .override
  | .seq, .set => if ml || ms then .conflict else .override
  | .set, .seq => if ml || ms then .conflict else .override
  | .seq, .other => if ml then .conflict else .override
  | .other, .seq => if ml then .conflict else .override
  | .set, .other => if ms then .conflict else .override
  | .other, .set => if ms then .conflict else .override
  | .other, .other => .override

/-! ### key order -/

def memKey (k : Key) (ks : List Key) : Bool := ks.any (fun k' => Key.pyEq k' k)

/-- `a`'s keys in order, then `b`'s keys that are new -/
def expectedKeys (a b : Dict) : List Key :=
  keysOf a ++ (keysOf b).filter (fun k => !memKey k (keysOf a))

def checkKeys (a b r : Dict) : Bool := keysOf r == expectedKeys a b

/-! ### sequences and sets -/

/-- no element equals an element of `acc` or an earlier element of the list -/
def freshChain (acc : List Val) : List Val → Bool
  | [] => true
  | y :: ys => !pyMem y acc && freshChain (acc ++ [y]) ys

/-- "first list, then unseen elements": `rs` starts with exactly the elements of `a`; the rest
is a subsequence of `b` none of whose members was already there; nothing of `b` is lost -/
def checkAppend (a b rs : List Val) : Bool :=
  rs.take a.length == a &&
  (rs.drop a.length).isSublist b &&
  freshChain a (rs.drop a.length) &&
  b.all (fun e => pyMem e rs)

/-- set union (order of `rs` is irrelevant): `a`'s elements are kept, every element of `b`
is present (up to `==`), nothing else is -/
def checkUnion (a b rs : List Val) : Bool :=
  a.all (fun x => rs.contains x) &&
  b.all (fun e => pyMem e rs) &&
  rs.all (fun x => a.contains x || b.contains x)

/-! ### per-key value spec and whole-result spec (recursion on the observed result) -/

/-- the entries of `b` whose key `a` does not have -/
def newEntries (a b : Dict) : Dict := b.filter (fun kv => !hasKey kv.1 a)

mutual
/-- is `r` an admissible merged value for a key that carries `v` in the first and `ov` in
the second tree? -/
def checkValue (ml ms : Bool) (v ov r : Val) : Bool :=
  match expect ml ms v.kind ov.kind with
  | .recurse =>
    (match v, ov, r with
     | .dict a, .dict b, .dict r' => checkEntries ml ms b (newEntries a b) a r'
     | _, _, _ => false)     -- two mappings must give a mapping
  | .conflict => false       -- no value is admissible: the call has to raise
  | .append =>
    (match r with
     | .list rs => checkAppend v.elems ov.elems rs
     | _ => false)
  | .union =>
    (match r with
     | .set rs => checkUnion v.elems ov.elems rs
     | _ => false)
  | .override => r == ov
termination_by structural r
/-- `r` = the entries of `a` in order (each merged with `b`'s value for the same key, if
any), followed by exactly `newB` -/
def checkEntries (ml ms : Bool) (b newB : Dict) : Dict → Dict → Bool
  | [], r => r == newB
  | (_ :: _), [] => false
  | (k, v) :: as, (k', rv) :: rs =>
    k' == k &&
    (match lookup k b with
     | some ov => checkValue ml ms v ov rv
     | Option.none => rv == v) &&
    checkEntries ml ms b newB as rs
termination_by structural _ r => r
end

/-- the result of merging `a` and `b` is `r` — keys, order and values -/
def checkDict (ml ms : Bool) (a b r : Dict) : Bool :=
  checkEntries ml ms b (newEntries a b) a r

/-- per-key formulation: every key of either tree is present with the right value -/
def checkLookup (ml ms : Bool) (a b r : Dict) : Bool :=
  (keysOf a ++ keysOf b).all (fun k =>
    match lookup k a, lookup k b, lookup k r with
    | some v, some ov, some rv => checkValue ml ms v ov rv
    | some v, Option.none, some rv => rv == v
    | Option.none, some ov, some rv => rv == ov
    | _, _, _ => false)

/-! ### TypeError iff -/

mutual
/-- the two values cannot be merged: directly, or somewhere below two mappings -/
def hasConflict (ml ms : Bool) : Val → Val → Bool
  | .dict a, .dict b => dictConflict ml ms a b
  | v, ov => expect ml ms v.kind ov.kind == .conflict
termination_by structural x => x
/-- some key common to both trees carries values that cannot be merged -/
def dictConflict (ml ms : Bool) : Dict → Dict → Bool
  | [], _ => false
  | (k, v) :: rest, b =>
    (match lookup k b with
     | some ov => hasConflict ml ms v ov
     | Option.none => false) || dictConflict ml ms rest b
termination_by structural x => x
end

/-- observation of one call: `.ok result` or `.error <exception class name>` -/
abbrev Outcome := Except String Dict

/-- TypeError exactly when a conflict exists; otherwise the documented result -/
def checkOutcome (ml ms : Bool) (a b : Dict) : Outcome → Bool
  | .ok r => !dictConflict ml ms a b && checkDict ml ms a b r
  | .error c => c == "TypeError" && dictConflict ml ms a b

/-- only the "raises TypeError iff" half -/
def checkTypeErrorIff (ml ms : Bool) (a b : Dict) : Outcome → Bool
  | .ok _ => !dictConflict ml ms a b
  | .error c => c == "TypeError" && dictConflict ml ms a b

/-- `merge({}, b) == b` (checked when `a` is empty) -/
def checkEmptyLeft (b : Dict) : Outcome → Bool
  | .ok r => r == b
  | .error _ => false

/-- `merge(a, {}) == a` (checked when `b` is empty) -/
def checkEmptyRight (a : Dict) : Outcome → Bool
  | .ok r => r == a
  | .error _ => false

/-- how the harness sees the model's outcome: exceptions by class name -/
def observedOutcome : Except TypeError Dict → Outcome
  | .ok d => .ok d
  | .error _ => .error "TypeError"

/-! ### the two bracketings of a triple -/

/-- `merge(merge(a, b), c)`; an exception of the inner call is the exception of the whole -/
def mergeLeft (ml ms : Bool) (a b c : Dict) : Except TypeError Dict :=
  match mergeDict ml ms a b with
  | .ok ab => mergeDict ml ms ab c
  | .error e => .error e

/-- `merge(a, merge(b, c))` -/
def mergeRight (ml ms : Bool) (a b c : Dict) : Except TypeError Dict :=
  match mergeDict ml ms b c with
  | .ok bc => mergeDict ml ms a bc
  | .error e => .error e

/-! ### composite source -/

def CompErr.name : CompErr → String
  | .typeError _ => "TypeError"
  | .raised c => c

/-- how the harness sees a composite `get_data` outcome -/
def observedResult : Except CompErr (Dict × String) → Except String (Dict × String)
  | .ok r => .ok r
  | .error e => .error e.name

/-- one recorded `get_data` call of a constituent source: what it was given, what it did -/
structure GetEntry where
  sid : String
  pd : Dict
  pv : String
  out : Except String (Dict × String)

/-- the merged data / version that became visible after a step: the arguments of the next
call, or the composite's return value -/
def nextState : List GetEntry → Except String (Dict × String) → Option (Dict × String)
  | e :: _, _ => some (e.pd, e.pv)
  | [], .ok s => some s
  | [], .error _ => Option.none

def resultIsError (res : Except String (Dict × String)) (c : String) : Bool :=
  match res with
  | .error c' => c' == c
  | .ok _ => false

/--
`n` sources remain, the next one has to be called with `(sid, pd, pv)`.
Each source is called in order with the system id, the merge (per `checkDict`) of everything
before it and the aggregated version `H(pv | nv)` of everything before it; a raising source or
a merge conflict ends the run with that exception; otherwise the last state is returned.
-/
def checkChain (H : String → String) (ml ms : Bool) (sid : String) :
    Nat → Dict → String → List GetEntry → Except String (Dict × String) → Bool
  | n, pd, pv, [], res =>
    n == 0 &&
    (match res with
     | .ok (d, v) => d == pd && v == pv
     | .error _ => false)
  | n, pd, pv, e :: rest, res =>
    n != 0 && e.sid == sid && e.pd == pd && e.pv == pv &&
    (match e.out with
     | .error c => rest.isEmpty && resultIsError res c
     | .ok (nd, nv) =>
       if dictConflict ml ms pd nd then rest.isEmpty && resultIsError res "TypeError"
       else
         match nextState rest res with
         | Option.none => false
         | some (pd', pv') =>
           checkDict ml ms pd nd pd' && pv' == H (pv ++ "|" ++ nv) &&
           checkChain H ml ms sid (n - 1) pd' pv' rest res)

/-- the model's call log paired with what the (pure) sources answered -/
def getEntriesOf : List Source → List GetCall → List GetEntry
  | s :: ss, c :: cs => ⟨c.sid, c.pd, c.pv, s.getData c.sid c.pd c.pv⟩ :: getEntriesOf ss cs
  | _, _ => []

/-- one recorded `find_system` call of a constituent source -/
structure FindEntry where
  key : String
  value : Val
  out : Except String (Option String)

def findOutBeq : Except String (Option String) → Except String (Option String) → Bool
  | .ok a, .ok b => a == b
  | .error a, .error b => a == b
  | _, _ => false

/-- the sources are asked in order with the unchanged key and value, up to and including the
first one that does not answer `None`; its answer (or exception) is the composite's; if all
`n` answer `None` so does the composite -/
def checkFind (key : String) (value : Val) :
    Nat → List FindEntry → Except String (Option String) → Bool
  | n, [], res => n == 0 && findOutBeq res (.ok Option.none)
  | n, e :: rest, res =>
    n != 0 && e.key == key && e.value == value &&
    (match e.out with
     | .ok Option.none => checkFind key value (n - 1) rest res
     | r => rest.isEmpty && findOutBeq res r)

/-- the `find_system` calls the model makes: the first `n` sources, each asked `(key, value)` -/
def findEntriesOf (srcs : List Source) (key : String) (value : Val) (n : Nat) : List FindEntry :=
  (srcs.take n).map (fun s => ⟨key, value, s.findSystem key value⟩)

end Vinegar.Merge
