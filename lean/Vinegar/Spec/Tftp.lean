import Vinegar.Model.Tftp
/-
Bool-valued checkers of the TFTP properties over ONE observed trace (chronological
`List Obs`). The same functions are (a) proved to accept every trace of the model
(`Theorems/C0x.lean`) and (b) evaluated by the driver on the trace the real
implementation produced in the simulation.
-/
namespace Vinegar.Tftp
open Vinegar

def opcodeOf : Bytes → Option Nat
  | hi :: lo :: _ => some (unbe16 hi lo)
  | _ => none

/-- DATA or OACK: the packets that are subject to lock-step and retransmission -/
def isFlow (p : Bytes) : Bool :=
  opcodeOf p == some opDATA || opcodeOf p == some opOACK

/-- block number whose ACK releases a flow packet -/
def expectOf (p : Bytes) : Option Nat :=
  match p with
  | hi :: lo :: rest =>
    if unbe16 hi lo = opOACK then some 0
    else if unbe16 hi lo = opDATA then
      (match rest with
       | a :: b :: _ => some (unbe16 a b)
       | _ => none)
    else none
  | _ => none

/-! ### C02: lock-step, retransmission on timeout only, bounded, silent after the end -/

structure Cur where
  packet : Bytes
  expect : Nat
  /-- transmissions so far -/
  count : Nat
  /-- time of the latest transmission -/
  tryStart : Nat
  /-- the server's clock: when it finished handling the latest event -/
  busyUntil : Nat
  acked : Bool
  lastWasTimeout : Bool
deriving Repr, DecidableEq

inductive Phase where
  | idle
  | flow (c : Cur)
  | ended
deriving Repr, DecidableEq

/-- one event of the trace; `none` = the property is violated. `T` = retransmission
interval in ticks, `R` = max_retries. -/
def c02Step (T R : Nat) (ph : Phase) (o : Obs) : Option Phase :=
  match o with
  | .send t dst p =>
    if dst = 0 then
      if isFlow p then
        match expectOf p, ph with
        | none, _ => none
        | some e, .idle => some (.flow ⟨p, e, 1, t, t, false, false⟩)
        | some e, .flow c =>
          if p = c.packet then
            -- a retransmission: only straight after a timeout, only while unacknowledged,
            -- at most 1 + R transmissions
            if c.lastWasTimeout && !c.acked && decide (c.count < R + 1) then
              some (.flow { c with count := c.count + 1, tryStart := t, busyUntil := t, lastWasTimeout := false })
            else none
          else
            -- the next packet: only after the acknowledgement of the previous one
            if c.acked then some (.flow ⟨p, e, 1, t, t, false, false⟩) else none
        | some _, .ended => none
      else some .ended
    else
      match ph with
      | .flow c => some (.flow { c with lastWasTimeout := false })
      | other => some other
  | .recv _ done src data =>
    match ph with
    | .flow c =>
      if src = 0 then
        match classify data with
        | .ack n => some (.flow { c with acked := c.acked || decide (n = c.expect), busyUntil := done, lastWasTimeout := false })
        | .invalid => some .ended
        | .peerError => some .ended
      else some (.flow { c with busyUntil := done, lastWasTimeout := false })
    | other => some other
  | .timeout t =>
    match ph with
    | .flow c =>
      -- the timeout of a try fires at the deadline set when the try started; strays neither
      -- trigger a resend nor move the deadline (one tick of slack if the server was still busy)
      if !c.acked && decide (t = if c.tryStart + T > c.busyUntil then c.tryStart + T else c.busyUntil + 1) then
        if c.count = R + 1 then some .ended
        else some (.flow { c with busyUntil := t, lastWasTimeout := true })
      else none
    | _ => none
  | _ => some ph

def runSteps {σ : Type} (step : σ → Obs → Option σ) : σ → List Obs → Option σ
  | s, [] => some s
  | s, o :: os =>
    match step s o with
    | none => none
    | some s' => runSteps step s' os

def c02Check (T R : Nat) (tr : List Obs) : Bool := (runSteps (c02Step T R) .idle tr).isSome

/-! ### C01 / C08: what is delivered -/

/-- DATA packets sent to the client, in order, retransmissions included -/
def clientData : List Obs → List Bytes
  | [] => []
  | .send _ dst p :: rest =>
    if dst = 0 ∧ opcodeOf p = some opDATA then p :: clientData rest else clientData rest
  | _ :: rest => clientData rest

/-- adjacent duplicates removed -/
def dedupAdj : List Bytes → List Bytes
  | [] => []
  | [x] => [x]
  | x :: y :: r => if x = y then dedupAdj (y :: r) else x :: dedupAdj (y :: r)

/-- DATA packets sent to the client, retransmissions removed (a retransmission is
byte-identical to, and directly follows, the packet it repeats) -/
def dataFirsts (tr : List Obs) : List Bytes := dedupAdj (clientData tr)

/-- the ideal DATA packets for a payload sequence: numbered 1, 2, …, continuing at the
wrap value after MAX_BLOCK_NUMBER, cut where the counter overflows without a wrap value -/
def idealPackets (wrap : Option Nat) : Nat → List Bytes → List Bytes
  | _, [] => []
  | prev, b :: bs =>
    match nextBlock wrap prev with
    | none => []
    | some n => dataPacket n b :: idealPackets wrap n bs

def idealBlocks (na : Bool) (bs : Nat) (content : Bytes) : List Bytes :=
  splitBlocks bs (2 * content.length + 2) (expectedOutput na content)

/-- the client misbehaved or a try budget ran out: some recv from the client is not an ACK,
or the C02 automaton reached `ended` -/
def sawAbort (T R : Nat) (tr : List Obs) : Bool :=
  match runSteps (c02Step T R) .idle tr with
  | some (.flow c) => !c.acked
  | some .idle => false
  | _ => true

/-- a transfer may only stop while a packet is unacknowledged after a client ERROR, an invalid
packet or the LAST permitted timeout (these lead the automaton to `ended`): stopping earlier would
abandon a client whose losses stayed within the retry budget -/
def finalOK : Phase → Bool
  | .idle => true
  | .ended => true
  | .flow c => c.acked

def noPrematureGiveUp (T R : Nat) (tr : List Obs) : Bool :=
  match runSteps (c02Step T R) .idle tr with
  | some ph => finalOK ph
  | none => true   -- rejected by the automaton: reported by `c02Check`

/-- a datagram to the requesting client that is neither DATA nor OACK: the server ends the
transfer of its own accord (an ERROR packet) -/
def isServerError : Obs → Bool
  | .send _ dst p => dst == 0 && !isFlow p
  | _ => false

def isEnded : Phase → Bool
  | .ended => true
  | _ => false

/-- `ph`: phase of the C02 automaton before the remaining events, `sentRev`: the DATA packets sent
to the client so far, newest first. A trace the automaton rejects is reported by `c02Check`. -/
def errorsJustifiedFrom (T R : Nat) (ideal : List Bytes) : Phase → List Bytes → List Obs → Bool
  | _, _, [] => true
  | ph, sentRev, o :: rest =>
    (!isServerError o || isEnded ph || dedupAdj sentRev.reverse == ideal) &&
    match c02Step T R ph o with
    | none => true
    | some ph' => errorsJustifiedFrom T R ideal ph' ((clientData [o]).reverse ++ sentRev) rest

/-- the server may end a transfer with a packet of its own (ERROR) only when the transfer is over
anyway — the client sent an invalid packet or an ERROR, or the retry budget ran out (the C02
automaton is in `ended`) — or when every ideal DATA packet has been sent before (counter overflow
with wrapping disabled: the ideal sequence stops at block 65535). An ERROR packet out of the blue —
before the first packet, while a packet is outstanding, after an acknowledgement with content left —
is not an "abort" that excuses the missing rest. -/
def serverErrorsJustified (T R : Nat) (ideal : List Bytes) (tr : List Obs) : Bool :=
  errorsJustifiedFrom T R ideal .idle [] tr

/-- the content needs more blocks than there are ideal packets: the block counter overflows with
wrapping disabled (`idealPackets` is cut after block 65535) -/
def tooLong (blocks ideal : List Bytes) : Bool := decide (ideal.length < blocks.length)

/-- "when counter wrapping is disabled an over-long transfer ENDS WITH AN ERROR": when the content
needs more blocks than the ideal packet sequence has and every ideal packet has been sent, the
C02 automaton must leave the trace in `ended` — through the server's ERROR packet (any datagram to
the client that is neither DATA nor OACK), the client's ERROR or invalid packet, or the last
permitted timeout of block 65535. A server that just goes silent (closes the socket) once block
65535 is acknowledged leaves the automaton in `flow` with `acked`, which the other conjuncts accept:
all ideal packets were sent and nothing is outstanding. One pass over the trace. A trace the
automaton rejects is reported by `c02Check`. -/
def overflowEndsWithError (T R : Nat) (blocks ideal : List Bytes) (tr : List Obs) : Bool :=
  !(tooLong blocks ideal && dataFirsts tr == ideal) ||
    match runSteps (c02Step T R) .idle tr with
    | some ph => isEnded ph
    | none => true

/-- C01 checker: what was sent is a prefix of the ideal packet sequence, and the whole of it
unless the transfer was aborted (client error / invalid packet / retries exhausted / overflow);
it is not abandoned while the retry budget of the outstanding packet is not used up; the server
itself aborts (sends ERROR) only in answer to the client's abort or after the last ideal packet;
and after the last ideal packet of a transfer that is too long for the block counter it does so -/
def c01Check (na : Bool) (bs : Nat) (wrap : Option Nat) (T R : Nat) (content : Bytes) (tr : List Obs) : Bool :=
  let datas := dataFirsts tr
  let ideal := idealPackets wrap 0 (idealBlocks na bs content)
  datas.isPrefixOf ideal && (sawAbort T R tr || datas == ideal) && noPrematureGiveUp T R tr &&
    serverErrorsJustified T R ideal tr &&
    overflowEndsWithError T R (idealBlocks na bs content) ideal tr

/-- payloads of the observed DATA packets -/
def payloadsOf (datas : List Bytes) : List Bytes := datas.map (fun p => p.drop 4)

/-! ### C09 / C20: errors, foreign peers, resources -/

/-- a well-formed ERROR packet: opcode, code, NUL-terminated 7-bit message without inner NUL -/
def wellFormedError (p : Bytes) : Bool :=
  match p with
  | hi :: lo :: _ :: _ :: msg =>
    unbe16 hi lo == opERROR &&
      (match msg.getLast? with
       | some z => z == 0 && msg.dropLast.all (fun x => x != 0 && x.toNat < 128)
       | none => false)
  | _ => false

def errorCodeOf (p : Bytes) : Option Nat :=
  match p with
  | hi :: lo :: a :: b :: _ => if unbe16 hi lo = opERROR then some (unbe16 a b) else none
  | _ => none

structure C09State where
  /-- no further datagram may go to the client -/
  closed : Bool
  /-- the client sent an ERROR: the transfer has to end silently -/
  silent : Bool
deriving Repr, DecidableEq

/-- `allowLog`: the handler (or its stream) raised, which is the only legitimate reason for
an exception record -/
def c09Step (allowLog : Bool) (s : C09State) (o : Obs) : Option C09State :=
  match o with
  | .send _ dst p =>
    if dst = 0 then
      if s.closed || s.silent then none
      else if opcodeOf p = some opERROR then
        if wellFormedError p then some { s with closed := true } else none
      else some s
    else
      -- foreign peers get ERROR 5 and nothing else
      if wellFormedError p && errorCodeOf p == some Generated.ERROR_UNKNOWN_TRANSFER_ID then some s else none
  | .recv _ _ src data =>
    if src = 0 then
      match classify data with
      | .peerError => some { s with silent := true }
      | _ => some s
    else some s
  | .logException => if allowLog then some s else none
  | _ => some s

def c09Check (allowLog : Bool) (tr : List Obs) : Bool :=
  (runSteps (c09Step allowLog) ⟨false, false⟩ tr).isSome

/-- an invalid packet from the client is answered by exactly one ERROR, and is the last thing received -/
def invalidAnswered : List Obs → Bool
  | [] => true
  | .recv _ done src data :: rest =>
    if src = 0 ∧ classify data = .invalid then
      (match rest with
       | .send t 0 p :: rest' => t == done && wellFormedError p && rest'.all (fun o => match o with
           | .send _ _ _ => false
           | .recv _ _ _ _ => false
           | .timeout _ => false
           | _ => true)
       | _ => false)
    else invalidAnswered rest
  | _ :: rest => invalidAnswered rest

def countObs (p : Obs → Bool) (tr : List Obs) : Nat := (tr.filter p).length

/-- C20 (transfer half): the socket is closed exactly once, as the very last event; the file
exactly once directly before it iff the handler returned a stream -/
def resourcesOK (hasFile : Bool) (tr : List Obs) : Bool :=
  let nSock := countObs (· == .closeSocket) tr
  let nFile := countObs (· == .closeFile) tr
  nSock == 1 && tr.getLast? == some .closeSocket &&
    (if hasFile then nFile == 1 && tr.dropLast.getLast? == some .closeFile else nFile == 0)

/-- C09, request port: a datagram is answered by at most one well-formed ERROR packet or by
a transfer, and never reaches the internal-error path -/
def requestPortOK (replies : List Bytes) (nTransfers : Nat) (loggedException : Bool) : Bool :=
  !loggedException && decide (replies.length + nTransfers ≤ 1) && replies.all wellFormedError

/-- the k-th NUL-terminated field of a byte string (counted from 0) -/
def fieldAt : Bytes → Nat → Bytes
  | b, 0 => b.takeWhile (· != 0)
  | b, k + 1 => fieldAt ((b.dropWhile (· != 0)).drop 1) k

/-- RFC 1350 / RFC 2347 shape of a read request, stated on the bytes without the decoder: opcode 1,
then NUL-terminated fields up to the very end of the datagram - the file name, a mode name (letter
case ignored) and option name/value PAIRS, hence an even number >= 2 of terminators -/
def rfcShape (data : Bytes) : Bool :=
  match data with
  | hi :: lo :: body =>
    unbe16 hi lo == opRRQ && body.getLast? == some 0 &&
      decide (2 ≤ body.count 0) && body.count 0 % 2 == 0 &&
      (modeOf (asciiIgnore (fieldAt body 1))).isSome
  | _ => false

/-- C09, request port, full clause: as `requestPortOK`, and a transfer is started only for a datagram
of the RFC shape (what the socket delivers: the first `maxReq` bytes) -/
def requestPortOK2 (data : Bytes) (replies : List Bytes) (nTransfers : Nat) (loggedException : Bool) : Bool :=
  requestPortOK replies nTransfers loggedException && (nTransfers == 0 || rfcShape (data.take maxReq))

/-- a handler raised while being asked whether it accepts (not a fault of the client's bytes): the
exception may be logged, but nothing is sent, no transfer is started (and the port keeps serving: the
next datagram is judged on its own) -/
def requestPortFaultOK (replies : List Bytes) (nTransfers : Nat) : Bool :=
  replies.isEmpty && nTransfers == 0

/-- the request port's own reply for a model result -/
def replyOf : ReqResult → List Bytes
  | .error c => [errorPacket c []]
  | _ => []

def transfersOf : ReqResult → Nat
  | .transfer _ _ => 1
  | _ => 0

/-! ### C07: the transfer honours what was acknowledged -/

/-- the OACK of the trace, if the first datagram to the client is one -/
def firstClientSend : List Obs → Option Bytes
  | [] => none
  | .send _ dst p :: rest => if dst = 0 then some p else firstClientSend rest
  | _ :: rest => firstClientSend rest

/-- every datagram sent to the client satisfies `q` -/
def clientSendsSat (q : Bytes → Bool) (obs : List Obs) : Bool :=
  obs.all (fun o => match o with
    | .send _ dst p => dst != 0 || q p
    | _ => true)

/-- C07 checker: when the negotiation accepted nothing no OACK is ever sent; otherwise the first
datagram to the client is the OACK the negotiation prescribes and every OACK sent is that very
packet (retransmissions). Block size, interval and "block 1 only after ACK 0" are enforced through
`c01Check`/`c02Check` run with the negotiated values. -/
def c07Check (neg : Negotiated) (tr : List Obs) : Bool :=
  if neg.oack.isEmpty then clientSendsSat (fun p => opcodeOf p != some opOACK) tr
  else
    firstClientSend tr == some (oackPacket neg.oack) &&
    clientSendsSat (fun p => opcodeOf p != some opOACK || p == oackPacket neg.oack) tr

/-- tsize acknowledged = bytes transferred (for a completed transfer), printed canonically -/
def tsizeMatches (neg : Negotiated) (tr : List Obs) (completed : Bool) : Bool :=
  match dictGet neg.oack optTsize with
  | none => true
  | some v => !completed ||
      (showNat (parseNat v) == v && parseNat v == (payloadsOf (dataFirsts tr)).flatten.length)

end Vinegar.Tftp
