import Vinegar.Model.TextFile
/-
Property C14, written from its statement and from the module documentation of
`vinegar/data_source/text_file.py` — not from `_update_data`:

* "A system's data is built from the first non-ignored, matching line that yields its ID,
  exactly per the variable configuration (named or numbered groups, transformation chains,
  None handling, colon-nested keys), mismatching and duplicate lines being handled per the
  configured actions"  → `specRecords` (one record per system, in file order).
* "find_system returns the single system whose variable has the given value (the first in
  file order if so configured), otherwise None" → `specFind` (no index involved).
* "After any change of the file every call reflects the new content completely — no remnants
  of the old content, also after a failed parse or a missing file" → `reloadOK`: every call of
  a history answers what the file's CURRENT content specifies; the checker keeps no source
  state at all.
* "a system's version changes whenever its data changes" → `versionsOK`.

Shared vocabulary taken from the model file: values, insertion-ordered mappings and
`setPath` (Python `dict` semantics), `applyChain` (the transformation functions), `groupOf`.
-/
namespace Vinegar.TextFile

/-- the documented value of one variable on a matching line: the group's text run through
the chain; an optional group that did not take part gives `None` without being transformed
unless `transform_none_value` is set -/
def specValue (vc : VarCfg) (g : Groups) : Except Err Val :=
  match groupOf g vc.source with
  | none => .error "IndexError"
  | some none => if vc.transformNone then applyChain vc.chain .none else .ok .none
  | some (some s) => applyChain vc.chain (.str s)

/-- the system ID of a matching line; "must never result in a value of None" -/
def specSysId (cfg : Cfg) (g : Groups) : Except Err String :=
  match specValue cfg.sysId g with
  | .error e => .error e
  | .ok .none => .error "ValueError"
  | .ok (.list _) => .error "TypeError"
  | .ok (.str s) => .ok s

/-- the variables of one line in configuration order: the `(key, value)` pairs that are
added (a `None` only with `use_none_value`) and the nested mapping they build on top of `d` -/
def specLine (g : Groups) : List (String × VarCfg) → Kids → Except Err (List (String × Val) × Kids)
  | [], d => .ok ([], d)
  | (key, vc) :: rest, d =>
    match specValue vc g with
    | .error e => .error e
    | .ok v =>
      if v = .none ∧ !vc.useNone then specLine g rest d
      else
        let comps := splitColon key
        match setPath comps.dropLast (comps.getLastD "") v d with
        | .error e => .error e
        | .ok d' =>
          match specLine g rest d' with
          | .error e => .error e
          | .ok (vs, d'') => .ok ((key, v) :: vs, d'')

/-- what the file says about one system -/
structure Rec where
  sid : String
  /-- the line it comes from -/
  text : String
  /-- its variables `(key, value)`, colon keys unsplit -/
  vars : List (String × Val)
  data : Kids

/-- the systems of a file in file order (`acc` = those of the lines above), or the exception
of the first line that cannot be accepted. A line whose ID already has a record changes
nothing (or is an error when so configured). -/
def specRecords (cfg : Cfg) : List Line → List Rec → Except Err (List Rec)
  | [], acc => .ok acc
  | l :: ls, acc =>
    match l.cls with
    | .ignored => specRecords cfg ls acc
    | .mismatch => if cfg.mismatch = .error then .error "ValueError" else specRecords cfg ls acc
    | .groups g =>
      match specSysId cfg g with
      | .error e => .error e
      | .ok sid =>
        if acc.any (fun r => r.sid = sid) then
          (if cfg.duplicate = .error then .error "ValueError" else specRecords cfg ls acc)
        else
          match specLine g cfg.vars .nil with
          | .error e => .error e
          | .ok (vs, d) => specRecords cfg ls (acc ++ [⟨sid, l.text, vs, d⟩])

/-- `get_data`: the system's record, `({}, "")` for an unknown system -/
def specGet (ver : String → String) (rs : List Rec) (sid : String) : Res :=
  match rs.find? (fun r => r.sid = sid) with
  | none => .data .nil ""
  | some r => .data r.data (ver r.text)

/-- the systems, in file order, one of whose variables is `key` with value `val` -/
def specMatches (rs : List Rec) (key : String) (val : Val) : List String :=
  rs.flatMap (fun r => (r.vars.filter (fun kv => kv.1 = key ∧ kv.2 = val)).map (fun _ => r.sid))

/-- `find_system`: the single match, or the first one when `find_first_match` is set -/
def specFind (cfg : Cfg) (rs : List Rec) (key : String) (val : Val) : Res :=
  .found (match specMatches rs key val with
    | [] => none
    | [s] => some s
    | s :: _ :: _ => if cfg.findFirst then some s else none)

def specAnswer (ver : String → String) (cfg : Cfg) (rs : List Rec) : Call → Res
  | .get sid => specGet ver rs sid
  | .find k v => specFind cfg rs k v

/-- what a call must return while the file has content `cur` (`none` = no file) -/
def specCall (ver : String → String) (cfg : Cfg) (cur : Option Content) (c : Call) : Res :=
  match cur with
  | none => .raised "FileNotFoundError"
  | some .garbage => .raised "UnicodeDecodeError"
  | some (.text lines) =>
    match specRecords cfg lines [] with
    | .error e => .raised e
    | .ok rs => specAnswer ver cfg rs c

/-- the expected results of the calls of a history: a function of the file content at the
time of each call and of nothing else -/
def specRun (ver : String → String) (cfg : Cfg) : Option Content → List Step → List Res
  | _, [] => []
  | _, .write c :: ss => specRun ver cfg (some c) ss
  | _, .delete :: ss => specRun ver cfg none ss
  | cur, .call c :: ss => specCall ver cfg cur c :: specRun ver cfg cur ss

/-- CHECKER (whole property, one observation = results of the calls of one history):
each call returned what the current content specifies. -/
def reloadOK (ver : String → String) (cfg : Cfg) (init : Option Content) (hist : List Step)
    (obs : List Res) : Bool :=
  obs == specRun ver cfg init hist

/-- per-call verdicts, for diagnosis: `true` where observed and specified result coincide -/
def callVerdicts : List Res → List Res → List Bool
  | o :: os, e :: es => (o == e) :: callVerdicts os es
  | [], [] => []
  | _, _ => [false]

/-- the `get_data` calls of a history paired with their results -/
def getsOf : List Step → List Res → List (String × Res)
  | [], _ => []
  | .call (.get sid) :: ss, r :: rs => (sid, r) :: getsOf ss rs
  | .call _ :: ss, _ :: rs => getsOf ss rs
  | .call _ :: _, [] => []
  | _ :: ss, rs => getsOf ss rs

/-- two answers about the same system: different data ⇒ different version -/
def versionPairOK : String × Res → String × Res → Bool
  | (s, .data d v), (s', .data d' v') => s != s' || d == d' || v != v'
  | _, _ => true

/-- CHECKER: over all pairs of `get_data` results of one observation, a system's version
changes whenever its data changes -/
def versionsOK (hist : List Step) (obs : List Res) : Bool :=
  let gs := getsOf hist obs
  gs.all (fun a => gs.all (fun b => versionPairOK a b))

/-- CHECKER (find_system clause alone): the result is a system that has the variable with the
value, it is the first such system in file order, and it is withheld exactly when there are
several and `find_first_match` is off -/
def findOK (cfg : Cfg) (rs : List Rec) (key : String) (val : Val) (res : Option String) : Bool :=
  let ms := specMatches rs key val
  match res with
  | none => ms.isEmpty || (ms.length > 1 && !cfg.findFirst)
  | some s => ms.head? == some s && (ms.length == 1 || cfg.findFirst)

end Vinegar.TextFile
