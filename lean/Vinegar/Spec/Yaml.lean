import Vinegar.Model.Yaml
/-
Specifications of C11 and C12.

C11: the relation `Expands` transcribes the module documentation of
`vinegar/data_source/yaml_target.py` (and the error sentence of the property) sentence by
sentence. It does not follow the code's case split (`_process_data_file_content` has three
cases, empty pieces are dropped, all names of a list are resolved before the first file is
read …) and knows nothing of caches, versions or fuel. `docData` is an executable evaluator
of the same relation and `c11Check` compares one observed result with it.

C12: `c12CheckCall` — the observed result of a call equals that of a newly constructed
source (`c12ModelCheck`: equals the model's cache-less compilation of the current tree); `versionsSeparate` — over the observations of one history,
different data for one system carry different version strings.
-/
namespace Vinegar.Yaml

/-! ## equality of observed values (key order matters) -/

mutual
def Val.beq : Val → Val → Bool
  | .null, .null => true
  | .bool a, .bool b => a == b
  | .int a, .int b => a == b
  | .str a, .str b => a == b
  | .float a, .float b => a == b
  | .list a, .list b => Val.beqList a b
  | .dict a, .dict b => Val.beqKvs a b
  | .set a, .set b => a == b
  | .opaque a, .opaque b => a == b
  | _, _ => false
def Val.beqList : List Val → List Val → Bool
  | [], [] => true
  | x :: xs, y :: ys => Val.beq x y && Val.beqList xs ys
  | _, _ => false
def Val.beqKvs : List (String × Val) → List (String × Val) → Bool
  | [], [] => true
  | (k, v) :: xs, (k', w) :: ys => k == k' && Val.beq v w && Val.beqKvs xs ys
  | _, _ => false
end

def Mapping.beq (a b : Mapping) : Bool := Val.beqKvs a b

/-! ## C11: the documentation as a relation -/

/-- "the reference to `example` would be resolved to `example/init.yaml` if `example.yaml`
does not exist" (a directory called `example.yaml` is not a file). The third argument is the
file's place in the tree, as a dotted name: `example` or `example.init`. -/
inductive Resolves (tree : Tree) (name : Name) : Name → FileNode → Prop
  | direct {node : FileNode} : pathOf name ≠ [] → tree (pathOf name) = some node → node ≠ .dir →
      Resolves tree name name node
  | init {node : FileNode} : pathOf name ≠ [] → (tree (pathOf name) = none ∨ tree (pathOf name) = some .dir) →
      tree (pathOf name ++ ["init"]) = some node →
      Resolves tree name (name ++ ["init"]) node

/-- number of leading dots of an include name = number of leading empty segments -/
def leadingDots : Name → Nat
  | "" :: rest => leadingDots rest + 1
  | _ => 0

/-- "Included files can also be specified in a relative fashion": `.other` is in the same
directory as the including file, every further dot goes one directory up. With `k` leading
dots the last `k` components of the including file's place are replaced by the rest of the
name. No result: the empty name, a name of dots only, a reference above the root. -/
def docResolve (inc : Name) (place : Name) : Option Name :=
  let k := leadingDots inc
  if k = 0 then some inc
  else if inc.drop k = [] then none
  else if k > place.length then none
  else some (place.take (place.length - k) ++ inc.drop k)

/-- all elements have a result -/
def mapO {α β : Type} (f : α → Option β) : List α → Option (List β)
  | [] => some []
  | a :: as =>
    match f a, mapO f as with
    | some b, some bs => some (b :: bs)
    | _, _ => none

/-- `Expands tree parents names pieces`: the files `names`, included from a file whose chain
of including files is `parents`, contribute exactly the list `pieces`, in this order:
"This has the same effect as if the content of that file was pasted at the position of the
include" — the data before the include block, then the included files, then the data after
it; "values from files that are listed later take precedence" is the left-to-right order of
the list. A file that is one of its own ancestors, that cannot be found, that is not a
mapping, whose include names are empty or leave the tree has no derivation. -/
inductive Expands (tree : Tree) : List Name → List Name → List Mapping → Prop
  | nil {parents : List Name} : Expands tree parents [] []
  | cons {parents : List Name} {name : Name} {rest : List Name} {place : Name} {kvs : Mapping}
      {incs names : List Name} {ps qs : List Mapping} :
      name ∉ parents →
      Resolves tree name place (.file (.mapping kvs)) →
      includeNames (splitAtInclude kvs).2.1 = .ok incs →
      mapO (fun i => docResolve i place) incs = some names →
      Expands tree (parents ++ [name]) names ps →
      Expands tree parents rest qs →
      Expands tree parents (name :: rest)
        ([(splitAtInclude kvs).1] ++ ps ++ [(splitAtInclude kvs).2.2] ++ qs)

/-- one file -/
def ExpandsFile (tree : Tree) (parents : List Name) (name : Name) (pieces : List Mapping) : Prop :=
  Expands tree parents [name] pieces

/-- "take the top file's targets in file order, keep those whose expression matches the
system id and preceding data, concatenate their file lists". No result when an entry is not a
list of non-empty names or an expression cannot be evaluated. -/
def docTopNames : List (MatchRes × TopList) → Option (List Name)
  | [] => some []
  | (m, .names ns) :: rest =>
    if ns.contains [""] then none else
    match m, docTopNames rest with
    | .yes, some r => some (ns ++ r)
    | .no, some r => some r
    | _, _ => none
  | _ :: _ => none

/-! ### executable evaluator of the relation -/

def docResolveFile (tree : Tree) (name : Name) : Option (Name × Mapping) :=
  if pathOf name = [] then none else
  match tree (pathOf name) with
  | some (.file (.mapping kvs)) => some (name, kvs)
  | some (.file _) => none
  | some .renderError => none
  | _ =>
    match tree (pathOf name ++ ["init"]) with
    | some (.file (.mapping kvs)) => some (name ++ ["init"], kvs)
    | _ => none

/-- pieces of one file by the documentation; `none` = no derivation within `depth` -/
def docFile (tree : Tree) : Nat → List Name → Name → Option (List Mapping)
  | 0, _, _ => none
  | depth + 1, parents, name =>
    if name ∈ parents then none else
    (docResolveFile tree name).bind fun pk =>
    (toOpt (includeNames (splitAtInclude pk.2).2.1)).bind fun incs =>
    (mapO (fun i => docResolve i pk.1) incs).bind fun names =>
    (mapO (docFile tree depth (parents ++ [name])) names).bind fun pss =>
    some ([(splitAtInclude pk.2).1] ++ pss.flatten ++ [(splitAtInclude pk.2).2.2])

def docList (tree : Tree) (depth : Nat) (parents : List Name) (names : List Name) : Option (List Mapping) :=
  (mapO (docFile tree depth parents) names).map List.flatten

/-- what the documentation says `get_data` returns -/
inductive DocResult where
  | data (m : Mapping)
  | error
  deriving Repr, Inhabited

def docData (cfg : Cfg) (depth : Nat) (top : TopView) (tree : Tree) : DocResult :=
  match top with
  | .parsed .null => if cfg.allowEmptyTop then .data [] else .error
  | .parsed (.entries es) =>
    match docTopNames es with
    | none => .error
    | some ns =>
      match docList tree depth [TOPFILE] ns with
      | none => .error
      | some pieces =>
        match foldMerge cfg [] pieces with
        | .ok d => .data d
        | .error _ => .error
  | _ => .error

/-- C11 checker of one observation (`none` = an exception was raised) -/
def c11Check (cfg : Cfg) (depth : Nat) (top : TopView) (tree : Tree) (obs : Option Mapping) : Bool :=
  match docData cfg depth top tree, obs with
  | .data d, some o => Mapping.beq d o
  | .error, none => true
  | _, _ => false

/-! ## C12 -/

/-- reference of the LRU as a bounded recency list (least recent first): using or storing a
key drops it, appends it as most recent, and keeps the `size` most recent entries -/
def specTouch {V : Type} (size : Nat) (k : String) (v : V) (l : List (String × V)) : List (String × V) :=
  let l' := l.filter (fun p => p.1 ≠ k) ++ [(k, v)]
  l'.drop (l'.length - size)

def parseNode (W : World) : VNode → FileNode
  | .dir => .dir
  | .renderError => .renderError
  | .text t => .file (W.parse t)

/-- the parsed tree a call sees -/
def Call.parsedTree (W : World) (c : Call) : Tree := fun p => (c.tree p).map (parseNode W)

def Call.topView (W : World) (c : Call) : TopView :=
  match c.top with
  | .missing => .missing
  | .renderError => .renderError
  | .text t => .parsed (W.topParse t c.id c.pdv)

/-- the result of a newly constructed cache-less source for this call -/
def freshResult (W : World) (cfg : Cfg) (fuel : Nat) (c : Call) : Except Err Mapping :=
  compile cfg fuel (c.topView W) (c.parsedTree W)

/-- the data part of a result -/
def dataOf : Except Err (Mapping × String) → Except Err Mapping
  | .ok dv => .ok dv.1
  | .error e => .error e

/-- the reference for a whole history: after the edits so far, every `get` is answered by a
newly constructed cache-less source (`Vinegar.Yaml.compile` on the tree as it is now) -/
def freshHistory (W : World) (R : Render) (cfg : Cfg) (fuel : Nat) : Fs → List Step → List (Except Err Mapping)
  | _, [] => []
  | fs, .get id pdv :: rest => freshResult W cfg fuel (fs.call R id pdv) :: freshHistory W R cfg fuel fs rest
  | fs, .write p s :: rest => freshHistory W R cfg fuel (fs.apply (.write p s)) rest
  | fs, .delete p :: rest => freshHistory W R cfg fuel (fs.apply (.delete p)) rest
  | fs, .mkdir p :: rest => freshHistory W R cfg fuel (fs.apply (.mkdir p)) rest
  | fs, .swap p :: rest => freshHistory W R cfg fuel (fs.apply (.swap p)) rest
  | fs, .setTop n :: rest => freshHistory W R cfg fuel (fs.apply (.setTop n)) rest

/-- observation of one call: data and version, or the class of the error -/
inductive Obs where
  | ok (data : Mapping) (version : String)
  | err (cls : String)
  deriving Repr, Inhabited

/-- "each call returns exactly what a newly constructed cache-less source would return at
that moment": the observation of the long-lived source against the observation of a source
constructed for this one call (data with key order, or the error class; the version strings
are compared by `versionsSeparate`) -/
def c12CheckCall (fresh long : Obs) : Bool :=
  match fresh, long with
  | .ok d _, .ok d' _ => Mapping.beq d d'
  | .err c, .err c' => c == c'
  | _, _ => false

/-- the same comparison against the model's cache-less compilation of the current tree (what
`Vinegar.C12.history_transparent` proves of the model with its three cache layers, and what
the correspondence establishes of the freshly constructed source) -/
def c12ModelCheck (W : World) (cfg : Cfg) (fuel : Nat) (c : Call) (o : Obs) : Bool :=
  match freshResult W cfg fuel c, o with
  | .ok d, .ok d' _ => Mapping.beq d d'
  | .error e, .err cls => e.cls == cls
  | _, _ => false

/-- "whenever two calls for the same system return different data their version strings
differ", over the `(system id, observation)` list of one history -/
def versionsSeparate : List (String × Obs) → Bool
  | [] => true
  | (id, o) :: rest =>
    (match o with
     | .ok d v => rest.all (fun q =>
         match q.2 with
         | .ok d' v' => !(q.1 == id) || Mapping.beq d d' || !(v == v')
         | .err _ => true)
     | .err _ => true) && versionsSeparate rest

end Vinegar.Yaml
