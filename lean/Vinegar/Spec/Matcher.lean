import Vinegar.Model.Matcher
/-
Specification side of C18 (system matcher).

* `Cst`: concrete syntax trees = expression trees decorated with everything the documentation
  leaves to the writer: which parentheses are written, the whitespace at every place where
  whitespace may stand, the quoting of every key and pattern, `/` with or without `i`, the
  prefix-less shorthand. `render` prints one, `abstract` forgets the decoration, `legal` is
  the documented well-formedness (precedence `not` > `and` > `or`, keywords separated from
  their neighbours by whitespace or a parenthesis, unquoted text free of reserved characters).
  The set of legal renderings of a tree `t` is
  `{ lead ++ render c ++ trail | legalTop lead c trail, abstract c = t }`; it is EXACTLY the set of
  strings the parser accepts with tree `t` (`Vinegar.C18.parse_render` and `Vinegar.C18.parse_sound`).
* DOCUMENTED-BEHAVIOUR NOTE (`bareKeyword`, `endsKeyword`): the documentation and the grammar comment
  in `simple_expr.py` treat `and`, `or`, `not` as reserved words. The code recognises a keyword only
  where whitespace, `(` or the end of the input follows it (`_peek_keyword`), so directly before a
  closing parenthesis the three words are read as prefix-less id-glob patterns: `(and)` is accepted
  and matches the system id "and", `(x and not)` is `x and <id "not">`. `legal` admits exactly that
  family (an unquoted shorthand term spelling a keyword is legal iff the `)` of an enclosing group
  follows it directly) — it is what the code does, not what the documentation promises.
* `print`: the printer family (`Style`: minimal or redundant parentheses, tight or padded
  whitespace, the whitespace string, preferred quoting, `/` always, shorthand) — each member
  produces a legal `Cst` of the tree (`Vinegar.C18.legal_print`, `abstract_print`).
* `obsOk`, `checkSystems`, `checkCache`: Bool checkers over one observation of the real
  `match()` / `Matcher.matches()`, evaluated by the driver on what the implementation did.
* `literalMatches`: concrete reference for literal terms on ASCII text (cross-checks the
  truth table the harness ships for the `re`-based terms).
-/
namespace Vinegar.Matcher

inductive Quote
  | none | single | double
  deriving DecidableEq, Repr, Inhabited

def Quote.char : Quote → Char
  | .single => '\''
  | _ => '"'

/-- concrete spelling of one term -/
structure AtomSyn where
  atom : Atom
  shorthand : Bool      -- written without `@id_glob/i@`
  slash : Bool          -- the option separator `/` is written
  keyQ : Quote
  patQ : Quote
  deriving DecidableEq, Repr, Inhabited

inductive Cst
  | atom (a : AtomSyn)
  | not (ws : Str) (c : Cst)                  -- "not" ws c
  | paren (ws1 : Str) (c : Cst) (ws2 : Str)   -- "(" ws1 c ws2 ")"
  | and (l : Cst) (ws1 ws2 : Str) (r : Cst)   -- l ws1 "and" ws2 r
  | or (l : Cst) (ws1 ws2 : Str) (r : Cst)    -- l ws1 "or" ws2 r
  deriving Repr, Inhabited

def escape (q : Char) : Str → Str
  | [] => []
  | c :: cs => if c = q ∨ c = '\\' then '\\' :: c :: escape q cs else c :: escape q cs

def renderStr (q : Quote) (s : Str) : Str :=
  match q with
  | .none => s
  | .single => '\'' :: (escape '\'' s ++ ['\''])
  | .double => '"' :: (escape '"' s ++ ['"'])

def kindName : Kind → Str
  | .glob => ['g', 'l', 'o', 'b']
  | .literal => ['l', 'i', 't', 'e', 'r', 'a', 'l']
  | .re => ['r', 'e']

def renderOpts (slash cs : Bool) : Str :=
  if slash then (if cs then ['/'] else ['/', 'i']) else []

def renderPrefix (a : AtomSyn) : Str :=
  if a.shorthand then []
  else
    match a.atom.key with
    | some k =>
      ['@', 'd', 'a', 't', 'a', '_'] ++ kindName a.atom.kind ++ renderOpts a.slash a.atom.caseSensitive ++
        (':' :: (renderStr a.keyQ k ++ ['@']))
    | none => ['@', 'i', 'd', '_'] ++ kindName a.atom.kind ++ renderOpts a.slash a.atom.caseSensitive ++ ['@']

def renderAtom (a : AtomSyn) : Str := renderPrefix a ++ renderStr a.patQ a.atom.pattern

def render : Cst → Str
  | .atom a => renderAtom a
  | .not ws c => kwNot ++ (ws ++ render c)
  | .paren ws1 c ws2 => '(' :: (ws1 ++ (render c ++ (ws2 ++ [')'])))
  | .and l ws1 ws2 r => render l ++ (ws1 ++ (kwAnd ++ (ws2 ++ render r)))
  | .or l ws1 ws2 r => render l ++ (ws1 ++ (kwOr ++ (ws2 ++ render r)))

def abstract : Cst → Expr
  | .atom a => .atom a.atom
  | .not _ c => .not (abstract c)
  | .paren _ c _ => abstract c
  | .and l _ _ r => .and (abstract l) (abstract r)
  | .or l _ _ r => .or (abstract l) (abstract r)

/-- binding strength: 3 unary (term, `not`, parentheses), 2 `and`, 1 `or` -/
def level : Cst → Nat
  | .atom _ => 3
  | .not _ _ => 3
  | .paren _ _ _ => 3
  | .and _ _ _ _ => 2
  | .or _ _ _ _ => 1

def startsParen : Cst → Bool
  | .atom _ => false
  | .not _ _ => false
  | .paren _ _ _ => true
  | .and l _ _ _ => startsParen l
  | .or l _ _ _ => startsParen l

def startsNot : Cst → Bool
  | .atom _ => false
  | .not _ _ => true
  | .paren _ _ _ => false
  | .and l _ _ _ => startsNot l
  | .or l _ _ _ => startsNot l

def endsParen : Cst → Bool
  | .atom _ => false
  | .not _ c => endsParen c
  | .paren _ _ _ => true
  | .and _ _ _ r => endsParen r
  | .or _ _ _ r => endsParen r

def allSpace (ws : Str) : Bool := ws.all isSpace

/-- text that may be written without quotes: non-empty, no stop character, not starting with a quote -/
def unquotedOk (isStop : Char → Bool) : Str → Bool
  | [] => false
  | c :: cs => !isQuote c && (c :: cs).all (fun d => !isStop d)

/-- the spelling of one term by itself (whether an unquoted shorthand term that spells a keyword
    may stand depends on what follows it: `bareKeyword`, `legal`) -/
def legalAtom (a : AtomSyn) : Bool :=
  (if a.shorthand then a.atom.key.isNone && a.atom.kind == .glob && !a.atom.caseSensitive
   else a.slash || a.atom.caseSensitive) &&
  (match a.atom.key with
   | some k => !k.isEmpty && (a.keyQ != .none || unquotedOk isStopKey k)
   | none => true) &&
  (a.patQ != .none || unquotedOk isStopPattern a.atom.pattern)

/-- an unquoted prefix-less term that spells `and`, `or` or `not` -/
def bareKeyword (a : AtomSyn) : Bool := a.shorthand && a.patQ == .none && keywords.contains a.atom.pattern

/-- the rendering ends with a bare keyword term -/
def endsKeyword : Cst → Bool
  | .atom a => bareKeyword a
  | .not _ c => endsKeyword c
  | .paren _ _ _ => false
  | .and _ _ _ r => endsKeyword r
  | .or _ _ _ r => endsKeyword r

/-- Well-formed concrete syntax. The last conjunct of the `paren`, `and`, `or` cases (and of
    `legalTop`) is the documented-behaviour note of the header: a term spelling a keyword without
    quotes or prefix may stand only directly before the `)` of the enclosing group — before
    whitespace, an operator or the end of the input the word is the keyword. -/
def legal : Cst → Bool
  | .atom a => legalAtom a
  | .not ws c => allSpace ws && (!ws.isEmpty || startsParen c) && level c == 3 && legal c
  | .paren ws1 c ws2 => allSpace ws1 && allSpace ws2 && legal c && (ws2.isEmpty || !endsKeyword c)
  | .and l ws1 ws2 r =>
    allSpace ws1 && allSpace ws2 && (!ws1.isEmpty || endsParen l) && (!ws2.isEmpty || startsParen r) &&
      decide (2 ≤ level l) && level r == 3 && legal l && legal r && !endsKeyword l
  | .or l ws1 ws2 r =>
    allSpace ws1 && allSpace ws2 && (!ws1.isEmpty || endsParen l) && (!ws2.isEmpty || startsParen r) &&
      decide (2 ≤ level r) && legal l && legal r && !endsKeyword l

/-- a whole expression string: optional whitespace around a legal tree -/
def renderTop (lead : Str) (c : Cst) (trail : Str) : Str := lead ++ (render c ++ trail)
def legalTop (lead : Str) (c : Cst) (trail : Str) : Bool :=
  allSpace lead && allSpace trail && legal c && !endsKeyword c

/-! ### the printer family -/

structure Style where
  sp : Str              -- written where whitespace is mandatory
  pad : Str             -- written where whitespace is optional (inside parentheses, around the whole)
  tight : Bool          -- omit the whitespace between a keyword and an adjacent parenthesis
  redundant : Bool      -- parenthesise every operand
  quote : Quote         -- preferred quoting; `.none` = unquoted wherever that is legal, else double quotes
  slashAlways : Bool    -- write `/` also for case-sensitive terms
  useShorthand : Bool   -- write case-insensitive id globs without prefix
  deriving Repr, Inhabited

def Style.ok (s : Style) : Bool := !s.sp.isEmpty && allSpace s.sp && allSpace s.pad

def Style.fallbackQuote (s : Style) : Quote := if s.quote == .none then .double else s.quote

def printAtom (s : Style) (a : Atom) : AtomSyn :=
  let sh := s.useShorthand && a.key.isNone && a.kind == .glob && !a.caseSensitive
  let patQ :=
    if s.quote == .none && unquotedOk isStopPattern a.pattern && (!sh || !keywords.contains a.pattern) then Quote.none
    else s.fallbackQuote
  let keyQ :=
    match a.key with
    | some k => if s.quote == .none && unquotedOk isStopKey k then Quote.none else s.fallbackQuote
    | none => Quote.none
  ⟨a, sh, s.slashAlways || !a.caseSensitive, keyQ, patQ⟩

def wrap (s : Style) (c : Cst) : Cst := .paren s.pad c s.pad

/-- parenthesise `c` unless it already binds at least as tightly as `need` (always, in redundant style) -/
def operand (s : Style) (need : Nat) (c : Cst) : Cst :=
  if s.redundant || level c < need then wrap s c else c

def wsBefore (s : Style) (l : Cst) : Str := if s.tight && endsParen l then [] else s.sp
def wsAfter (s : Style) (r : Cst) : Str := if s.tight && startsParen r then [] else s.sp

def print (s : Style) : Expr → Cst
  | .atom a => .atom (printAtom s a)
  | .not e =>
    let c := operand s 3 (print s e)
    .not (wsAfter s c) c
  | .and l r =>
    let cl := operand s 2 (print s l)
    let cr := operand s 3 (print s r)
    .and cl (wsBefore s cl) (wsAfter s cr) cr
  | .or l r =>
    let cl := operand s 1 (print s l)
    let cr := operand s 2 (print s r)
    .or cl (wsBefore s cl) (wsAfter s cr) cr

def printTop (s : Style) (e : Expr) : Str := renderTop s.pad (print s e) s.pad

/-- every data term has a non-empty key (an empty key cannot be written down) -/
def printable (e : Expr) : Bool := e.atoms.all (fun a => a.key != some [])

def styles : List Style :=
  [ ⟨[' '], [], false, false, .none, false, true⟩,          -- minimal
    ⟨[' '], [], true, true, .double, true, false⟩,          -- every operand parenthesised, tight, double quotes
    ⟨['\t', ' '], [' ', '\n'], false, true, .single, false, true⟩,  -- padded, single quotes
    ⟨['\n'], [' '], true, false, .none, true, false⟩ ]

/-! ### checkers over observations of the implementation -/

/-- one call of `match()`: the observation is what the documentation prescribes for the
    expected outcome (`expected` = the tree the string denotes, or rejection) -/
def obsOk {σ : Type} (expected : Except ParseError Expr) (am : Atom → σ → Bool) (sys : σ) (o : Obs) : Bool :=
  match expected with
  | .ok e => o == .result (eval am e sys)
  | .error _ => o == .raised "ValueError"

/-- one expression on a list of systems -/
def checkSystems {σ : Type} (expected : Except ParseError Expr) (am : Atom → σ → Bool) (systems : List σ)
    (obs : List Obs) : Bool :=
  obs.length == systems.length && (systems.zip obs).all (fun p => obsOk expected am p.1 p.2)

/-- first use of `match()`, cached use of `match()`, first and second use of one `Matcher` -/
structure CaseObs where
  first : List Obs
  cached : List Obs
  matcherFirst : List Obs
  matcherCached : List Obs
  deriving Repr

/-- "identically on first and on cached use" -/
def checkCache (o : CaseObs) : Bool :=
  o.cached == o.first && o.matcherFirst == o.first && o.matcherCached == o.first

/-- the whole property on one case -/
def checkCase {σ : Type} (expected : Except ParseError Expr) (am : Atom → σ → Bool) (systems : List σ)
    (o : CaseObs) : Bool :=
  checkSystems expected am systems o.first && checkCache o

/-- what the model observes for the four uses -/
def modelCaseObs {σ : Type} (atomOk : Atom → Bool) (am : Atom → σ → Bool) (s : Str) (systems : List σ) : CaseObs :=
  let calls := systems.map (fun sys => (s, sys))
  let both := runCached atomOk am Cache.empty (calls ++ calls)
  ⟨both.take systems.length, both.drop systems.length, both.take systems.length, both.drop systems.length⟩

/-! ### concrete literal terms (ASCII) -/

structure Sys where
  id : Str
  data : List (Str × Str)     -- values already converted as `_data_expression` does (None → "", other → str)
  deriving Repr

def asciiLower (c : Char) : Char :=
  if 'A' ≤ c ∧ c ≤ 'Z' then Char.ofNat (c.toNat + 32) else c

def isAscii (s : Str) : Bool := s.all (fun c => c.toNat < 128)

def subject (a : Atom) (s : Sys) : Str :=
  match a.key with
  | none => s.id
  | some k => (s.data.lookup k).getD []

/-- documented meaning of a literal term: equal strings, ignoring (ASCII) case under `/i` -/
def literalMatches (a : Atom) (s : Sys) : Bool :=
  if a.caseSensitive then a.pattern == subject a s
  else a.pattern.map asciiLower == (subject a s).map asciiLower

/-! ### concrete glob terms (ASCII, `*` and `?` only) and the value of a whole expression

Used by C11 to evaluate the target expressions of a top file independently of the real matcher
(`fnmatch.translate` semantics for patterns without brackets: `*` any run of characters, `?` one
character, everything else itself; the whole subject must match). -/

def globMatch : Str → Str → Bool
  | [], [] => true
  | [], _ :: _ => false
  | p :: ps, s =>
    if p = '*' then
      globMatch ps s || (match s with
        | [] => false
        | _ :: s' => globMatch (p :: ps) s')
    else match s with
      | [] => false
      | c :: s' => (p = '?' || p = c) && globMatch ps s'
termination_by p s => p.length + s.length

/-- a pattern this concrete reading covers: no bracket expressions -/
def plainGlob (p : Str) : Bool := !p.contains '[' && !p.contains ']'

def globMatches (a : Atom) (s : Sys) : Bool :=
  if a.caseSensitive then globMatch a.pattern (subject a s)
  else globMatch (a.pattern.map asciiLower) ((subject a s).map asciiLower)

/-- the documented value of a term on a concrete system, where this file defines one: literal and
bracket-free glob terms on ASCII text (regular expressions and non-ASCII text: `none`) -/
def atomValue (a : Atom) (s : Sys) : Option Bool :=
  if !(isAscii a.pattern && isAscii (subject a s)) then none
  else match a.kind with
    | .literal => some (literalMatches a s)
    | .glob => if plainGlob a.pattern then some (globMatches a s) else none
    | .re => none

/-- value of an expression, `none` if some term has no concrete value here -/
def evalConcrete (e : Expr) (s : Sys) : Option Bool :=
  if e.atoms.all (fun a => (atomValue a s).isSome) then
    some (eval (fun a sys => (atomValue a sys).getD false) e s)
  else none

end Vinegar.Matcher
