import Vinegar.Model.Jinja
/-
C17 — specification side.

`renderRef` is the *cache-less* meaning of rendering: there is no engine state at all, every
template is read from the current files, the configured context overrides the caller's, an include
sees the context, an import does not, an include with `ignore missing` of a file that is not
there contributes nothing. The Bool checkers below compare ONE observation (the list
of outcomes of the `render` operations of a history, or the list of allow-list decisions) with
that reference; the driver evaluates them on what the real `JinjaEngine` produced, and
`Theorems/C17.lean` proves that the engine model passes them for every history.
-/
namespace Vinegar.Jinja
open Vinegar

/-- "objects specified via this option take precedence over objects passed to render" -/
def refLookup (base caller : Ctx) (x : String) : String :=
  match base.lookup x with
  | some v => v
  | none =>
    match caller.lookup x with
    | some v => v
    | none => ""

def refNodes (cfg : Cfg) (sub : Bool → Name → Ctx → Ctx → Outcome) (base caller : Ctx) :
    List Node → Outcome
  | [] => .ok ""
  | n :: rest =>
    let r : Outcome :=
      match n with
      | .text s => .ok s
      | .var x => .ok (refLookup base caller x)
      | .incl t => sub false t base caller
      | .inclOpt t => sub true t base caller
      | .imp t => sub false t [] []
      | .py key => pyGet cfg.allow cfg.modules key
    match r with
    | .error e => .error e
    | .ok s => (refNodes cfg sub base caller rest).map (s ++ ·)

/-- cache-less render of the current files; `opt` = reached through an include with
`ignore missing`: if this very file is not found the include renders as the empty string (any
other failure, and any failure inside the file, is a failure of the whole render) -/
def renderRef (cfg : Cfg) (fs : FS) : Nat → Bool → Name → Ctx → Ctx → Outcome
  | 0, _, _, _, _ => .error .recursion
  | fuel + 1, opt, name, base, caller =>
    match (getSource cfg fs name).toExcept with
    | .error e => onGetError opt e
    | .ok t =>
      refNodes cfg (fun o t' b c => renderRef cfg fs fuel o (joinPath cfg.relative t' name) b c)
        base caller t

/-- the outcomes a history must produce: every `render` is a cache-less render of the files as
they are at that moment -/
def runRef (cfg : Cfg) (fuel : Nat) : FS → List Op → List Outcome
  | _, [] => []
  | fs, .write p t s :: rest => runRef cfg fuel (fs.write p t s) rest
  | fs, .delete p :: rest => runRef cfg fuel (fs.delete p) rest
  | fs, .render name caller :: rest =>
    renderRef cfg fs fuel false name cfg.baseCtx caller :: runRef cfg fuel fs rest

/-! ### observations -/

/-- what the harness sees of one `render`: the text, or the class name of the exception -/
inductive Obs where
  | ok (s : String)
  | err (cls : String)
deriving Repr, DecidableEq

def toObs : Outcome → Obs
  | .ok s => .ok s
  | .error e => .err e.name

/-- each render's output equals the output of a cache-less render of the current files -/
def rendersMatchRef (ref : List Outcome) (obs : List Obs) : Bool :=
  ref.map toObs == obs

/-- repeated rendering never fails because of the cache setting: a render raises only if the
cache-less render of the current files raises the same exception -/
def noCacheFailure : List Outcome → List Obs → Bool
  | [], [] => true
  | r :: rs, o :: os =>
    (match o with
     | .err cls => toObs r == .err cls
     | .ok _ => true) && noCacheFailure rs os
  | _, _ => false

/-- no stale output: a render that succeeds shows what the cache-less render of the current files
shows (in particular it does not succeed where the current files no longer render) -/
def noStale : List Outcome → List Obs → Bool
  | [], [] => true
  | r :: rs, o :: os =>
    (match o with
     | .ok b => toObs r == .ok b
     | .err _ => true) && noStale rs os
  | _, _ => false

/-- the C17 checker of one history observation -/
def historyCheck (cfg : Cfg) (fuel : Nat) (fs : FS) (ops : List Op) (obs : List Obs) : Bool :=
  rendersMatchRef (runRef cfg fuel fs ops) obs

/-- name of the first clause of the property the observation violates ("" = none).
`fresh` is what freshly constructed engines of the implementation produced at the same points:
if those agree with the reference the engine's state (cache) is to blame. -/
def failedClause (ref : List Outcome) (obs fresh : List Obs) : String :=
  if rendersMatchRef ref obs then ""
  else if !rendersMatchRef ref fresh then "reference"
  else if !noCacheFailure ref obs then "cache_failure"
  else "stale"

/-! ### allow-list -/

/-- `some pkg` iff `e = pkg ++ ".*"` -/
def dropWildcard (e : Str) : Option Str :=
  match e.reverse with
  | '*' :: '.' :: r => some r.reverse
  | _ => none

/-- the documented rule for one entry: exact module name, `package.*` for sub-modules (names that
start with `package.`), or `*` -/
def entryRef (e m : Str) : Bool :=
  e == ['*'] || e == m ||
    (match dropWildcard e with
     | some pkg => (pkg ++ ['.']).isPrefixOf m
     | none => false)

def allowRef (allow : List Str) (m : Str) : Bool := allow.any (fun e => entryRef e m)

/-- every observed decision equals the documented rule -/
def allowCheck (allow : List Str) (queries : List Str) (decisions : List Bool) : Bool :=
  queries.map (allowRef allow) == decisions

/-- the python helper yields an attribute only if its module is allowed -/
def pyYieldCheck (allow : List Str) (key : Str) (o : Obs) : Bool :=
  match o with
  | .err _ => true
  | .ok _ =>
    match rsplitDot key with
    | some (m, _) => allowRef allow m
    | none => false

end Vinegar.Jinja
